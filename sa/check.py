"""CLI:  python -m sa.check <id> [--tier quick|thorough] [--repo /repo] | --replay <path> | --all"""
import argparse
import importlib
import json
import os
import sys
import time
import traceback

from .core import Ctx, AnalysisError, finish, VERIF
from .model import Model, AnchorError

PROPS = ["C%02d" % i for i in range(1, 21)]


def run_one(prop, tier, repo, seed, out_dir=None):
    t0 = time.time()
    try:
        mod = importlib.import_module("sa.rules.%s" % prop.lower())
    except ImportError as e:
        print("ANALYSIS-ERROR property=%s no rule module: %s" % (prop, e))
        return 2
    try:
        model = Model(os.path.join(repo, "discopy"))
        ctx = Ctx(prop, model, tier, seed)
        try:
            mod.check(ctx)
        except (AnalysisError, AnchorError) as e:
            # violations already decided stay valid; without any, the run is analysis-broken
            ctx.broken = str(e)
        return finish(ctx, t0, explanation=getattr(mod, "EXPLANATION", ""), extra=getattr(mod, "EXTRA", None),
                      out_dir=out_dir)
    except (AnalysisError, AnchorError) as e:
        print("ANALYSIS-ERROR property=%s %s" % (prop, e))
        return 2
    except SyntaxError as e:
        print("ANALYSIS-ERROR property=%s source does not parse: %s" % (prop, e))
        return 2
    except Exception:
        traceback.print_exc()
        print("ANALYSIS-ERROR property=%s internal error (see traceback)" % prop)
        return 2


def main(argv=None):
    ap = argparse.ArgumentParser()
    ap.add_argument("prop", nargs="?")
    ap.add_argument("--tier", default=os.environ.get("VERIF_TIER", "quick"))
    ap.add_argument("--repo", default=os.environ.get("VERIF_REPO", "/repo"))
    ap.add_argument("--out", default=None, help="directory for evidence/ and replay/ (default /verif)")
    ap.add_argument("--replay")
    ap.add_argument("--all", action="store_true")
    a = ap.parse_args(argv)
    seed = int(os.environ.get("VERIF_SEED", "0") or 0)
    if a.replay:
        rec = json.load(open(a.replay))
        print(json.dumps(rec, indent=1))
        print("re-running %s on %s" % (rec["property"], a.repo))
        return run_one(rec["property"], a.tier, a.repo, seed, a.out)
    if a.all:
        rc = 0
        for p in PROPS:
            if os.path.exists(os.path.join(VERIF, "sa", "rules", p.lower() + ".py")):
                rc = max(rc, run_one(p, a.tier, a.repo, seed, a.out))
        return rc
    if not a.prop:
        ap.error("property id required")
    return run_one(a.prop.upper(), a.tier, a.repo, seed, a.out)


if __name__ == "__main__":
    sys.exit(main())
