import sys, shutil, os; sys.path.insert(0, '/tmp/spike')
from sa import c07
src = open('/repo/discopy/rewriting.py').read()
muts = {
 'yankable: +1 dropped': ("or left_snake and diagram.offsets[cup] + 1 != wire", "or left_snake and diagram.offsets[cup] != wire"),
 'right leg starts at offsets[cap]': ("(False, diagram.offsets[cap] + 1)]", "(False, diagram.offsets[cap])]"),
 'follow_wire: off < j': ("            if off <= j:\n                j += len(box.cod) - len(box.dom)", "            if off < j:\n                j += len(box.cod) - len(box.dom)"),
 'follow_wire: j update sign': ("j += len(box.cod) - len(box.dom)", "j += len(box.dom) - len(box.cod)"),
 'follow_wire: inside test <=': ("if off <= j < off + len(box.dom):", "if off <= j <= off + len(box.dom):"),
 'unsnake: cap += 1 dropped': ("                        right_obstruction[i] += 1\n                cap += 1", "                        right_obstruction[i] += 1"),
 'unsnake: left obs moved to cup (left snake)': ("            for box in left_obstruction:\n                diagram = diagram.interchange(box, cap)", "            for box in left_obstruction:\n                diagram = diagram.interchange(box, cup)"),
 'deletion: offsets cut at cup': ("offsets = diagram.offsets[:cap] + diagram.offsets[cup + 1:]", "offsets = diagram.offsets[:cap] + diagram.offsets[cup:]"),
 'BENIGN comment+temp': ("        left_obstruction, right_obstruction = obstructions", "        left_obstruction, right_obstruction = obstructions  # unpack\n        n_obs = len(left_obstruction)"),
}
for name, (a, b) in muts.items():
    assert a in src, name
    shutil.rmtree('/tmp/spike/scratch', ignore_errors=True)
    shutil.copytree('/repo/discopy', '/tmp/spike/scratch/discopy', ignore=shutil.ignore_patterns('__pycache__'))
    open('/tmp/spike/scratch/discopy/rewriting.py', 'w').write(src.replace(a, b, 1))
    msgs = []
    try: rc = c07.check(out=msgs.append, root='/tmp/spike/scratch/discopy')
    except BaseException as e: rc = 'EXC %s: %s' % (type(e).__name__, e)
    v = [m for m in msgs if 'VIOLATION' in m or 'ANALYSIS' in m]
    print('%-44s rc=%s n=%d %s' % (name, rc, len(v), (v[0] if v else '')[:170]))
shutil.rmtree('/tmp/spike/scratch', ignore_errors=True)
