"""Spike engine E: extract gate tables / closed forms / gate2zx terms from AST and evaluate in a reference algebra."""
import ast, cmath, math, numpy as np
src = open('/repo/discopy/quantum/gates.py').read(); mod = ast.parse(src)

class Fold(ast.NodeVisitor):
    def __init__(self, env): self.env = env
    def visit_Constant(self, n): return n.value
    def visit_Name(self, n):
        if n.id in self.env: return self.env[n.id]
        raise KeyError(n.id)
    def visit_Attribute(self, n):
        d = ast.unparse(n)
        if d in self.env: return self.env[d]
        base = self.visit(n.value)
        return getattr(base, n.attr)
    def visit_List(self, n): return [self.visit(e) for e in n.elts]
    def visit_Tuple(self, n): return tuple(self.visit(e) for e in n.elts)
    def visit_UnaryOp(self, n):
        v = self.visit(n.operand)
        return -v if isinstance(n.op, ast.USub) else +v
    def visit_BinOp(self, n):
        l, r = self.visit(n.left), self.visit(n.right)
        return {ast.Add: lambda: l + r, ast.Sub: lambda: l - r, ast.Mult: lambda: l * r, ast.Div: lambda: l / r,
                ast.Pow: lambda: l ** r, ast.MatMult: lambda: l @ r, ast.RShift: lambda: l >> r}[type(n.op)]()
    def visit_Call(self, n):
        f = self.visit(n.func)
        return f(*[self.visit(a) for a in n.args], **{k.arg: self.visit(k.value) for k in n.keywords})
    def generic_visit(self, n): raise NotImplementedError(ast.dump(n)[:80])

NP = {'numpy.sqrt': np.sqrt, 'numpy.array': np.array, 'numpy.exp': np.exp, 'numpy.pi': np.pi}
tables = {}
def QG(name, n, array=None, data=None, _dagger=False): return ('QG', name, n, np.array(array, dtype=complex).reshape(2**n, 2**n), _dagger)
for st in mod.body:
    if isinstance(st, ast.Assign) and isinstance(st.value, ast.Call) and ast.unparse(st.value.func) == 'QuantumGate':
        tables[st.targets[0].id] = Fold(dict(NP, QuantumGate=QG)).visit(st.value)
REF = {'H': np.array([[1,1],[1,-1]])/np.sqrt(2), 'S': np.diag([1,1j]), 'T': np.diag([1,np.exp(1j*np.pi/4)]),
       'X': np.array([[0,1],[1,0]]), 'Y': np.array([[0,-1j],[1j,0]]), 'Z': np.diag([1,-1]), 'CZ': np.diag([1,1,1,-1])}
for k, (_, name, n, A, dg) in tables.items():
    M = A.T   # array is [in][out]; matrix is [out][in]
    print(k, 'matches tket' if np.allclose(M, REF[name]) else 'MISMATCH (equals transpose: %s)' % np.allclose(A, REF[name]),
          '| hermitian:', np.allclose(M, M.conj().T), '_dagger=', dg)

# closed forms of rotations
class Mods:  # stands for self.modules and Tensor.np
    pi = math.pi; sin = staticmethod(cmath.sin); cos = staticmethod(cmath.cos); exp = staticmethod(cmath.exp)
    @staticmethod
    def array(x): return np.array(x, dtype=complex)
def closed_form(clsname):
    cls = next(c for c in mod.body if isinstance(c, ast.ClassDef) and c.name == clsname)
    fn = next(f for f in cls.body if isinstance(f, ast.FunctionDef) and f.name == 'array')
    def M(phi):
        env = {'self.modules': Mods, 'Tensor.np': Mods, 'self.phase': phi}
        for st in fn.body:
            if isinstance(st, ast.Assign):
                val = Fold(env).visit(st.value)
                t = st.targets[0]
                if isinstance(t, ast.Tuple):
                    for a, v in zip(t.elts, val): env[a.id] = v
                else: env[t.id] = val
            elif isinstance(st, ast.Return):
                A = Fold(env).visit(st.value)
                n = int(round(math.log2(A.size)))//2
                return np.array(A).reshape(2**n, 2**n).T
    return M
X_, Y_, Z_ = REF['X'], REF['Y'], REF['Z']
from scipy.linalg import expm
P1 = np.diag([0,1])
refs = {'Rx': lambda p: expm(-1j*np.pi*p*X_), 'Ry': lambda p: expm(-1j*np.pi*p*Y_), 'Rz': lambda p: expm(-1j*np.pi*p*Z_),
        'CRz': lambda p: np.kron(np.diag([1,0]), np.eye(2)) + np.kron(P1, expm(-1j*np.pi*p*Z_)),
        'CRx': lambda p: np.kron(np.diag([1,0]), np.eye(2)) + np.kron(P1, expm(-1j*np.pi*p*X_)),
        'CU1': lambda p: np.diag([1,1,1,np.exp(2j*np.pi*p)])}
pts = [k/7.3 for k in range(-4, 5)]
for name, ref in refs.items():
    M = closed_form(name)
    ok = all(np.allclose(M(p), ref(p)) for p in pts)
    neg = all(np.allclose(M(-p), M(p).conj().T) for p in pts)
    print(name, 'closed form ok' if ok else 'MISMATCH (transpose ok: %s)' % all(np.allclose(M(p).T, ref(p)) for p in pts), '| dagger-by-negation sound:', neg)
