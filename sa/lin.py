"""Linear forms over symbolic non-negative integers, with fact-based entailment (no solver)."""
from fractions import Fraction


class Lin:
    __slots__ = ("t", "c")

    def __init__(self, terms=None, c=0):
        self.t = {k: Fraction(v) for k, v in (terms or {}).items() if v != 0}
        self.c = Fraction(c)

    @staticmethod
    def of(x):
        if isinstance(x, Lin):
            return x
        if isinstance(x, bool):
            raise TypeError("bool is not a Lin")
        if isinstance(x, (int, Fraction)):
            return Lin({}, x)
        if isinstance(x, float) and float(x).is_integer():
            return Lin({}, int(x))
        if isinstance(x, float):
            return Lin({}, Fraction(x).limit_denominator(1 << 20))
        raise TypeError("not linear: %r" % (x,))

    @staticmethod
    def var(name):
        return Lin({name: 1})

    def __add__(self, o):
        o = Lin.of(o)
        t = dict(self.t)
        for k, v in o.t.items():
            t[k] = t.get(k, 0) + v
        return Lin(t, self.c + o.c)

    __radd__ = __add__

    def __neg__(self):
        return Lin({k: -v for k, v in self.t.items()}, -self.c)

    def __sub__(self, o):
        return self + (-Lin.of(o))

    def __rsub__(self, o):
        return Lin.of(o) - self

    def __mul__(self, o):
        o = Lin.of(o)
        if o.is_const():
            return Lin({k: v * o.c for k, v in self.t.items()}, self.c * o.c)
        if self.is_const():
            return o * self
        raise TypeError("non-linear product %r * %r" % (self, o))

    __rmul__ = __mul__

    def __truediv__(self, o):
        o = Lin.of(o)
        if not o.is_const() or o.c == 0:
            raise TypeError("non-linear division")
        return self * (1 / o.c)

    def key(self):
        return (tuple(sorted(self.t.items())), self.c)

    def __eq__(self, o):
        try:
            return self.key() == Lin.of(o).key()
        except TypeError:
            return False

    def __hash__(self):
        return hash(self.key())

    def is_const(self):
        return not self.t

    def const(self):
        assert self.is_const()
        return self.c

    def vars(self):
        return set(self.t)

    def subst(self, mapping):
        r = Lin({}, self.c)
        for k, v in self.t.items():
            r = r + (Lin.of(mapping[k]) * v if k in mapping else Lin({k: v}))
        return r

    def _plain_nonneg(self):
        return self.c >= 0 and all(v >= 0 for v in self.t.values())

    def __repr__(self):
        parts = []
        for k, v in sorted(self.t.items()):
            if v == 1:
                parts.append(k)
            elif v == -1:
                parts.append("-" + k)
            else:
                parts.append("%s*%s" % (v, k))
        if self.c or not parts:
            parts.append(str(self.c))
        return " + ".join(parts).replace("+ -", "- ")


class Facts:
    """A conjunction of linear facts  L >= 0.  All variables are >= 0 unless listed in `free`."""

    def __init__(self, ge=(), free=()):
        self.ge = list(ge)
        self.free = set(free)
        self._fixed_cache = None

    def extend(self, *ge):
        return Facts(self.ge + [Lin.of(g) for g in ge], self.free)

    def with_eq(self, a, b):
        d = Lin.of(a) - Lin.of(b)
        return self.extend(d, -d)

    def _nonneg0(self, L):
        # variables in `free` may be negative: they must cancel out
        if any(v in self.free for v in L.t):
            return False
        return L._plain_nonneg()

    def _fixed(self):
        """variables pinned to a constant by a pair of facts  v - c >= 0  and  c - v >= 0"""
        if getattr(self, "_fixed_cache", None) is not None and self._fixed_cache[0] == len(self.ge):
            return self._fixed_cache[1]
        fixed = {}
        keys = {g.key() for g in self.ge}
        for g in self.ge:
            if len(g.t) == 1:
                (v, c), = g.t.items()
                if (-g).key() in keys and c in (1, -1):
                    fixed[v] = -g.c / c
        self._fixed_cache = (len(self.ge), fixed)
        return fixed

    def nonneg(self, L, depth=2):
        """entails L >= 0 ?  (sound, incomplete)"""
        L = Lin.of(L)
        fixed = self._fixed()
        if fixed and any(v in fixed for v in L.t):
            L = L.subst(fixed)
        if self._nonneg0(L):
            return True
        if depth == 0:
            return False
        for f in self.ge:
            # L - k*f for k in (1, matching coefficient)
            ks = {Fraction(1)}
            for v, cv in L.t.items():
                if v in f.t and f.t[v] != 0 and cv / f.t[v] > 0:
                    ks.add(cv / f.t[v])
            for k in ks:
                if Facts([g for g in self.ge if g is not f], self.free).nonneg(L - f * k, depth - 1):
                    return True
        return False

    def pos(self, L):
        """entails L >= 1 (integers)"""
        return self.nonneg(Lin.of(L) - 1)

    def zero(self, L):
        L = Lin.of(L)
        return L == 0 or (self.nonneg(L) and self.nonneg(-L))

    def eq(self, a, b):
        return self.zero(Lin.of(a) - Lin.of(b))

    def le(self, a, b):
        return self.nonneg(Lin.of(b) - Lin.of(a))

    def lt(self, a, b):
        return self.pos(Lin.of(b) - Lin.of(a))

    def sign(self, L):
        """'+' (>=1), '0', '-' (<=-1), '>=0', '<=0' or None"""
        L = Lin.of(L)
        if self.zero(L):
            return "0"
        if self.pos(L):
            return "+"
        if self.pos(-L):
            return "-"
        if self.nonneg(L):
            return ">=0"
        if self.nonneg(-L):
            return "<=0"
        return None
