"""Normal forms of branch predicates: DNF over atoms `Lin >= 0` and opaque literals.

Two predicates written differently (`a >= b + c`, `b + c <= a`, `not a < b + c`, `a - b >= c`) get the same
normal form; a weakened or shifted one does not.  Comparison is syntactic on the normal form, with a fall-back to
mutual entailment by Facts (sound, incomplete)."""
import ast
from .lin import Lin, Facts

TRUE = frozenset([frozenset()])
FALSE = frozenset()


def _and(f, g):
    return _simp(frozenset(a | b for a in f for b in g))


def _or(f, g):
    return _simp(f | g)


def _contradictory(conj):
    lins = [a for a in conj if isinstance(a, Lin)]
    for a in lins:
        if a.is_const() and a.c < 0:
            return True
        for b in lins:
            s = a + b
            if s.is_const() and s.c < 0:
                return True
    ops = {(a[1], a[2]) for a in conj if isinstance(a, tuple)}
    return any((t, not p) in ops for t, p in ops)


def _simp(f):
    out = set()
    for conj in f:
        conj = frozenset(a for a in conj if not (isinstance(a, Lin) and a.is_const() and a.c >= 0))
        if not _contradictory(conj):
            out.add(conj)
    # absorption
    res = {c for c in out if not any(d < c for d in out)}
    return frozenset(res)


def atom_ge(d):
    """d >= 0 with integer tightening left to the caller"""
    return frozenset([frozenset([Lin.of(d)])])


def compare_nf(op, a, b):
    d = Lin.of(a) - Lin.of(b)
    t = type(op)
    if t is ast.GtE:
        return atom_ge(d)
    if t is ast.Gt:
        return atom_ge(d - 1)
    if t is ast.LtE:
        return atom_ge(-d)
    if t is ast.Lt:
        return atom_ge(-d - 1)
    if t is ast.Eq:
        return _and(atom_ge(d), atom_ge(-d))
    if t is ast.NotEq:
        return _or(atom_ge(d - 1), atom_ge(-d - 1))
    raise ValueError("comparison %s" % t.__name__)


def negate(f):
    """negation of a DNF (integers: not(L >= 0) == -L - 1 >= 0)"""
    res = TRUE
    for conj in f:
        alt = FALSE
        for a in conj:
            if isinstance(a, Lin):
                alt = _or(alt, atom_ge(-a - 1))
            else:
                alt = _or(alt, frozenset([frozenset([(a[0], a[1], not a[2])])]))
        res = _and(res, alt)
    return res


def nf(test, evalfn, opaque=None):
    """normal form of a boolean expression; `evalfn(node)` gives Lin / bool for leaves; unknown leaves become opaque."""
    if isinstance(test, ast.BoolOp):
        parts = [nf(v, evalfn, opaque) for v in test.values]
        r = parts[0]
        for p in parts[1:]:
            r = _and(r, p) if isinstance(test.op, ast.And) else _or(r, p)
        return r
    if isinstance(test, ast.UnaryOp) and isinstance(test.op, ast.Not):
        return negate(nf(test.operand, evalfn, opaque))
    if isinstance(test, ast.Compare):
        vals = [test.left] + list(test.comparators)
        r = TRUE
        try:
            ev = [evalfn(v) for v in vals]
            for op, a, b in zip(test.ops, ev, ev[1:]):
                r = _and(r, compare_nf(op, a, b))
            return r
        except (TypeError, ValueError, KeyError, Exception) as e:   # noqa: broad on purpose -> opaque literal
            if opaque is None:
                raise
            if len(test.ops) == 1 and isinstance(test.ops[0], (ast.Eq, ast.NotEq)):
                a, b = sorted([opaque(vals[0]), opaque(vals[1])])
                return frozenset([frozenset([("opaque", "%s == %s" % (a, b), isinstance(test.ops[0], ast.Eq))])])
    try:
        v = evalfn(test)
        if isinstance(v, bool):
            return TRUE if v else FALSE
        if isinstance(v, Lin):                   # truthiness of an int: != 0
            return _or(atom_ge(v - 1), atom_ge(-v - 1))
    except Exception:
        if opaque is None:
            raise
    key = opaque(test) if opaque else ast.unparse(test)
    return frozenset([frozenset([("opaque", key, True)])])


def entails(f, g, facts=None):
    """every disjunct of f implies some disjunct of g (sound, incomplete)"""
    facts = facts or Facts()
    for conj in f:
        fc = facts.extend(*[a for a in conj if isinstance(a, Lin)])
        lits = {a for a in conj if not isinstance(a, Lin)}
        ok = False
        for d in g:
            if all((a in lits) if not isinstance(a, Lin) else fc.nonneg(a) for a in d):
                ok = True
                break
        if not ok:
            return False
    return True


def equivalent(f, g, facts=None):
    return f == g or (entails(f, g, facts) and entails(g, f, facts))


def show(f):
    if f == TRUE:
        return "true"
    if f == FALSE:
        return "false"
    def lit(a):
        if isinstance(a, Lin):
            return "%r >= 0" % a
        return ("" if a[2] else "not ") + a[1]
    return " | ".join(sorted("(" + " & ".join(sorted(lit(a) for a in c)) + ")" for c in f))
