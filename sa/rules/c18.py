"""C18 — grammar front-ends only produce well-typed, grammatical derivations (R18.1–R18.4; engines A, B, D, F)."""
import ast
import itertools
from ..lin import Lin, Facts
from ..words import Seq, Seg, Atom, Unlocatable
from ..beval import Obj, Closure, Unsupported, Undecided, Obligation, Evaluator
from ..diag import Ev, TD, swap_contract
from ..core import AnalysisError
from ..cfg import CFG
from .. import shape, pred, dispatch

EXPLANATION = (
    "Type preservation of the biclosed -> rigid translation is decided on symbolic multi-wire types: the domain/codomain of each "
    "biclosed box class (FA, BA, FC, BC, FX, BX, Curry) are extracted from its __init__, the arguments biclosed.Functor routes to the "
    "rigid methods are extracted from its __call__, the image of slash types is extracted from the functor's Over/Under branches and "
    "rigid.Ty.__lshift__/__rshift__ (F(a << b) = F a · (F b).l, F(a >> b) = (F a).r · F b), and the rigid method body is evaluated "
    "abstractly (engine B with adjoint words) in every emptiness case of the operand types; its dom/cod must equal the image of the "
    "box's dom/cod and every cups/caps call inside must be on adjoint words. eager_parse: contraction only under the adjointness "
    "test, the layer's four slices partition the scan, value returned only under cod == target, words first in order. CFG.generate: "
    "productions come from the grammar, applied only when their codomain is the leftmost open symbol, sentences yielded only when "
    "closed. cat2ty / tree2diagram: slash directions and rule table.")

BIC, RIG, PRE, CFGM, CCG = "discopy.biclosed", "discopy.rigid", "discopy.grammar.pregroup", "discopy.grammar.cfg", "discopy.grammar.ccg"


# ------------------------------------------------------------------------------------------- biclosed type terms
class BOb:
    """one object of a biclosed type: an opaque basic block (image = a Seq) or a slash type"""
    def __init__(self, kind, left=None, right=None, image=None, name=None):
        self.kind, self.left, self.right, self.image, self.name = kind, left, right, image, name

    def __repr__(self):
        if self.kind == "atom":
            return self.name
        return "(%r %s %r)" % (self.left, "<<" if self.kind == "over" else ">>", self.right)

    def __eq__(self, o):
        return isinstance(o, BOb) and repr(self) == repr(o)

    def __hash__(self):
        return hash(repr(self))


class BT:
    """a biclosed type: a list of objects.  A length-1 type holding a slash object *is* that object (biclosed.Ty.upgrade)."""
    def __init__(self, objs):
        self.objs = list(objs)

    def __repr__(self):
        return " @ ".join(map(repr, self.objs)) or "Ty()"

    def __eq__(self, o):
        return isinstance(o, BT) and self.objs == o.objs

    def attr(self, name):
        if len(self.objs) == 1 and self.objs[0].kind in ("over", "under") and name in ("left", "right"):
            return getattr(self.objs[0], name)
        raise Unsupported("attribute .%s of biclosed type %r" % (name, self))


def over(l, r):
    return BT([BOb("over", l, r)])


def under(l, r):
    return BT([BOb("under", l, r)])


def F(bt, rules):
    """image of a biclosed type under the translation, using the extracted rules for slashes"""
    out = Seq()
    for o in bt.objs:
        if o.kind == "atom":
            out = out + o.image
        elif o.kind == "over":
            out = out + rules["over"](F(o.left, rules), F(o.right, rules))
        else:
            out = out + rules["under"](F(o.left, rules), F(o.right, rules))
    return out


class BEval:
    """evaluates the tiny expression language of biclosed __init__ bodies and of biclosed.Functor.__call__ branches"""
    def __init__(self, rules, functor_name=None, param=None):
        self.rules, self.fname, self.param = rules, functor_name, param

    def ev(self, n, env):
        if isinstance(n, ast.Name):
            if n.id in env:
                return env[n.id]
            raise Unsupported("name %s" % n.id)
        if isinstance(n, ast.Constant):
            return n.value
        if isinstance(n, ast.Attribute):
            if ast.unparse(n) == "%s.ar_factory" % self.fname:
                return "ar_factory"
            v = self.ev(n.value, env)
            if v == "ar_factory":
                return ("method", n.attr)
            if isinstance(v, BT):
                return v.attr(n.attr)
            if isinstance(v, dict) and n.attr in v:
                return v[n.attr]
            raise Unsupported("attribute %s" % ast.unparse(n))
        if isinstance(n, ast.BinOp):
            l, r = self.ev(n.left, env), self.ev(n.right, env)
            if isinstance(l, BT) and isinstance(r, BT):
                if isinstance(n.op, ast.MatMult):
                    return BT(l.objs + r.objs)
                if isinstance(n.op, ast.LShift):
                    return over(l, r)
                if isinstance(n.op, ast.RShift):
                    return under(l, r)
            if isinstance(l, Seq) and isinstance(r, Seq):
                if isinstance(n.op, ast.LShift):
                    return self.rules["over"](l, r)
                if isinstance(n.op, ast.RShift):
                    return self.rules["under"](l, r)
            raise Unsupported("operator in %s" % ast.unparse(n))
        if isinstance(n, ast.Subscript) and isinstance(n.slice, ast.Slice):
            v = self.ev(n.value, env)
            if not isinstance(v, BT):
                raise Unsupported("slice of %r" % (v,))
            lo = self.index(n.slice.lower, env, len(v.objs)) if n.slice.lower else 0
            hi = self.index(n.slice.upper, env, len(v.objs)) if n.slice.upper else len(v.objs)
            return BT(v.objs[lo:hi])
        if isinstance(n, ast.Tuple):
            return tuple(self.ev(e, env) for e in n.elts)
        if isinstance(n, ast.IfExp):
            return self.ev(n.body if self.ev(n.test, env) else n.orelse, env)
        if isinstance(n, ast.Call):
            f = ast.unparse(n.func)
            if f == self.fname:                                   # self(<type or diagram>)
                v = self.ev(n.args[0], env)
                if isinstance(v, BT):
                    return F(v, self.rules)
                if isinstance(v, dict) and v.get("kind") == "bdiag":
                    return TD(F(v["dom"], self.rules), F(v["cod"], self.rules))
                raise Unsupported("functor applied to %r" % (v,))
            if f == "len":
                v = self.ev(n.args[0], env)
                if isinstance(v, Seq):
                    return v.length
                if isinstance(v, BT):
                    return len(v.objs)
            if f == "getattr" and len(n.args) == 2:
                o, a = self.ev(n.args[0], env), self.ev(n.args[1], env)
                if o == "ar_factory":
                    return ("method", a)
                if isinstance(o, BT):
                    return o.attr(a)
                raise Unsupported("getattr on %r" % (o,))
            fv = self.ev(n.func, env)
            if isinstance(fv, tuple) and fv[0] == "method":
                return ("call", fv[1], [self.ev(a, env) for a in n.args])
            raise Unsupported("call %s" % ast.unparse(n))
        if isinstance(n, ast.UnaryOp) and isinstance(n.op, ast.USub):
            return -self.ev(n.operand, env)
        if isinstance(n, ast.BoolOp) and isinstance(n.op, ast.Or):
            for e in n.values:
                v = self.ev(e, env)
                if v:
                    return v
            return v
        raise Unsupported("expression %s" % ast.unparse(n))

    def index(self, n, env, length):
        v = self.ev(n, env)
        if isinstance(v, Lin):
            v = int(v.const())
        return v

    def run(self, body, env):
        for st in body:
            if isinstance(st, ast.Assign):
                try:
                    v = self.ev(st.value, env)
                except Unsupported:
                    continue            # e.g. the name string of the box: not a type; a later use of the unbound name is reported
                t = st.targets[0]
                if isinstance(t, ast.Tuple):
                    for a, b in zip(t.elts, v):
                        env[a.id] = b
                else:
                    env[t.id] = v
            elif isinstance(st, ast.Return):
                return self.ev(st.value, env)
            elif isinstance(st, ast.If):
                # guards of the constructors: `if not isinstance(...)` / `if a != b: raise` hold on the generic instance by construction
                if isinstance(st.body[-1], ast.Raise):
                    continue
                raise Unsupported("conditional %s" % ast.unparse(st.test))
            elif isinstance(st, ast.Expr):
                continue
            else:
                raise Unsupported("statement %s" % type(st).__name__)
        return None


# ------------------------------------------------------------------------------------------- rigid side
def make_env(ev):
    def cups(l, r):
        ok = l.r.same(r, ev.facts) or l.same(r.r, ev.facts)
        ev.obligations.append(Obligation("adjoint(cups)", (l, r), "l.r == r or l == r.r", ev.where, ok))
        return TD(l + r, Seq())

    def caps(l, r):
        ok = l.r.same(r, ev.facts) or l.same(r.r, ev.facts)
        ev.obligations.append(Obligation("adjoint(caps)", (l, r), "l.r == r or l == r.r", ev.where, ok))
        return TD(Seq(), l + r)
    def one_wire(kind, dom_of, cod_of):
        def mk(l, r):
            ok = ev.facts.eq(l.length, 1) and ev.facts.eq(r.length, 1)
            ev.obligations.append(Obligation("one-wire(%s)" % kind, (l, r), "the %s box takes one-wire types only (use Diagram.%s for types)" % (kind, kind.lower() + "s" if kind != "Swap" else "swap"),
                                             ev.where, ok))
            return TD(dom_of(l, r), cod_of(l, r))
        return Closure(mk)
    D = Obj("Factory", id=Closure(lambda t: TD(t, t)), cups=Closure(cups), caps=Closure(caps), swap=Closure(swap_contract))
    return {"Id": Closure(lambda t=Seq(): TD(t, t)), "Diagram": D,
            "Swap": one_wire("Swap", lambda l, r: l + r, lambda l, r: r + l),
            "Cup": one_wire("Cup", lambda l, r: l + r, lambda l, r: Seq()),
            "Cap": one_wire("Cap", lambda l, r: Seq(), lambda l, r: l + r)}


def forks(atoms):
    for choice in itertools.product((0, 1), repeat=len(atoms)):
        f = Facts()
        for a, c in zip(atoms, choice):
            f = f.with_eq(a.length, 0) if c == 0 else f.extend(a.length - 1)
        yield choice, f


def forks2(pairs):
    """emptiness cases per operand type: all its objects have empty images / all have non-empty images"""
    for choice in itertools.product((0, 1), repeat=len(pairs)):
        f = Facts()
        for pair, c in zip(pairs, choice):
            for a in pair:
                f = f.with_eq(a.length, 0) if c == 0 else f.extend(a.length - 1)
        yield choice, f


def run_method(ctx, name, args, facts):
    fn = ctx.model.func(RIG + ".Diagram." + name)
    ev = Ev(facts, "rigid.Diagram." + name)
    env = make_env(ev)
    params = [a.arg for a in fn.args.args]
    for p, v in zip(params, args):
        env[p] = v
    for p, d in zip(reversed(params), reversed(fn.args.defaults)):
        env.setdefault(p, ev.ev(d, {}))
    r = ev.run(fn.body, env)
    if not r or r[0] != "return":
        raise Unsupported("rigid.Diagram.%s returns nothing" % name)
    return ev, r[1]


def ret_expr(body):
    for st in body:
        if isinstance(st, ast.Return):
            return st.value
    return None


def extract_slash_rules(ctx):
    """F(a << b) and F(a >> b) from biclosed.Functor.__call__ and rigid.Ty.__lshift__/__rshift__"""
    m = ctx.model
    rules = {}
    for op, name, spec, impl in (("<<", "__lshift__", "self @ other.l", lambda a, b: a + b.l), (">>", "__rshift__", "self.r @ other", lambda a, b: a.r + b)):
        fn = m.func(RIG + ".Ty." + name)
        ctx.analysed(RIG + ".Ty." + name)
        a = [x.arg for x in fn.args.args]
        ok = shape.match(ctx, "R18.1", RIG + ".Ty." + name, ret_expr(fn.body), spec, {a[0]: "self", a[1]: "other"}, mod=RIG, node=fn, sig="slash-" + name,
                         required="a %s b = %s on rigid types" % (op, spec.replace("self", "a").replace("other", "b")))
        rules["over" if op == "<<" else "under"] = impl
    q = BIC + ".Functor.__call__"
    fn = m.func(q)
    ctx.analysed(q)
    self_, p = fn.args.args[0].arg, fn.args.args[1].arg
    br = dispatch.chain(m, BIC, fn, p)
    for cname, op in (("Over", "<<"), ("Under", ">>")):
        k = m.cls(BIC + "." + cname)
        b = [x for x in br if k in x.classes]
        shape.match(ctx, "R18.1", q + ":" + cname, ret_expr(b[0].body) if b else None, "F(d.left) %s F(d.right)" % op, {self_: "F", p: "d"}, mod=BIC,
                    node=b[0].node if b else fn, sig="functor-" + cname.lower())
    # a tensor of several objects is mapped object by object, in order
    ty = m.cls(BIC + ".Ty")
    b = [x for x in br if ty in x.classes]
    ok = False
    r = ret_expr(b[0].body) if b else None
    if r is not None:
        ok = ast.unparse(r).replace(" ", "") == ("%s.ob_factory.tensor(*[%s(%s[i:i+1])foriinrange(len(%s))])" % (self_, self_, p, p))
    ctx.ob("R18.1", q + ":tensor-in-order", ok, found=ast.unparse(r) if r is not None else None, required="objects are mapped one by one, in order", mod=BIC,
           node=b[0].node if b else fn, sig="functor-tensor")
    sh = dispatch.shadowed(m, br)
    ctx.ob("R18.1", q + ":no-shadowing", not sh, found=["%s after %s" % (d.q, s.q) for _, d, _, s in sh], required="Over/Under tested before Ty; box classes before the generic fall-back",
           mod=BIC, node=fn, sig="shadow")
    return rules, fn, self_, p


def functor_branch(ctx, fn, self_, p, kname):
    """statements executed by biclosed.Functor.__call__ for a box of class kname (incl. `for cls, method in [...]` tables)"""
    m = ctx.model
    for st in fn.body:
        if isinstance(st, ast.If):
            names, _ = dispatch.isinstance_tests(st.test, p)
            if kname in names:
                return st.body, {}
        if isinstance(st, ast.For) and isinstance(st.iter, ast.List) and isinstance(st.target, ast.Tuple):
            for e in st.iter.elts:
                if isinstance(e, ast.Tuple) and ast.unparse(e.elts[0]) == kname:
                    inner = st.body[0]
                    if isinstance(inner, ast.If):
                        env = {st.target.elts[1].id: e.elts[1].value}
                        return inner.body, env
    raise AnalysisError("biclosed.Functor.__call__ has no branch for %s" % kname)


def check_translation(ctx):
    m = ctx.model
    rules, ffn, self_, p = extract_slash_rules(ctx)
    # each generic operand type consists of two objects (so that slices such as dom[1:2] differ from dom[1:])
    A, B, C = (Atom("A1"), Atom("A2")), (Atom("B1"), Atom("B2")), (Atom("C1"), Atom("C2"))
    a, b, c = (BT([BOb("atom", image=Seq.atom(X), name=X.name.lower()) for X in pair]) for pair in (A, B, C))
    # generic arguments of each box constructor (the instances its guards let through)
    generic = {
        "FA": [over(a, b)], "BA": [under(a, b)],
        "FC": [over(a, b), over(b, c)], "BC": [under(a, b), under(b, c)],
        "FX": [over(a, b), under(c, b)], "BX": [over(b, a), under(b, c)],
    }
    for kname, args in generic.items():
        init = m.func("%s.%s.__init__" % (BIC, kname))
        ctx.analysed("%s.%s.__init__" % (BIC, kname))
        be = BEval(rules, self_, p)
        env = dict(zip([x.arg for x in init.args.args[1:]], args))
        try:
            be.run(init.body, env)
            if "dom" not in env or "cod" not in env:
                raise Unsupported("%s.__init__ does not bind dom, cod" % kname)
            bdom, bcod = env["dom"], env["cod"]
            # guards: the equality guard must relate the parts that are equal in the generic instance
            body, benv = functor_branch(ctx, ffn, self_, p, kname)
            fenv = dict(benv)
            fenv[p] = {"dom": bdom, "cod": bcod}
            res = be.run(body, fenv)
            if not (isinstance(res, tuple) and res[0] == "call"):
                raise Unsupported("functor branch for %s does not call a method of ar_factory" % kname)
            _, method, routed = res
        except (Unsupported, KeyError, TypeError) as e:
            raise AnalysisError("biclosed.%s / its functor branch outside the recognised idioms: %s" % (kname, e))
        sdom, scod = F(bdom, rules), F(bcod, rules)
        n_ok, probs = 0, []
        for choice, facts in forks2([A, B, C]):
            try:
                ev, out = run_method(ctx, method, routed, facts)
                bad = [o for o in ev.obligations if not o.ok]
                if not out.f["dom"].same(sdom, ev.facts):
                    probs.append((choice, "dom", out.f["dom"], sdom))
                if not out.f["cod"].same(scod, ev.facts):
                    probs.append((choice, "cod", out.f["cod"], scod))
                for o in bad:
                    probs.append((choice, o.kind, o.found, o.required))
                if not bad:
                    n_ok += 1
            except Unlocatable as e:
                probs.append((choice, "slice", str(e), "a locatable boundary"))
            except (Unsupported, Undecided) as e:
                raise AnalysisError("rigid.Diagram.%s outside the recognised idioms: %s" % (method, e))
        ctx.analysed(RIG + ".Diagram." + method)
        cname = "%s.%s -> %s.Diagram.%s" % (BIC, kname, RIG, method)
        if probs:
            seen = set()
            for choice, what, found, req in probs:
                if what in seen:
                    continue
                seen.add(what)
                ctx.ob("R18.1", cname + ":" + what, False, found=found, required=req, mod=RIG, node=m.func(RIG + ".Diagram." + method), sig=kname + ":" + what,
                       note="box %s : %r -> %r ; emptiness case (|A|,|B|,|C|) = %s (0: empty, 1: non-empty)" % (kname, bdom, bcod, choice))
        else:
            ctx.ob("R18.1", cname, True, found="%r -> %r in %d emptiness cases" % (sdom, scod, n_ok), required="image of %r -> %r" % (bdom, bcod), mod=RIG,
                   node=m.func(RIG + ".Diagram." + method))

    # ---- Curry
    init = m.func(BIC + ".Curry.__init__")
    ctx.analysed(BIC + ".Curry.__init__")
    X, Y, Wt = Atom("X"), Atom("Y"), Atom("W")
    x, y, w = (BT([BOb("atom", image=Seq.atom(T), name=T.name.lower())]) for T in (X, Y, Wt))
    for left in (False, True):
        be = BEval(rules, self_, p)
        inner = {"kind": "bdiag", "dom": BT(w.objs + x.objs) if left else BT(x.objs + w.objs), "cod": y}
        env = {"diagram": inner, "n_wires": 1, "left": left}
        try:
            # run both arms of `if left:` explicitly
            split = next(s for s in init.body if isinstance(s, ast.If) and ast.unparse(s.test) == "left")
            be.run(split.body if left else split.orelse, env)
            bdom, bcod = env["dom"], env["cod"]
            body, benv = functor_branch(ctx, ffn, self_, p, "Curry")
            fenv = {p: {"dom": bdom, "cod": bcod, "left": left, "diagram": inner}}
            res = be.run(body, fenv)
            if not (isinstance(res, tuple) and res[0] == "call"):
                raise Unsupported("functor branch for Curry does not call a method of ar_factory")
            _, method, routed = res
        except (Unsupported, KeyError, TypeError, StopIteration) as e:
            raise AnalysisError("biclosed.Curry / its functor branch outside the recognised idioms: %s" % e)
        sdom, scod = F(bdom, rules), F(bcod, rules)
        probs, n_ok = [], 0
        for choice, facts in forks([X, Wt, Y]):
            try:
                ev, out = run_method(ctx, method, routed, facts)
                bad = [o for o in ev.obligations if not o.ok]
                if not out.f["dom"].same(sdom, ev.facts):
                    probs.append((choice, "dom", out.f["dom"], sdom))
                if not out.f["cod"].same(scod, ev.facts):
                    probs.append((choice, "cod", out.f["cod"], scod))
                for o in bad:
                    probs.append((choice, o.kind, o.found, o.required))
                if not bad:
                    n_ok += 1
            except Unlocatable as e:
                probs.append((choice, "slice", str(e), "a locatable boundary"))
            except (Unsupported, Undecided) as e:
                raise AnalysisError("rigid.Diagram.curry outside the recognised idioms: %s" % e)
        cname = "%s.Curry(left=%s) -> %s.Diagram.%s" % (BIC, left, RIG, method)
        if probs:
            seen = set()
            for choice, what, found, req in probs:
                key = (what, choice)
                if what in seen:
                    continue
                seen.add(what)
                ctx.ob("R18.1", cname + ":" + what, False, found=found, required=req, mod=RIG, node=m.func(RIG + ".Diagram.curry"),
                       sig="Curry-%s:%s:%s" % (left, what, choice),
                       note="inner diagram %r -> %r ; emptiness case (|F x|,|F w|,|F y|) = %s (0: empty image, 1: non-empty)" % (inner["dom"], inner["cod"], choice))
        else:
            ctx.ob("R18.1", cname, True, found="%r -> %r in %d emptiness cases" % (sdom, scod, n_ok), required="image of %r -> %r" % (bdom, bcod), mod=RIG,
                   node=m.func(RIG + ".Diagram.curry"))
    # biclosed.Diagram.fa/ba/... build the box of the same name from slash types
    for meth, spec in (("fa", "FA(left << right)"), ("ba", "BA(left >> right)"), ("fc", "FC(left << middle, middle << right)"),
                       ("bc", "BC(left >> middle, middle >> right)"), ("fx", "FX(left << middle, right >> middle)"), ("bx", "BX(middle << left, middle >> right)")):
        fn = m.func("%s.Diagram.%s" % (BIC, meth))
        shape.match(ctx, "R18.1", "%s.Diagram.%s" % (BIC, meth), ret_expr(fn.body), spec, {}, mod=BIC, node=fn, sig="bic-" + meth)


# ------------------------------------------------------------------------------------------- parsers
def check_eager_parse(ctx):
    m = ctx.model
    q = PRE + ".eager_parse"
    fn = m.func(q)
    ctx.analysed(q, PRE + ".brute_force")
    words = fn.args.vararg.arg
    target = fn.args.kwonlyargs[0].arg if fn.args.kwonlyargs else None
    ctx.need(target is not None, "eager_parse has no target keyword")
    init = fn.body[0] if isinstance(fn.body[0], ast.Assign) else fn.body[1]
    res = ast.unparse(init.targets[0])
    shape.match(ctx, "R18.2", q + ":words-first", init.value, "Id(Ty()).tensor(*words)", {words: "words"}, mod=PRE, node=init, sig="words-first",
                required="the words, in order, from the empty type")
    loop = next((s for s in ast.walk(fn) if isinstance(s, ast.For)), None)
    ctx.need(loop is not None and isinstance(loop.target, ast.Name), "eager_parse has no scan loop")
    i_ = loop.target.id
    scan = next((ast.unparse(s.targets[0]) for s in fn.body if isinstance(s, ast.Assign) and ast.unparse(s.value) == res + ".cod"), None)
    ctx.need(scan is not None, "eager_parse does not scan result.cod")
    ctx.ob("R18.2", q + ":range", ast.unparse(loop.iter) == "range(len(%s) - 1)" % scan, found=ast.unparse(loop.iter), required="every adjacent pair of the open wires",
           mod=PRE, node=loop, sig="range")
    # the guard
    from .c07 import continue_guards
    cup_asg = next((s for s in loop.body if isinstance(s, ast.Assign) and isinstance(s.value, ast.Call) and ast.unparse(s.value.func) == "Cup"), None)
    ctx.need(cup_asg is not None, "eager_parse builds no Cup")
    known = pred.TRUE
    ren = {scan: "scan", i_: "i"}
    for st, lab, how in continue_guards(loop, cup_asg):
        f = pred.nf(st.test, lambda nd: (_ for _ in ()).throw(ValueError()), lambda nd: ast.unparse(shape.rename(nd, ren)))
        known = pred._and(known, pred.negate(f))
    want = frozenset([frozenset([("opaque", "scan[i + 1:i + 2] == scan[i:i + 1].r", True)])])
    alt = frozenset([frozenset([("opaque", "scan[i + 1:i + 2].l == scan[i:i + 1]", True)])])
    ctx.ob("R18.2", q + ":adjacent-adjoints-only", pred.entails(known, want) or pred.entails(known, alt), found=pred.show(known),
           required="a cup is added only when scan[i].r == scan[i+1]", mod=PRE, node=cup_asg, sig="adjoint-test")
    # generic iteration: scan = P x y Q, |P| = i, |x| = |y| = 1
    P, Xa, Ya, Qa = Atom("P"), Atom("x", 1), Atom("y", 1), Atom("Q")
    sc = Seq.atom(P) + Seq.atom(Xa) + Seq.atom(Ya) + Seq.atom(Qa)
    ev = Ev(Facts(), q)
    ev.classes.update(Id=Closure(lambda t=Seq(): TD(t, t)), Cup=Closure(lambda l, r: TD(l + r, Seq())))
    env = {scan: sc, i_: P.length, res: TD(Seq(), sc)}
    probs = []
    try:
        for st in loop.body:
            if isinstance(st, ast.If) and isinstance(st.body[-1], ast.Continue):
                continue
            if isinstance(st, ast.Break):
                break
            ev.run([st], env)
        out = env[res]
        cupv = env[ast.unparse(cup_asg.targets[0])]
        if cupv.f["dom"] != Seq.atom(Xa) + Seq.atom(Ya):
            probs.append(("cup-legs", cupv.f["dom"], "scan[i] scan[i+1]"))
        if out.f["cod"] != Seq.atom(P) + Seq.atom(Qa):
            probs.append(("new-scan", out.f["cod"], "P Q"))
        for o in ev.obligations:
            if not o.ok:
                probs.append(("layer-composes", o.found, o.required))
        if env[scan] != out.f["cod"]:
            probs.append(("scan-updated", env[scan], "result.cod"))
    except Unlocatable as e:
        probs.append(("slice", str(e), "a locatable boundary"))
    except (Unsupported, Undecided) as e:
        raise AnalysisError("eager_parse loop outside the recognised idioms: %s" % e)
    if probs:
        for what, found, req in probs:
            ctx.ob("R18.2", q + ":step:" + what, False, found=found, required=req, mod=PRE, node=loop, sig="step-" + what)
    else:
        ctx.ob("R18.2", q + ":step", True, found="P x y Q -> P Q by Id(P) @ Cup(x, y) @ Id(Q)", required="the four slices partition the scan; the layer composes", mod=PRE, node=loop)
    rets = [s for s in ast.walk(fn) if isinstance(s, ast.Return)]
    g = CFG(fn)
    okr = len(rets) == 1 and ast.unparse(rets[0].value) == res
    if okr:
        enc = [st for st in ast.walk(fn) if isinstance(st, ast.If) and any(x is rets[0] for x in st.body)]
        okr = bool(enc) and ast.unparse(enc[0].test) in ("%s.cod == %s" % (res, target), "%s == %s.cod" % (target, res))
    ctx.ob("R18.2", q + ":returns-only-target", okr, found=[ast.unparse(r) for r in rets], required="the only return is under result.cod == target", mod=PRE, node=fn,
           sig="returns-target")
    fails = [s for s in ast.walk(fn) if isinstance(s, ast.Raise)]
    ctx.ob("R18.2", q + ":gives-up", len(fails) == 1 and "NotImplementedError" in ast.unparse(fails[0]), found=[ast.unparse(s) for s in fails],
           required="NotImplementedError when no adjacent adjoint pair is left", mod=PRE, node=fn, sig="gives-up")
    bf = m.func(PRE + ".brute_force")
    ys = [n for n in ast.walk(bf) if isinstance(n, ast.Yield)]
    oky = len(ys) == 1 and isinstance(ys[0].value, ast.Call) and ast.unparse(ys[0].value.func) == "eager_parse" and \
        any(k.arg == "target" and ast.unparse(k.value) == "target" for k in ys[0].value.keywords)
    ctx.ob("R18.2", PRE + ".brute_force:yields", oky, found=[ast.unparse(y) for y in ys], required="yields only results of eager_parse(..., target=target)", mod=PRE,
           node=bf, sig="brute-force")


def check_cfg(ctx):
    m = ctx.model
    q = CFGM + ".CFG.generate"
    fn = m.func(q)
    ctx.analysed(q)
    self_ = fn.args.args[0].arg
    start = fn.args.args[1].arg
    prods = next((s for s in ast.walk(fn) if isinstance(s, ast.Assign) and "list(%s.productions)" % self_ in ast.unparse(s.value)), None)
    pv = None
    if prods is not None:
        t = prods.targets[0]
        if isinstance(t, ast.Tuple):
            vals = [ast.unparse(x) for x in prods.value.elts]
            pv = ast.unparse(t.elts[vals.index("list(%s.productions)" % self_)])
        else:
            pv = ast.unparse(t)
    ctx.ob("R18.3", q + ":productions", pv is not None, found=ast.unparse(prods) if prods else None, required="candidate rules are the grammar's productions", mod=CFGM,
           node=fn, sig="productions")
    step = next((s for s in ast.walk(fn) if isinstance(s, ast.Assign) and isinstance(s.value, ast.BinOp) and isinstance(s.value.op, ast.LShift)), None)
    ctx.need(step is not None, "CFG.generate has no rewriting step")
    sent = ast.unparse(step.targets[0])
    loop = next((s for s in ast.walk(fn) if isinstance(s, ast.For) and any(x is step for x in ast.walk(s))), None)
    ctx.need(loop is not None, "the rewriting step is not inside a loop over productions")
    prod = ast.unparse(loop.target)
    ctx.ob("R18.3", q + ":only-given-productions", ast.unparse(loop.iter) == pv, found=ast.unparse(loop.iter), required="for prod in prods", mod=CFGM, node=loop, sig="only-productions")
    shape.match(ctx, "R18.3", q + ":step", step.value, "sentence << prod @ Id(sentence.dom[1:])", {sent: "sentence", prod: "prod"}, mod=CFGM, node=step, sig="step",
                required="the production rewrites the leftmost open symbol")
    enc = [st for st in ast.walk(loop) if isinstance(st, ast.If) and any(x is step for x in st.body)]
    tag = None
    for s in ast.walk(fn):
        if isinstance(s, ast.Assign) and ast.unparse(s.value) == "%s.dom[0]" % sent:
            tag = ast.unparse(s.targets[0])
    okg = bool(enc) and tag is not None and ast.unparse(enc[0].test) in ("Ty(%s) == %s.cod" % (tag, prod), "%s.cod == Ty(%s)" % (prod, tag), "%s.cod == %s.dom[:1]" % (prod, sent))
    ctx.ob("R18.3", q + ":applies-only-matching", okg, found=ast.unparse(enc[0].test) if enc else None, required="only when Ty(leftmost symbol) == prod.cod", mod=CFGM,
           node=enc[0] if enc else loop, sig="matching")
    ys = [n for n in ast.walk(fn) if isinstance(n, ast.Yield)]
    oky = len(ys) == 1 and ast.unparse(ys[0].value) == sent
    if oky:
        encs = [st for st in ast.walk(fn) if isinstance(st, ast.If) and any(x is ys[0] for b in st.body for x in ast.walk(b))]
        oky = any(ast.unparse(st.test) in ("%s.dom == Ty()" % sent, "not %s.dom" % sent, "Ty() == %s.dom" % sent) for st in encs)
    ctx.ob("R18.3", q + ":yields-closed", oky, found=[ast.unparse(y) for y in ys], required="a sentence is yielded only when its domain is empty", mod=CFGM, node=fn, sig="yields-closed")
    init = [s for s in ast.walk(fn) if isinstance(s, ast.Assign) and ast.unparse(s.targets[0]) == sent and s is not step]
    ctx.ob("R18.3", q + ":starts-from-start", len(init) == 1 and ast.unparse(init[0].value) == "Id(%s)" % start, found=[ast.unparse(s) for s in init],
           required="each derivation starts from Id(start)", mod=CFGM, node=fn, sig="start")


def check_ccg(ctx):
    m = ctx.model
    q = CCG + ".cat2ty"
    fn = m.func(q)
    ctx.analysed(q, CCG + ".tree2diagram")
    table = {}
    for st in fn.body:
        if isinstance(st, ast.If) and isinstance(st.test, ast.Compare) and isinstance(st.test.comparators[0], ast.Constant):
            table[st.test.comparators[0].value] = ret_expr(st.body)
    split = next((s for s in fn.body if isinstance(s, ast.Assign) and isinstance(s.targets[0], ast.Tuple) and len(s.targets[0].elts) == 3), None)
    ctx.need(split is not None, "cat2ty does not split its argument")
    l, _, r = (x.id for x in split.targets[0].elts)
    shape.match(ctx, "R18.4", q + ":backslash", table.get("\\"), "cat2ty(R) >> cat2ty(L)", {l: "L", r: "R"}, mod=CCG, node=fn, sig="backslash",
                required="X\\Y  |->  Y >> X  (argument Y on the left)")
    shape.match(ctx, "R18.4", q + ":slash", table.get("/"), "cat2ty(L) << cat2ty(R)", {l: "L", r: "R"}, mod=CCG, node=fn, sig="slash", required="X/Y  |->  X << Y")
    helpers = {n.name: n for n in fn.body if isinstance(n, ast.FunctionDef)}
    ctx.need({"unbracket", "remove_modifier", "split"} <= set(helpers), "cat2ty helper functions changed: %s" % sorted(helpers))
    sp = helpers["split"]
    sarg = sp.args.args[0].arg
    shape.match(ctx, "R18.4", q + ".split:atomic", sp.body[-1].value if isinstance(sp.body[-1], ast.Return) else None, "(remove_modifier(s), None, None)", {sarg: "s"}, mod=CCG,
                node=sp, sig="split-atomic", required="an atomic category loses its feature [..] (NP[nb] and NP are the same type)")
    ub = helpers["unbracket"]
    shape.match(ctx, "R18.4", q + ".unbracket", ret_expr(ub.body), "s[1:-1] if s[0] == '(' else s", {ub.args.args[0].arg: "s"}, mod=CCG, node=ub, sig="unbracket",
                required="only the outer brackets are removed")
    inner_ret = [r_ for r_ in ast.walk(sp) if isinstance(r_, ast.Return) and r_ is not sp.body[-1]]
    shape.match(ctx, "R18.4", q + ".split:slash", inner_ret[0].value if inner_ret else None, "(unbracket(s[:i]), char, unbracket(s[i + 1:]))", {sarg: "s"}, mod=CCG, node=sp,
                sig="split-slash", required="split at the first top-level slash")
    t2 = m.func(CCG + ".tree2diagram")
    rules = {}
    for st in ast.walk(t2):
        if isinstance(st, ast.If) and isinstance(st.test, ast.Compare) and isinstance(st.test.comparators[0], ast.Constant) and "type" in ast.unparse(st.test.left):
            a = st.body[0]
            if isinstance(a, ast.Assign):
                rules[st.test.comparators[0].value] = a.value
    for k, spec in (("ba", "BA(dom[1:])"), ("fa", "FA(dom[:1])"), ("fc", "FC(dom[:1], dom[1:])")):
        shape.match(ctx, "R18.4", CCG + ".tree2diagram:" + k, rules.get(k), spec, {}, mod=CCG, node=t2, sig="rule-" + k)
    r = ret_expr(t2.body[-1:])
    shape.match(ctx, "R18.4", CCG + ".tree2diagram:assembles", r, "Id(Ty()).tensor(*children) >> box", {}, mod=CCG, node=t2, sig="assembles",
                required="children side by side, then the rule box (checked composition)")
    domv = next((s.value for s in t2.body if isinstance(s, ast.Assign) and ast.unparse(s.targets[0]) == "dom"), None)
    shape.match(ctx, "R18.4", CCG + ".tree2diagram:dom", domv, "Ty().tensor(*[child.cod for child in children])", {}, mod=CCG, node=t2, sig="dom")


def check_translation_functor(ctx):
    """R18.1: biclosed2rigid is the biclosed functor whose object map sends an atom to the rigid type of the same name and whose arrow map sends a box (a word included) to the rigid
    box of the same name typed by the images of its domain and codomain; a word without a domain has the empty type OF ITS OWN KIND as domain"""
    m = ctx.model
    BIC_ = "discopy.biclosed"
    va = m.module_assigns[BIC_]
    shape.match(ctx, "R18.1", BIC_ + ".biclosed2rigid_ob", va.get("biclosed2rigid_ob"), "Functor(ob=lambda x: rigid.Ty(x[0].name), ar={}, ob_factory=rigid.Ty)", {}, mod=BIC_, node=va.get("biclosed2rigid_ob"), sig="b2r-ob",
                required="an atomic type goes to the rigid type of the same name")
    shape.match(ctx, "R18.1", BIC_ + ".biclosed2rigid", va.get("biclosed2rigid"),
                "Functor(ob=biclosed2rigid_ob, ar=lambda f: rigid.Box(f.name, biclosed2rigid_ob(f.dom), biclosed2rigid_ob(f.cod)), ob_factory=rigid.Ty, ar_factory=rigid.Diagram)", {}, mod=BIC_,
                node=va.get("biclosed2rigid"), sig="b2r", required="every box (words included) goes to the rigid box of the same name whose domain and codomain are the images of the box's own")
    wi = m.func("discopy.grammar.cfg.Word.__init__")
    ctx.analysed("discopy.grammar.cfg.Word.__init__")
    dv = next((s.value for s in wi.body if isinstance(s, ast.Assign) and ast.unparse(s.targets[0]) == "dom"), None)
    default = None
    if isinstance(dv, ast.BoolOp) and isinstance(dv.op, ast.Or) and len(dv.values) == 2 and ast.unparse(dv.values[0]) == "dom":
        default = dv.values[1]
    elif isinstance(dv, ast.IfExp) and ast.unparse(dv.test) == "dom is None" and ast.unparse(dv.orelse) == "dom":
        default = dv.body
    ctx.need(default is not None, "cfg.Word.__init__: the default of `dom` is not `dom or <default>`")
    okd = isinstance(default, ast.Subscript) and ast.unparse(default.value) == "cod" and isinstance(default.slice, ast.Slice) and ast.unparse(default) in ("cod[0:0]", "cod[:0]")
    ctx.ob("R18.1", "discopy.grammar.cfg.Word.__init__:default-domain", okd, found=ast.unparse(dv), required="the empty type obtained by slicing the codomain (cod[0:0]): it has the type class of the word — slices of a categorial "
           "type are categorial types, which the translation to rigid diagrams relies on", mod="discopy.grammar.cfg", node=wi, sig="word-default-dom")
    sup = next((c for c in ast.walk(wi) if isinstance(c, ast.Call) and ast.unparse(c.func) == "super().__init__"), None)
    shape.match(ctx, "R18.1", "discopy.grammar.cfg.Word.__init__:box", sup, "super().__init__(name, dom, cod, data=data, _dagger=_dagger)", {}, mod="discopy.grammar.cfg", node=wi, sig="word-box")


def check_box_guards(ctx):
    """R18.5: each biclosed rule box only accepts the slash types whose parts its dom / cod formula reads (grammaticality of a derivation step)"""
    from ..cfg import CFG as FlowGraph
    m = ctx.model
    BIC_ = "discopy.biclosed"
    want = {"FA": {0: "Over"}, "BA": {0: "Under"}, "FC": {0: "Over", 1: "Over"}, "BC": {0: "Under", 1: "Under"}, "FX": {0: "Over", 1: "Under"}, "BX": {0: "Over", 1: "Under"}}
    agree = {"FC": ("right", "left"), "BC": ("right", "left"), "FX": ("right", "right"), "BX": ("left", "left")}
    cu = m.func(BIC_ + ".Curry.__init__")
    sup = next((c for c in ast.walk(cu) if isinstance(c, ast.Call) and ast.unparse(c.func) == "super().__init__"), None)
    ctx.need(sup is not None, "biclosed.Curry.__init__ does not call super().__init__")
    typ = [ast.unparse(a) for a in sup.args[1:3]] + ["%s=%s" % (k.arg, ast.unparse(k.value)) for k in sup.keywords if k.arg in ("dom", "cod")]
    ctx.ob("R18.5", BIC_ + ".Curry.__init__:type", typ in (["dom", "cod"], ["dom=dom", "cod=cod"], ["dom", "cod=cod"]), found=typ, required="the curried box is typed by the dom and cod computed from the diagram, in this order",
           mod=BIC_, node=sup, sig="box-type:Curry")
    shape.match_stmts(ctx, "R18.5", BIC_ + ".Curry.__init__:fields", [s for s in cu.body if isinstance(s, ast.Assign) and isinstance(s.targets[0], (ast.Tuple, ast.Attribute))],
                      ["self.diagram, self.n_wires, self.left = diagram, n_wires, left"], mod=BIC_, node=cu, sig="curry-fields", required="the functor reads .diagram, .n_wires and .left of the box: each keeps its own argument")
    for cname, table in want.items():
        fn = m.func("%s.%s.__init__" % (BIC_, cname))
        ctx.analysed("%s.%s.__init__" % (BIC_, cname))
        params = [a.arg for a in fn.args.args[1:]]
        sup = next((c for c in ast.walk(fn) if isinstance(c, ast.Call) and ast.unparse(c.func) == "super().__init__"), None)
        ctx.need(sup is not None, "biclosed.%s.__init__ does not call super().__init__" % cname)
        typ = [ast.unparse(a) for a in sup.args[1:3]] + ["%s=%s" % (k.arg, ast.unparse(k.value)) for k in sup.keywords if k.arg in ("dom", "cod")]
        ctx.ob("R18.5", "%s.%s.__init__:type" % (BIC_, cname), typ in (["dom", "cod"], ["dom=dom", "cod=cod"], ["dom", "cod=cod"]), found=typ, required="the box is typed by the dom and cod computed from the slash types, "
               "in this order", mod=BIC_, node=sup, sig="box-type:" + cname)
        g = FlowGraph(fn)
        guards = [(st.test, how) for st, lab, how in g.raising_guards_before(sup) if lab == "T"]
        for k, cls in table.items():
            p = params[k]
            hit = [t for t, how in guards if "TypeError" in how and isinstance(t, ast.UnaryOp) and isinstance(t.op, ast.Not) and isinstance(t.operand, ast.Call)
                   and ast.unparse(t.operand.func) == "isinstance" and ast.unparse(t.operand.args[0]) == p]
            ok = len(hit) == 1 and ast.unparse(hit[0].operand.args[1]) == cls
            ctx.ob("R18.5", "%s.%s.__init__:%s" % (BIC_, cname, p), ok, found=[ast.unparse(t) for t in hit] or "no type guard on `%s`" % p, required="`%s` must be an %s type (TypeError otherwise): the box reads its %s parts" % (p, cls, cls),
                   mod=BIC_, node=fn, sig="guard:%s:%s" % (cname, p))
        if cname in agree:
            a, b = agree[cname]
            spec = "%s.%s != %s.%s" % (params[0], a, params[1], b)
            ok = any(shape.key(t) == shape.key(shape.parse(spec)) and "TypeError" in how for t, how in guards)
            ctx.ob("R18.5", "%s.%s.__init__:shared-type" % (BIC_, cname), ok, found=[ast.unparse(t) for t, _ in guards], required="the two slash types must share the middle type: `%s` raises TypeError" % spec, mod=BIC_, node=fn,
                   sig="guard:%s:shared" % cname)


def check_slash_equality(ctx):
    """R18.5: the guards of the rule boxes and the composition of derivations compare slash types with ==: Over / Under are equal exactly when both parts are"""
    m = ctx.model
    for cname in ("Over", "Under"):
        c = m.cls("discopy.biclosed." + cname)
        fn = c.methods.get("__eq__")
        ctx.need(fn is not None, "biclosed.%s has no __eq__" % cname)
        fn = fn[0]
        s_, o_ = fn.args.args[0].arg, fn.args.args[1].arg
        g = CFG(fn)
        rets = [r for r in ast.walk(fn) if isinstance(r, ast.Return)]
        main = [r for r in rets if not (isinstance(r.value, ast.Constant) and r.value.value is False)]
        ctx.need(len(main) == 1, "biclosed.%s.__eq__ has not exactly one comparing return" % cname)
        guarded = any(lab == "T" and shape.key(shape.rename(st.test, {o_: "other"})) == shape.key(shape.parse("not isinstance(other, %s)" % cname)) for st, lab, how in g.raising_guards_before(main[0]))
        ctx.ob("R18.5", "discopy.biclosed.%s.__eq__:kind" % cname, guarded, found=[ast.unparse(st.test) for st, lab, how in g.raising_guards_before(main[0])], required="only another %s type can be equal" % cname,
               mod="discopy.biclosed", node=fn, sig="slash-eq-kind:" + cname)
        shape.match(ctx, "R18.5", "discopy.biclosed.%s.__eq__" % cname, main[0].value, "self.left == other.left and self.right == other.right", {s_: "self", o_: "other"}, mod="discopy.biclosed", node=main[0],
                    sig="slash-eq:" + cname, required="both the result and the argument type are compared, each of self with that of other")
        ctx.ob("R18.5", "discopy.biclosed.%s:hash" % cname, "__hash__" in c.methods, found=sorted(k for k in c.methods if k in ("__eq__", "__hash__")), required="hashable (functor keys)", mod="discopy.biclosed", node=c.node,
               sig="slash-hash:" + cname, trivial=True)


def check(ctx):
    ctx.rule("R18.1", "type preservation: the rigid method called by biclosed.Functor with the arguments it routes has dom/cod equal to the image of the biclosed box's dom/cod, in every emptiness case")
    ctx.rule("R18.2", "eager_parse: words first in order; cups only between adjacent adjoints; the layer's slices partition the scan; returns only under cod == target")
    ctx.rule("R18.3", "CFG.generate: only the grammar's productions, applied only to a matching leftmost symbol; sentences yielded only when closed")
    ctx.rule("R18.4", "cat2ty slash directions; tree2diagram rule table and assembly")
    ctx.attempt(check_translation, ctx)
    ctx.attempt(check_eager_parse, ctx)
    ctx.attempt(check_cfg, ctx)
    ctx.attempt(check_ccg, ctx)
    ctx.rule("R18.5", "the biclosed rule boxes refuse operands that are not slash types of the required direction or do not share their middle type")
    ctx.attempt(check_translation_functor, ctx)
    ctx.attempt(check_box_guards, ctx)
    ctx.attempt(check_slash_equality, ctx)
    ctx.rule("R18.6", "what the front-ends rely on: equality of rigid objects / types (C03), swaps for the crossed compositions (C10)")
    ctx.depend("R18.6", "C03", "parsers return only when cod == target and derivations compose only when types are equal: equality of rigid objects and types is structural (name and winding number)",
               rules={"R03.1", "R03.2"}, constructs=["discopy.rigid.Ob", "discopy.rigid.Ty", "discopy.monoidal.Ty", "discopy.cat.Ob"], mod="discopy.rigid")
    ctx.depend("R18.6", "C10", "crossed compositions are translated with Diagram.swap, also for empty argument types", mod="discopy.monoidal")
    ctx.floor("R18.5", 20)
    ctx.floor("R18.1", 20)
    ctx.floor("R18.2", 7)
    ctx.floor("R18.3", 6)
    ctx.floor("R18.4", 10)
