# demonstration against the real code: the gradient of a Z spider, evaluated with the standard ZX generator arrays through discopy's own tensor functor
import numpy as np, math, sys
sys.argv=['x']; exec(open('/verif/findings/zx_standard_interpretation.py').read().split("for g in")[0])
from sympy.abc import phi
d = zx.Z(1, 1, phi)
f = lambda v: F(d.subs(phi, v)).array
num = (f(0.3 + 1e-6) - f(0.3 - 1e-6)) / 2e-6
g = d.grad(phi).subs(phi, 0.3)
val = sum(F(t).array for t in getattr(g, "terms", [g]))
print("numeric derivative of Z(1,1,phi) at 0.3:", np.round(num, 3).tolist())
print("evaluation of Z(1,1,phi).grad(phi) at 0.3:", np.round(val, 3).tolist())
