import sys; sys.path.insert(0, '/tmp/spike')
from sa import c09, c12
def run(path, muts, fn):
    src = open(path).read()
    for name, (a, b) in muts.items():
        assert a in src, name
        open('/tmp/spike/m.py', 'w').write(src.replace(a, b, 1))
        msgs = []
        try: rc = fn('/tmp/spike/m.py', out=msgs.append)
        except Exception as e: rc = 'EXC %s: %s' % (type(e).__name__, e)
        v = [m for m in msgs if 'VIOLATION' in m or 'ANALYSIS' in m]
        print('%-40s rc=%s n=%d %s' % (name, rc, len(v), (v[0] if v else '')[:200]))
run('/repo/discopy/tensor.py', {
 'box: source misses + left': ("source = list(range(dim(diagram.dom) + left,\n                                dim(diagram.dom) + left + dim(box.dom)))", "source = list(range(dim(diagram.dom),\n                                dim(diagram.dom) + dim(box.dom)))"),
 'box: left = dim(scan[:off + 1])': ("left = dim(scan[:off])", "left = dim(scan[:off + 1])"),
 'box: moves dim(box.dom) axes back': ("source = range(len(array.shape) - dim(box.cod), len(array.shape))", "source = range(len(array.shape) - dim(box.dom), len(array.shape))"),
 'box: target without left': ("target = range(dim(diagram.dom) + left,\n                           dim(diagram.dom) + left + dim(box.cod))", "target = range(dim(diagram.dom),\n                           dim(diagram.dom) + dim(box.cod))"),
 'box: scan splice with box.dom': ("            array = Tensor.np.moveaxis(array, list(source), list(target))\n            scan = scan[:off] @ box.cod @ scan[off + len(box.dom):]\n        return", "            array = Tensor.np.moveaxis(array, list(source), list(target))\n            scan = scan[:off] @ box.dom @ scan[off + len(box.dom):]\n        return"),
 'swap: left/right exchanged': ("i + dim(box.right)\n                    if i < dim(diagram.dom @ scan[:off]) + dim(box.left)\n                    else i - dim(box.left) for i in source]", "i + dim(box.left)\n                    if i < dim(diagram.dom @ scan[:off]) + dim(box.right)\n                    else i - dim(box.right) for i in source]"),
 'swap: source starts at scan[:off] only': ("source = range(\n                    dim(diagram.dom @ scan[:off]),", "source = range(\n                    dim(scan[:off]),"),
 'swap: scan not swapped': ("                array = Tensor.np.moveaxis(array, list(source), list(target))\n                scan = scan[:off] @ box.cod @ scan[off + len(box.dom):]\n                continue", "                array = Tensor.np.moveaxis(array, list(source), list(target))\n                scan = scan[:off] @ box.dom @ scan[off + len(box.dom):]\n                continue"),
 'exit: dom/cod swapped': ("return Tensor(self(diagram.dom), self(diagram.cod), array)", "return Tensor(self(diagram.cod), self(diagram.dom), array)"),
 'init: id on cod': ("scan, array = diagram.dom, Tensor.id(self(diagram.dom)).array", "scan, array = diagram.dom, Tensor.id(self(diagram.cod)).array"),
 'BENIGN: left inlined': ("target = list(range(dim(box.dom)))", "n_in = dim(box.dom)\n            target = list(range(n_in))"),
}, c09.check)
run('/repo/discopy/quantum/cqmap.py', {
 'above: swap arguments exchanged': ("@ Diagram.swap(g.dom[1:2], f.dom[2:]) @ Diagram.id(g.dom[2:])", "@ Diagram.swap(f.dom[2:], g.dom[1:2]) @ Diagram.id(g.dom[2:])"),
 'above: second layer swaps g.dom[:1] with f.dom[1:2]': (">> Diagram.id(f.dom[:1]) @ Diagram.swap(g.dom[:1], f.dom[1:])", ">> Diagram.id(f.dom[:1]) @ Diagram.swap(g.dom[:1], f.dom[1:2]) @ Diagram.id(f.dom[2:])"),
 'below: f.cod[2:] <-> g.cod[1:2] order': ("@ Diagram.swap(f.cod[2:], g.cod[1:2]) @ Diagram.id(g.cod[2:])", "@ Diagram.swap(g.cod[1:2], f.cod[2:]) @ Diagram.id(g.cod[2:])"),
}, c12.check)
