"""Prototype R01.2: the scanning constructor monoidal.Diagram.__init__ establishes RI3 (|left| == offset) on every path."""
import ast, sys
from .lin import Lin, Facts
from .words import Seq, Seg, Atom, Unlocatable
from .beval import Evaluator, Obj, Box, Layer, Arrow, Closure, Unsupported, Undecided, assume, layer_dom
from .c10 import find_method


def check(path="/repo/discopy/monoidal.py", out=print):
    fn = find_method(path, "Diagram", "__init__")
    scan_if = next((s for s in fn.body if isinstance(s, ast.If) and "layers is None" in ast.unparse(s.test)), None)
    if scan_if is None:
        out("ANALYSIS-ERROR: no `if layers is None:` scanning branch in Diagram.__init__"); return 2
    loop = next(s for s in scan_if.body if isinstance(s, ast.For))
    fails = []
    for first in (True, False):
        ROW, DOMB = Atom("row"), Atom("box.dom")
        off = Lin.var("off")
        ev = Evaluator(Facts(free=["off"]), "monoidal.Diagram.__init__")
        ev.classes.update(Layer=Closure(Layer), **{"cat.Id": Closure(lambda t: Arrow(t, t, Seq()))})
        ev.builtins["isinstance"] = lambda v, c: True
        box = Box("box", Seq.atom(DOMB), Seq.atom(Atom("box.cod")))
        row = Seq.atom(ROW)
        layers = Arrow(row, row, Seq()) if first else Arrow(Seq.atom(Atom("dom")), row, Seq.atom(Atom("layers", Lin.var("k") + 1)))
        env = {"dom": row if first else Seq.atom(Atom("dom")), "layers": layers, "Diagram": "Diagram", "int": "int"}
        ev.bind(loop.target, (box, off), env)
        tag = "first iteration" if first else "later iteration"
        try:
            for st in loop.body:
                if isinstance(st, ast.If) and any(isinstance(s, ast.Raise) for s in st.body) and not st.orelse:
                    try:
                        if ev.truth(ev.ev(st.test, env), st.test):
                            raise Unsupported("guard always raises")
                    except Undecided:
                        assume(ev, st.test, False, env)          # fall-through path: the guard's test is false
                    continue
                ev.run([st], env)
            new = env["layers"].f["boxes"].parts[-1].value
            if not ev.facts.eq(new.f["left"].length, off):
                fails.append("R01.2 %s: |left| = %r is not provably the offset %r" % (tag, new.f["left"].length, off))
        except Unlocatable as e:
            fails.append("R01.2 %s: offsets outside [0, len(row) - len(box.dom)] are not refused before slicing: %s" % (tag, e))
        except (Unsupported, Undecided) as e:
            out("ANALYSIS-ERROR: %s: %s" % (type(e).__name__, e)); return 2
    for f in fails:
        out("VIOLATION-CANDIDATE " + f)
    if not fails:
        out("  R01.2 ok: on the non-raising path 0 <= off <= |row| - |box.dom|, hence |left| = off; composition is checked by >>")
    return 1 if fails else 0


if __name__ == "__main__":
    sys.exit(check(*sys.argv[1:2]))
