"""C20 — the drawing layout is a faithful planar embedding (R20.1–R20.8; engines A, B (linear forms over reals), F, shape)."""
import ast
from fractions import Fraction
from ..lin import Lin, Facts
from ..words import Seq, Atom, Unlocatable
from ..core import AnalysisError
from ..beval import Unsupported
from .. import shape
from .c07 import inner
from .c01 import own_nodes

EXPLANATION = (
    "drawing.diagram2nx, nx2diagram, diagramize and the back-end classes are analysed from source. Decided: (R20.1) the census of nodes — one "
    "input / output per wire of dom / cod, one box node per layer, one dom / cod node per port, keyed so that they are distinct; (R20.2) the edges "
    "scan[off+i] → dom_i → box → cod_i and scan[i] → output_i, and the splice of `scan` (the removed segment is exactly [off, off+|dom|), the "
    "inserted nodes are the cod nodes in order); (R20.3) every shift of make_space is a translation of a half-plane {x ≤ limit} / {x ≥ limit} "
    "of ALL nodes by a pad that equals the overlap the guard tests (monotone, so order and verticality are kept) and leaves the limiting wire "
    "exactly half_width away; (R20.4) the formulas: half_width, x_pos as a convex combination of the extreme dom wires / strictly between the "
    "neighbours / half_width outside the row, cod wires centred on x_pos with unit spacing and margin half_width − spread ≥ 1, dom and output "
    "nodes vertically below their wire, inputs at 0, 1, 2, …; (R20.5) all sites that construct a dom / cod / input / output node (layout, "
    "scaling, box drawing, quantum drawings, diagramize) use the same key fields; (R20.6) both back-ends override every drawing primitive of "
    "the abstract Backend with compatible signatures; (R20.7) along every kind of edge the height strictly decreases; (R20.8) diagramize: "
    "apply writes the edges nx2diagram reads, a missing offset is normalised before arithmetic, the diagram is rebuilt by whiskering at the "
    "recovered offset with the same splice. Not decided: the rendered picture (matplotlib / TikZ output), bubbles' inner wires, diagramize on "
    "non-planar uses.")

DR, QDR = "discopy.drawing", "discopy.quantum.drawing"


class Case:
    """one combination of: box.dom empty / not, box.cod empty / not, off == 0, off == len(scan), a right neighbour exists"""
    def __init__(self, **kw):
        self.__dict__.update(kw)

    def __repr__(self):
        return ",".join("%s=%s" % kv for kv in sorted(self.__dict__.items()))


class RealEv:
    """evaluates the arithmetic of make_space / add_box as linear forms over the reals; x[k] is the abscissa of scan[k]"""
    def __init__(self, case, names):
        self.case, self.n = case, names       # names: scan, box, off, pos
        self.d = Lin.of(0) if case.d0 else Lin.var("|dom|")
        self.c = Lin.of(0) if case.n0 else Lin.var("|cod|")
        self.off = Lin.of(0) if case.off0 else Lin.var("off")
        self.L = Lin.var("|scan|")

    def length(self, e):
        s = ast.unparse(e)
        if s == self.n["box"] + ".dom":
            return self.d
        if s == self.n["box"] + ".cod":
            return self.c
        if s == self.n["scan"]:
            return self.L
        if s == "diagram":
            return Lin.var("|diagram|")
        if isinstance(e, ast.Subscript) and isinstance(e.slice, ast.Slice) and e.slice.step is None:
            base = self.length(e.value)
            lo, hi = e.slice.lower, e.slice.upper
            empty = base == Lin.of(0)
            lo_v = self.ev(lo) if lo is not None else Lin.of(0)
            hi_v = self.ev(hi) if hi is not None else None
            if lo is not None and not (lo_v.is_const() and lo_v.c >= 0):
                raise Unsupported("slice bound %s" % ast.unparse(lo))
            if hi_v is not None and not (hi_v.is_const() and hi_v.c < 0):
                raise Unsupported("slice bound %s" % ast.unparse(hi))
            if empty:
                return Lin.of(0)
            cut = lo_v.c + (-hi_v.c if hi_v is not None else 0)
            if cut > 1:
                raise Unsupported("slice removes more than one element: %s" % ast.unparse(e))
            return base - cut            # base >= 1 in this case
        raise Unsupported("len(%s)" % s)

    def index_of(self, e):
        """the scan index denoted by e (supports the negative index -1)"""
        v = self.ev(e)
        if v.is_const() and v.c < 0:
            return self.L + v
        return v

    def ev(self, e):
        if isinstance(e, ast.Constant) and isinstance(e.value, (int, float)) and not isinstance(e.value, bool):
            return Lin.of(Fraction(e.value).limit_denominator(1 << 16))
        if isinstance(e, ast.Name):
            if e.id == self.n["off"]:
                return self.off
            if e.id in self.env:
                return self.env[e.id]
            raise Unsupported("name %s" % e.id)
        if isinstance(e, ast.UnaryOp) and isinstance(e.op, ast.USub):
            return -self.ev(e.operand)
        if isinstance(e, ast.BinOp):
            l, r = self.ev(e.left), self.ev(e.right)
            try:
                if isinstance(e.op, ast.Add):
                    return l + r
                if isinstance(e.op, ast.Sub):
                    return l - r
                if isinstance(e.op, ast.Mult):
                    return l * r
                if isinstance(e.op, ast.Div):
                    return l / r
            except TypeError as x:
                raise Unsupported(str(x))
            raise Unsupported(ast.unparse(e))
        if isinstance(e, ast.Call) and ast.unparse(e.func) == "len" and len(e.args) == 1:
            return self.length(e.args[0])
        if isinstance(e, ast.Subscript) and ast.unparse(e.value) == self.n["scan"] and not isinstance(e.slice, ast.Slice):
            return ("node", self.index_of(e.slice))          # an entry of the row, kept symbolic
        if isinstance(e, ast.Subscript) and isinstance(e.slice, ast.Constant) and e.slice.value in (0, 1):
            inner_ = e.value                  # pos[NODE][0] / position[0]
            if isinstance(inner_, ast.Subscript) and ast.unparse(inner_.value) == self.n["pos"]:
                node = inner_.slice
                if isinstance(node, ast.Name) and isinstance(self.env.get(node.id), tuple) and self.env[node.id][0] == "node":
                    return Lin.var("%s[%r]" % ("xy"[e.slice.value], self.env[node.id][1]))
                if isinstance(node, ast.Subscript) and ast.unparse(node.value) == self.n["scan"]:
                    k = self.index_of(node.slice)
                    return Lin.var("%s[%r]" % ("xy"[e.slice.value], k))
                if isinstance(node, ast.Name):
                    return Lin.var("%s(%s)" % ("xy"[e.slice.value], node.id))
            if isinstance(inner_, ast.Name):
                return Lin.var("%s(%s)" % ("xy"[e.slice.value], inner_.id))
        raise Unsupported("expression %s" % ast.unparse(e)[:60])

    env = {}


def x_at(k):
    return Lin.var("x[%r]" % (Lin.of(k),))


def truth(test, ev):
    """decides the structural tests of make_space under a case; None when the test is an overlap comparison"""
    c, n = ev.case, ev.n
    if isinstance(test, ast.UnaryOp) and isinstance(test.op, ast.Not):
        t = truth(test.operand, ev)
        return None if t is None else not t
    s = ast.unparse(test)
    if s == n["scan"]:
        return True
    if s == n["box"] + ".dom":
        return not c.d0
    if s == n["box"] + ".cod":
        return not c.n0
    if s == n["off"]:
        return not c.off0
    if isinstance(test, ast.Compare) and len(test.ops) == 1:
        try:
            l, r = ev.ev(test.left), ev.ev(test.comparators[0])
        except Unsupported:
            return None
        d = l - r
        if set(d.t) <= {"off", "|scan|", "|dom|"} and not any(v.startswith("x[") for v in d.t):
            if isinstance(test.ops[0], ast.Eq) and d == ev.off - ev.L:
                return c.offend
            if isinstance(test.ops[0], ast.Eq) and d == ev.L - ev.off:
                return c.offend
            if isinstance(test.ops[0], ast.Eq) and d == ev.d - ev.c:
                return getattr(c, "same_arity", None)
            if isinstance(test.ops[0], ast.Eq) and d == ev.c - ev.d:
                return getattr(c, "same_arity", None)
    return None


def const_ge(lin, bound):
    return lin.is_const() and lin.c >= bound


def convex(lin, allowed, strict=False):
    if lin.c != 0 or not set(lin.t) <= set(allowed) or sum(lin.t.values()) != 1:
        return False
    return all((v > 0) if strict else (v >= 0) for v in lin.t.values()) and (not strict or set(lin.t) == set(allowed))


def check_make_space(ctx, top):
    ms = inner(ctx, top, "make_space")
    ab = inner(ctx, top, "add_box")
    ctx.analysed(DR + ".diagram2nx.make_space", DR + ".diagram2nx.add_box")
    names = {"scan": ms.args.args[0].arg, "box": ms.args.args[1].arg, "off": ms.args.args[2].arg, "pos": "pos"}
    first = next((s for s in ms.body if not (isinstance(s, ast.Expr) and isinstance(s.value, ast.Constant))), None)
    ok = isinstance(first, ast.If) and ast.unparse(first.test) == "not " + names["scan"] and isinstance(first.body[-1], ast.Return)
    ctx.ob("R20.4", DR + ".make_space:empty-row", ok, found=ast.unparse(first)[:60] if first else None, required="with no open wire there is nothing to make space against: any abscissa", mod=DR, node=ms, sig="empty-row")
    cases = []
    for n0 in (False, True):
        cases.append(("dom>=1", Case(d0=False, n0=n0, off0=False, offend=False)))
        cases.append(("dom>=1,off=0", Case(d0=False, n0=n0, off0=True, offend=False)))
        cases.append(("dom=0,off=0", Case(d0=True, n0=n0, off0=True, offend=False)))
        cases.append(("dom=0,off=|scan|", Case(d0=True, n0=n0, off0=False, offend=True)))
        cases.append(("dom=0,middle", Case(d0=True, n0=n0, off0=False, offend=False)))
    shifts_seen = 0
    for label, case in cases:
        tag = "%s,cod%s" % (label, "=0" if case.n0 else ">=1")
        ev = RealEv(case, names)
        ev.env = {}
        shifts = []

        def block(body):
            for st in body:
                if isinstance(st, ast.Expr) and isinstance(st.value, ast.Constant):
                    continue
                if isinstance(st, ast.Assign) and len(st.targets) == 1 and isinstance(st.targets[0], ast.Name):
                    ev.env[st.targets[0].id] = ev.ev(st.value)
                elif isinstance(st, ast.If):
                    if any(isinstance(x, ast.For) for x in st.body):
                        shifts.append(st)
                        continue
                    t = truth(st.test, ev)
                    if t is None:
                        raise Unsupported("test %s" % ast.unparse(st.test))
                    r = block(st.body if t else st.orelse)
                    if r is not None:
                        return r
                elif isinstance(st, ast.Return):
                    return ev.ev(st.value)
                else:
                    raise Unsupported("statement %s" % ast.unparse(st)[:50])
            return None
        try:
            x_pos = block(ms.body)
            ret_name = next((ast.unparse(s.value) for s in ms.body if isinstance(s, ast.Return)), None)
            hw_name = None
            half = None
            for k, v in ev.env.items():
                if set(v.t) <= {"|cod|"} and k != ret_name:
                    hw_name, half = k, v
            ctx.need(half is not None and x_pos is not None, "make_space: half width / x_pos not found")
            want_half = Lin.of(1) if case.n0 else (ev.c - 1) / 2 + 1
            ctx.ob("R20.4", "%s.make_space:half_width[%s]" % (DR, tag), half == want_half, found="%r" % (half,), required="%r (half the spread of the cod wires, plus one)" % (want_half,), mod=DR, node=ms,
                   sig="half-width:" + tag, trivial=True)
            # x_pos
            if not case.d0:
                okx = convex(x_pos, ["x[%r]" % (ev.off,), "x[%r]" % (ev.off + ev.d - 1,)])
                req = "a convex combination of the first and last dom wires x[off], x[off+|dom|-1]"
            elif case.off0:
                okx = const_ge(x_at(0) - (x_pos + half), 0)
                req = "at least half_width to the left of the first wire"
            elif case.offend:
                okx = const_ge((x_pos - half) - x_at(ev.L - 1), 0)
                req = "at least half_width to the right of the last wire"
            else:
                okx = convex(x_pos, ["x[%r]" % (ev.off - 1,), "x[%r]" % (ev.off,)], strict=True)
                req = "strictly between the neighbouring wires x[off-1], x[off]"
            ctx.ob("R20.4", "%s.make_space:x_pos[%s]" % (DR, tag), okx, found="%r" % (x_pos,), required=req, mod=DR, node=ms, sig="x-pos:" + tag)
            # shifts
            for st in shifts:
                conj = st.test.values if isinstance(st.test, ast.BoolOp) and isinstance(st.test.op, ast.And) else [st.test]
                cmp_ = conj[-1]
                if not (isinstance(cmp_, ast.Compare) and len(cmp_.ops) == 1):
                    raise Unsupported("shift guard %s" % ast.unparse(st.test))
                l, r = ev.ev(cmp_.left), ev.ev(cmp_.comparators[0])
                op = type(cmp_.ops[0])
                if op in (ast.Gt, ast.GtE):
                    overlap = l - r
                elif op in (ast.Lt, ast.LtE):
                    overlap = r - l
                else:
                    raise Unsupported("shift guard %s" % ast.unparse(cmp_))
                exists = list(conj[:-1])
                if len(exists) != 1:
                    raise Unsupported("shift guard %s" % ast.unparse(st.test))
                if ast.unparse(exists[0]) in (names["off"], names["off"] + " > 0", names["off"] + " >= 1"):
                    side, ex_ok = "left", True
                elif isinstance(exists[0], ast.Compare) and len(exists[0].ops) == 1 and isinstance(exists[0].ops[0], (ast.Lt, ast.Gt)):
                    a_, b_ = ev.ev(exists[0].left), ev.ev(exists[0].comparators[0])
                    gap = (b_ - a_) if isinstance(exists[0].ops[0], ast.Lt) else (a_ - b_)
                    side, ex_ok = "right", gap == ev.L - ev.off - ev.d
                else:
                    raise Unsupported("existence test %s" % ast.unparse(exists[0]))
                if side == "left":
                    limit_want = x_at(ev.off - 1)
                    want_lin = limit_want - (x_pos - half)
                else:
                    limit_want = x_at(ev.off + ev.d)
                    want_lin = (x_pos + half) - limit_want
                if side == "right" and case.offend:
                    ctx.ob("R20.3", "%s.make_space:%s-neighbour[%s]" % (DR, side, tag), ex_ok, found=[ast.unparse(c) for c in exists], required="no right neighbour at off = len(scan): the shift is skipped", mod=DR, node=st,
                           sig="neighbour:%s:%s" % (side, tag), trivial=True)
                    continue
                if side == "left" and case.off0:
                    ctx.ob("R20.3", "%s.make_space:%s-neighbour[%s]" % (DR, side, tag), ex_ok, found=[ast.unparse(c) for c in exists], required="no left neighbour at off = 0: the shift is skipped", mod=DR, node=st,
                           sig="neighbour:%s:%s" % (side, tag), trivial=True)
                    continue
                shifts_seen += 1
                sub = RealEv(case, names)
                sub.env = dict(ev.env)
                assigns = {s.targets[0].id: s.value for s in st.body if isinstance(s, ast.Assign) and isinstance(s.targets[0], ast.Name)}
                for k, v in assigns.items():
                    sub.env[k] = sub.ev(v)
                loop = next(s for s in st.body if isinstance(s, ast.For))
                problems = []
                if not ex_ok:
                    problems.append("existence test %s" % [ast.unparse(c) for c in exists])
                if overlap != want_lin:
                    problems.append("the guard tests %r, the overlap is %r" % (overlap, want_lin))
                # loop: for node, position in pos.items(): if position[0] <= limit: pos[node] = (pos[node][0] - pad, pos[node][1])
                if not (ast.unparse(loop.iter) == "pos.items()" and isinstance(loop.target, ast.Tuple) and len(loop.target.elts) == 2 and len(loop.body) == 1 and isinstance(loop.body[0], ast.If)
                        and not loop.body[0].orelse and len(loop.body[0].body) == 1 and isinstance(loop.body[0].body[0], ast.Assign)):
                    raise Unsupported("shift loop %s" % ast.unparse(loop)[:80])
                nodev, posv = (t.id for t in loop.target.elts)
                cond, upd = loop.body[0].test, loop.body[0].body[0]
                if not (isinstance(cond, ast.Compare) and len(cond.ops) == 1):
                    raise Unsupported("shift predicate %s" % ast.unparse(cond))
                cl, cr = sub.ev(cond.left), sub.ev(cond.comparators[0])
                xn = Lin.var("x(%s)" % posv)
                cop = type(cond.ops[0])
                if cl == xn:
                    lim, rel = cr, cop
                elif cr == xn:
                    lim, rel = cl, {ast.Lt: ast.Gt, ast.LtE: ast.GtE, ast.Gt: ast.Lt, ast.GtE: ast.LtE}.get(cop)
                else:
                    lim, rel = None, None
                    problems.append("the shift predicate `%s` does not compare the node's abscissa" % ast.unparse(cond))
                bound_e = cond.comparators[0] if cl == xn else cond.left
                if any(isinstance(x, ast.Name) and x.id == "pos" for x in ast.walk(bound_e)):
                    problems.append("the bound `%s` is re-read from `pos` while the loop updates it: nodes visited after the limiting wire are compared with its new abscissa" % ast.unparse(bound_e))
                if lim is not None:
                    if lim != limit_want:
                        problems.append("the half-plane is bounded by %r, the limiting wire is %r" % (lim, limit_want))
                    if rel is not (ast.LtE if side == "left" else ast.GtE):
                        problems.append("the half-plane `%s` must contain the limiting wire itself and everything %s of it" % (ast.unparse(cond), side))
                if not (isinstance(upd.targets[0], ast.Subscript) and ast.unparse(upd.targets[0]) == "pos[%s]" % nodev and isinstance(upd.value, ast.Tuple) and len(upd.value.elts) == 2):
                    raise Unsupported("shift update %s" % ast.unparse(upd))
                sub.env[nodev] = None
                try:
                    nx_, ny_ = sub.ev(upd.value.elts[0]), sub.ev(upd.value.elts[1])
                except Unsupported:
                    nx_ = ny_ = None
                pad = None
                if nx_ is not None:
                    pad = (Lin.var("x(%s)" % nodev) - nx_) if side == "left" else (nx_ - Lin.var("x(%s)" % nodev))
                    if ny_ != Lin.var("y(%s)" % nodev):
                        problems.append("the shift changes the height of the node")
                    if pad != want_lin:
                        problems.append("nodes are moved by %r; the overlap to clear is %r (the limiting wire must end exactly half_width from the box)" % (pad, want_lin))
                else:
                    problems.append("update `%s` is not a translation of the node" % ast.unparse(upd))
                ctx.ob("R20.3", "%s.make_space:%s-shift[%s]" % (DR, side, tag), not problems, found="; ".join(problems) or "half-plane x %s %r moved by %r" % ("<=" if side == "left" else ">=", limit_want, want_lin),
                       required="if the %s neighbour is closer than half_width, every node on its side (the neighbour included) is translated by exactly the overlap" % side, mod=DR, node=st,
                       sig="shift:%s:%s:%s" % (side, tag, ";".join(p.split(",")[0][:30] for p in problems)))
        except Unsupported as e:
            raise AnalysisError("make_space outside the recognised idioms [%s]: %s" % (tag, e))
    ctx.need(shifts_seen >= 12, "fewer than 12 shift instances analysed (%d)" % shifts_seen)
    return names, ab


def node_calls(fn):
    return [c for c in ast.walk(fn) if isinstance(c, ast.Call) and ast.unparse(c.func) == "Node" and c.args and isinstance(c.args[0], ast.Constant)]


def check_add_box(ctx, top, names, ab):
    """R20.1 / R20.2 / R20.4 (spread) / R20.7 (heights) on add_box and the three loops of diagram2nx"""
    scan, box, off, depth, x_pos = (a.arg for a in ab.args.args[:5])
    heights = {}

    def lin_y(e, depthv="depth"):
        """height expression as a linear form in L = len(diagram) and depth"""
        if isinstance(e, ast.BoolOp) and isinstance(e.op, ast.Or) and len(e.values) == 2 and ast.unparse(e.values[0]) == "len(diagram)":
            return ("or", lin_y(e.values[1]))
        if isinstance(e, ast.Constant) and isinstance(e.value, (int, float)):
            return Lin.of(Fraction(e.value).limit_denominator(1 << 16))
        if isinstance(e, ast.Name) and e.id == depthv:
            return Lin.var("depth")
        if isinstance(e, ast.Call) and ast.unparse(e) == "len(diagram)":
            return Lin.var("L")
        if isinstance(e, ast.BinOp) and isinstance(e.op, (ast.Add, ast.Sub)):
            l, r = lin_y(e.left, depthv), lin_y(e.right, depthv)
            return l + r if isinstance(e.op, ast.Add) else l - r
        raise Unsupported("height %s" % ast.unparse(e))

    def add_node_calls(body):
        out = []
        for st in body:
            for c in ast.walk(st):
                if isinstance(c, ast.Call) and ast.unparse(c.func) == "add_node" and len(c.args) == 2:
                    out.append((shape.inline(c.args[0], body), shape.inline(c.args[1], body), c))
        return out

    def edge_calls(body):
        out = []
        for st in body:
            for c in ast.walk(st):
                if isinstance(c, ast.Call) and ast.unparse(c.func) == "graph.add_edge" and len(c.args) == 2:
                    out.append((shape.inline(c.args[0], body), shape.inline(c.args[1], body), c, st))
        return out

    # --- the box node
    top_nodes = add_node_calls([s for s in ab.body if not isinstance(s, (ast.For, ast.If))])
    bx = [t for t in top_nodes if ast.unparse(t[0]).startswith("Node('box'")]
    ctx.need(len(bx) == 1, "add_box does not add exactly one box node")
    shape.match(ctx, "R20.1", DR + ".add_box:box-node", bx[0][0], "Node('box', box=box, depth=depth)", {box: "box", depth: "depth"}, mod=DR, node=bx[0][2], sig="box-node",
                required="one box node per layer, keyed by the box and its depth (equal boxes at different depths are different nodes)")
    pos_t = bx[0][1]
    ctx.need(isinstance(pos_t, ast.Tuple) and len(pos_t.elts) == 2, "box position is not a pair")
    ctx.ob("R20.4", DR + ".add_box:box-x", ast.unparse(pos_t.elts[0]) == x_pos, found=ast.unparse(pos_t.elts[0]), required="the box sits at x_pos, the abscissa make_space cleared", mod=DR, node=bx[0][2], sig="box-x")
    heights["box"] = lin_y(pos_t.elts[1], depth)
    # --- dom loop / cod loop
    loops = [s for s in ab.body if isinstance(s, ast.For)]
    dom_loop = next((l for l in loops if ast.unparse(l.iter) == "enumerate(%s.dom)" % box), None)
    cod_loop = next((l for l in loops if ast.unparse(l.iter) == "enumerate(%s.cod)" % box), None)
    ctx.need(dom_loop is not None and cod_loop is not None, "add_box has no loop over enumerate(box.dom) / enumerate(box.cod)")
    for kind, lp in (("dom", dom_loop), ("cod", cod_loop)):
        iv, ov = (t.id for t in lp.target.elts)
        nm = {box: "box", depth: "depth", iv: "i", ov: "obj", scan: "scan", off: "off", x_pos: "x_pos"}
        nodes = add_node_calls(lp.body)
        ctx.need(len(nodes) == 1, "the %s loop of add_box does not add exactly one node per port" % kind)
        shape.match(ctx, "R20.1", "%s.add_box:%s-node" % (DR, kind), nodes[0][0], "Node('%s', obj=obj, i=i, depth=depth)" % kind, nm, mod=DR, node=nodes[0][2], sig=kind + "-node",
                    required="one %s node per port of the box, keyed by (object, index, depth)" % kind)
        p = nodes[0][1]
        ctx.need(isinstance(p, ast.Tuple) and len(p.elts) == 2, "%s position is not a pair" % kind)
        heights[kind] = lin_y(p.elts[1], depth)
        if kind == "dom":
            evd = RealEv(Case(d0=False, n0=False, off0=False, offend=False), {"scan": scan, "box": box, "off": off, "pos": "pos"})
            evd.env = {iv: Lin.var("i")}
            try:
                xd = evd.ev(p.elts[0])
            except Unsupported as e:
                raise AnalysisError("add_box: abscissa of a dom node outside the recognised idioms: %s" % e)
            ctx.ob("R20.4", DR + ".add_box:dom-x", xd == x_at(Lin.var("off") + Lin.var("i")), found="%r" % (xd,), required="x[off + i]: a dom node is vertically below the open wire it continues", mod=DR, node=nodes[0][2],
                   sig="dom-x")
        else:
            x = p.elts[0]
            ok = isinstance(x, ast.IfExp)
            ctx.need(ok, "the abscissa of a cod node is not `<same arity: above wire> if ... else <spread>`")
            same = shape.key(shape.rename(x.test, nm)) == shape.key(shape.parse("len(box.dom) == len(box.cod)"))
            ctx.ob("R20.4", DR + ".add_box:cod-x:test", same, found=ast.unparse(x.test), required="the cod wires continue the dom wires vertically exactly when the box has as many outputs as inputs", mod=DR, node=nodes[0][2],
                   sig="cod-x-test")
            shape.match(ctx, "R20.4", DR + ".add_box:cod-x:vertical", x.body, "pos[scan[off + i]][0]", nm, mod=DR, node=nodes[0][2], sig="cod-x-vertical", required="same abscissa as the dom wire above")
            # spread: x_pos - |cod[1:]|/2 + i
            for n0 in (False,):
                ev = RealEv(Case(d0=False, n0=n0, off0=False, offend=False), {"scan": scan, "box": box, "off": off, "pos": "pos"})
                ev.env = {x_pos: Lin.var("x_pos"), iv: Lin.var("i")}
                try:
                    sp = ev.ev(x.orelse)
                except Unsupported as e:
                    raise AnalysisError("add_box: spread formula outside the recognised idioms: %s" % e)
                step = sp.t.get("i", 0)
                first = sp - Lin.var("i") * step
                last = first + (ev.c - 1) * step
                S_left, S_right = Lin.var("x_pos") - first, last - Lin.var("x_pos")
                half = (ev.c - 1) / 2 + 1
                probs = []
                if step != 1:
                    probs.append("consecutive cod wires are %s apart (must be 1: the unit the paddings are computed in)" % step)
                if S_left != S_right:
                    probs.append("not centred on x_pos: %r to the left, %r to the right" % (S_left, S_right))
                if not (const_ge(half - S_left, 1) and const_ge(half - S_right, 1)):
                    probs.append("margin half_width - spread = %r / %r is not >= 1" % (half - S_left, half - S_right))
                ctx.ob("R20.4", DR + ".add_box:cod-x:spread", not probs, found="; ".join(probs) or "x_pos - (|cod|-1)/2 + i", required="cod wires one unit apart, centred on x_pos, at least 1 inside the cleared half width",
                       mod=DR, node=nodes[0][2], sig="cod-spread")
        # edges
        edges = edge_calls(lp.body)
        want = [("scan[off + i]", "Node('dom', obj=obj, i=i, depth=depth)", False), ("Node('dom', obj=obj, i=i, depth=depth)", "Node('box', box=box, depth=depth)", True)] if kind == "dom" \
            else [("Node('box', box=box, depth=depth)", "Node('cod', obj=obj, i=i, depth=depth)", True)]
        ctx.need(len(edges) == len(want), "the %s loop of add_box adds %d edges, %d recognised" % (kind, len(edges), len(want)))
        for (a, b, c, st), (wa, wb, guarded) in zip(edges, want):
            a2 = shape.inline(a, ab.body)
            b2 = shape.inline(b, ab.body)
            okk = shape.key(shape.rename(a2, nm)) == shape.key(shape.parse(wa)) and shape.key(shape.rename(b2, nm)) == shape.key(shape.parse(wb))
            enclosing = next((s for s in lp.body if isinstance(s, ast.If) and any(x is c for x in ast.walk(s))), None)
            if enclosing is not None:
                okk = okk and guarded and ast.unparse(enclosing.test).startswith("not bubble")
            ctx.ob("R20.2", "%s.add_box:%s-edge[%s -> %s]" % (DR, kind, wa.split("(")[0], wb.split("(")[0]), okk, found="%s -> %s%s" % (ast.unparse(a2), ast.unparse(b2), " if " + ast.unparse(enclosing.test) if enclosing is not None else ""),
                   required="%s -> %s%s" % (wa, wb, " (for boxes that are not bubble markers)" if guarded else ""), mod=DR, node=c, sig="%s-edge:%s" % (kind, wa[:8]))
    # --- splice
    ret = [s for s in ab.body if isinstance(s, ast.Return)]
    ctx.need(len(ret) == 1, "add_box has not exactly one return")
    r = ret[0].value
    parts = []

    def flat(e):
        if isinstance(e, ast.BinOp) and isinstance(e.op, ast.Add):
            flat(e.left)
            flat(e.right)
        else:
            parts.append(e)
    flat(r)
    probs = []
    if len(parts) != 3:
        probs.append("not prefix + new nodes + suffix")
    else:
        S = Atom("scan")
        d, o = Lin.var("|dom|"), Lin.var("off")
        facts = Facts([S.length - o - d])
        full = Seq.atom(S)

        def idx(e):
            if e is None:
                return None
            ev = RealEv(Case(d0=False, n0=False, off0=False, offend=False), {"scan": scan, "box": box, "off": off, "pos": "pos"})
            ev.env = {}
            return ev.ev(e)
        try:
            for which, e, lo_w, hi_w in (("prefix", parts[0], Lin.of(0), o), ("suffix", parts[2], o + d, None)):
                if not (isinstance(e, ast.Subscript) and isinstance(e.slice, ast.Slice) and ast.unparse(e.value) == scan and e.slice.step is None):
                    probs.append("%s `%s` is not a slice of scan" % (which, ast.unparse(e)))
                    continue
                got = full.slice(idx(e.slice.lower), idx(e.slice.upper), facts)
                wantseq = full.slice(lo_w, hi_w, facts)
                if not got.same(wantseq, facts):
                    probs.append("%s is %r, must be %r" % (which, got, wantseq))
        except Unlocatable as e:
            probs.append(str(e))
        except Unsupported as e:
            raise AnalysisError("add_box splice outside the recognised idioms: %s" % e)
        mid = parts[1]
        if not (isinstance(mid, ast.ListComp) and len(mid.generators) == 1 and ast.unparse(mid.generators[0].iter) == "enumerate(%s.cod)" % box and not mid.generators[0].ifs):
            probs.append("the inserted nodes `%s` are not one per output of the box, in order" % ast.unparse(mid)[:60])
        else:
            iv, ov = (t.id for t in mid.generators[0].target.elts)
            if shape.key(shape.rename(mid.elt, {box: "box", depth: "depth", iv: "i", ov: "obj"})) != shape.key(shape.parse("Node('cod', obj=obj, i=i, depth=depth)")):
                probs.append("the inserted nodes `%s` are not the cod nodes added to the graph" % ast.unparse(mid.elt))
    ctx.ob("R20.2", DR + ".add_box:splice", not probs, found="; ".join(probs) or "scan[:off] + cod nodes + scan[off+|dom|:]", required="the open wires after the box: the consumed segment [off, off+|dom|) replaced by the cod nodes",
           mod=DR, node=ret[0], sig="splice")
    # --- the three loops of diagram2nx
    main = [s for s in top.body if isinstance(s, ast.For)]
    lin = next((l for l in main if ast.unparse(l.iter) == "enumerate(diagram.dom)"), None)
    lbx = next((l for l in main if ast.unparse(l.iter).replace(" ", "") == "enumerate(zip(diagram.boxes,diagram.offsets))"), None)
    lout = next((l for l in main if ast.unparse(l.iter) == "enumerate(diagram.cod)"), None)
    ctx.need(lin is not None and lbx is not None and lout is not None and top.body.index(lin) < top.body.index(lbx) < top.body.index(lout), "diagram2nx has not the three loops inputs / layers / outputs in this order")
    iv, ov = (t.id for t in lin.target.elts)
    nodes = add_node_calls(lin.body)
    ctx.need(len(nodes) == 1, "the input loop does not add one node per wire")
    shape.match(ctx, "R20.1", DR + ".diagram2nx:input-node", nodes[0][0], "Node('input', obj=obj, i=i)", {iv: "i", ov: "obj"}, mod=DR, node=nodes[0][2], sig="input-node", required="one input node per wire of dom")
    p = nodes[0][1]
    ctx.ob("R20.4", DR + ".diagram2nx:input-x", isinstance(p, ast.Tuple) and ast.unparse(p.elts[0]) == iv, found=ast.unparse(p), required="inputs at abscissae 0, 1, 2, … (strictly increasing)", mod=DR, node=nodes[0][2],
           sig="input-x")
    heights["input"] = lin_y(p.elts[1])
    app = [c for s in lin.body for c in ast.walk(s) if isinstance(c, ast.Call) and ast.unparse(c.func) == "scan.append"]
    ok = len(app) == 1 and shape.key(shape.rename(shape.inline(app[0].args[0], lin.body), {iv: "i", ov: "obj"})) == shape.key(shape.parse("Node('input', obj=obj, i=i)"))
    ctx.ob("R20.2", DR + ".diagram2nx:initial-scan", ok, found=[ast.unparse(c) for c in app], required="the open wires start as the input nodes in order", mod=DR, node=lin, sig="initial-scan")
    # layers
    dv = lbx.target.elts[0].id
    bv, ofv = (t.id for t in lbx.target.elts[1].elts)
    body_src = [ast.unparse(s) for s in lbx.body]
    ok = len(lbx.body) == 2 and body_src[0] == "x_pos = make_space(scan, %s, %s)" % (bv, ofv) and body_src[1] == "scan = add_box(scan, %s, %s, %s, x_pos)" % (bv, ofv, dv)
    ctx.ob("R20.2", DR + ".diagram2nx:layers", ok, found=body_src, required="per layer: make space for the box, then add it at the cleared abscissa and continue with the spliced row", mod=DR, node=lbx, sig="layer-loop")
    # outputs
    iv, ov = (t.id for t in lout.target.elts)
    nodes = add_node_calls(lout.body)
    ctx.need(len(nodes) == 1, "the output loop does not add one node per wire")
    shape.match(ctx, "R20.1", DR + ".diagram2nx:output-node", nodes[0][0], "Node('output', obj=obj, i=i)", {iv: "i", ov: "obj"}, mod=DR, node=nodes[0][2], sig="output-node", required="one output node per wire of cod")
    p = nodes[0][1]
    evo = RealEv(Case(d0=False, n0=False, off0=False, offend=False), {"scan": "scan", "box": box, "off": off, "pos": "pos"})
    evo.env = {iv: Lin.var("i")}
    try:
        xo = evo.ev(p.elts[0])
    except Unsupported as e:
        raise AnalysisError("diagram2nx: abscissa of an output outside the recognised idioms: %s" % e)
    ctx.ob("R20.4", DR + ".diagram2nx:output-x", xo == x_at(Lin.var("i")), found="%r" % (xo,), required="x[i]: an output is vertically below the open wire it ends", mod=DR, node=nodes[0][2], sig="output-x")
    heights["output"] = lin_y(p.elts[1])
    edges = edge_calls(lout.body)
    ok = len(edges) == 1 and ast.unparse(edges[0][0]) == "scan[%s]" % iv and shape.key(shape.rename(edges[0][1], {iv: "i", ov: "obj"})) == shape.key(shape.parse("Node('output', obj=obj, i=i)"))
    ctx.ob("R20.2", DR + ".diagram2nx:output-edge", ok, found=["%s -> %s" % (ast.unparse(a), ast.unparse(b)) for a, b, _, _ in edges], required="scan[i] -> output_i", mod=DR, node=lout, sig="output-edge")
    return heights


def check_heights(ctx, top, heights):
    """R20.7: along every kind of edge the height strictly decreases (depth' >= depth + 1 for a later box, depth <= L - 1)"""
    inp = heights["input"]
    k = Lin.var("k")            # any non-negative integer
    L, d = Lin.var("L"), Lin.var("depth")

    def positive(lin):
        return lin.c > 0 and all(v >= 0 for v in lin.t.values()) and set(lin.t) <= {"k", "depth", "L0"}

    def sub(lin, **m):
        out = Lin.of(lin.c)
        for v, c in lin.t.items():
            out = out + (m[v] if v in m else Lin.var(v)) * c
        return out
    rows = []
    in_pos = inp[1] if isinstance(inp, tuple) else None
    in_L = Lin.var("L") if isinstance(inp, tuple) else inp
    # input -> dom(depth): L >= depth + 1
    rows.append(("input -> dom", sub(in_L - heights["dom"], L=d + 1 + k)))
    rows.append(("dom -> box", heights["dom"] - heights["box"]))
    rows.append(("box -> cod", heights["box"] - heights["cod"]))
    rows.append(("cod -> dom of a later box", heights["cod"] - sub(heights["dom"], depth=d + 1 + k)))
    rows.append(("cod -> output", sub(heights["cod"] - heights["output"], L=d + 1 + k)))
    rows.append(("input -> output (some box)", sub(in_L - heights["output"], L=Lin.of(1) + k)))
    if in_pos is not None:
        rows.append(("input -> output (no box)", in_pos - heights["output"]))
    else:
        rows.append(("input -> output (no box)", sub(in_L - heights["output"], L=Lin.of(0))))
    for name, lin in rows:
        ctx.ob("R20.7", "%s.diagram2nx:height[%s]" % (DR, name), positive(lin), found="height difference %r" % (lin,), required="strictly positive for every depth (edges point downwards)", mod=DR, node=top,
               sig="height:" + name)


def check_node_keys(ctx):
    """R20.5: Node equality is on (kind, data): every site that builds a dom / cod / input / output node must use the same key fields"""
    m = ctx.model
    want = {"dom": ("obj", "i", "depth"), "cod": ("obj", "i", "depth"), "input": ("obj", "i"), "output": ("obj", "i")}
    n = 0
    for mod in (DR, QDR):
        tree = m.trees[mod] if hasattr(m, "trees") else None
        src = ast.parse(open(m.path_of(mod)).read())
        loops_of = {}

        def index_loops(node, stack):
            for ch in ast.iter_child_nodes(node):
                st2 = stack + [ch] if isinstance(ch, (ast.For, ast.comprehension)) else stack
                if isinstance(ch, ast.Call):
                    loops_of[id(ch)] = [x for x in stack if isinstance(x, ast.For)]
                index_loops(ch, st2)
        index_loops(src, [])
        for c in ast.walk(src):
            if isinstance(c, ast.Call) and ast.unparse(c.func) == "Node" and c.args and isinstance(c.args[0], ast.Constant) and c.args[0].value in want:
                kind = c.args[0].value
                kws = tuple(k.arg for k in c.keywords)
                ok = sorted(kws) == sorted(want[kind]) and len(c.args) == 1
                # obj and i must refer to the same port: obj=box.dom[i], i=i   or   enumerate pairs
                kv = {k.arg: k.value for k in c.keywords}
                if ok and isinstance(kv["obj"], ast.Name) and kind in ("dom", "cod"):
                    # the object comes from `for i, obj in enumerate(<box>.<side>)`: it is the object of port i of THAT side
                    lp = next((l for l in loops_of.get(id(c), []) if isinstance(l.target, ast.Tuple) and len(l.target.elts) == 2 and isinstance(l.target.elts[1], ast.Name)
                               and l.target.elts[1].id == kv["obj"].id and isinstance(l.iter, ast.Call) and ast.unparse(l.iter.func) == "enumerate"), None)
                    if lp is not None:
                        side = ast.unparse(lp.iter.args[0]).rsplit(".", 1)[-1]
                        ok = side == kind and ast.unparse(kv["i"]) == ast.unparse(lp.target.elts[0])
                if ok and isinstance(kv["obj"], ast.Subscript) and kind in ("dom", "cod"):
                    base = ast.unparse(kv["obj"].value)
                    ok = base.endswith("." + kind) and (ast.unparse(kv["obj"].slice) == ast.unparse(kv["i"]) or base.count(".") >= 1 and ast.unparse(kv["obj"].slice) == "0")
                n += 1
                ctx.ob("R20.5", "%s:%d:Node(%s)" % (mod, c.lineno, kind), ok, found=ast.unparse(c), required="Node('%s', %s) with the object of the same port" % (kind, ", ".join(want[kind])), mod=mod, node=c,
                       sig="node-key:%s:%s" % (kind, ",".join(kws)), trivial=True)
    ctx.need(n >= 24, "fewer than 24 node construction sites found (%d)" % n)


def check_backends(ctx):
    m = ctx.model
    B = m.cls(DR + ".Backend")
    prims = [n for n, (fn, kind) in B.methods.items() if n.startswith("draw_") or n == "output"]
    ctx.need(len(prims) >= 6, "Backend declares fewer than 6 drawing primitives")
    for bname in ("TikzBackend", "MatBackend"):
        c = m.cls("%s.%s" % (DR, bname))
        ctx.need(B in m.mro(c), "%s is not a Backend" % bname)
        for p in sorted(prims):
            base = B.methods[p][0]
            own = c.methods.get(p)
            ok = own is not None
            found = "not overridden"
            if ok:
                a, b = own[0].args, base.args
                pa, pb = [x.arg for x in a.args], [x.arg for x in b.args]
                ok = pa[:len(pb)] == pb and (b.vararg is None) == (a.vararg is None) and (b.kwarg is None or a.kwarg is not None) and len(a.args) - len(a.defaults) <= len(pb) - len(b.defaults)
                found = "(%s)" % ast.unparse(a)
            ctx.ob("R20.6", "%s.%s.%s" % (DR, bname, p), ok, found=found, required="overrides Backend.%s(%s)" % (p, ast.unparse(base.args)), mod=DR, node=own[0] if own else c.node, sig="backend:%s:%s" % (bname, p),
                   trivial=True)
    # no loop of a back-end method reads a value that an earlier iteration has replaced by something else
    for bname in ("Backend", "TikzBackend", "MatBackend"):
        c = m.cls("%s.%s" % (DR, bname))
        for name, (f, kind) in sorted(c.methods.items()):
            hits = loop_carried_rebinding(f)
            ctx.ob("R20.6", "%s.%s.%s:loops" % (DR, bname, name), not hits, found=["`%s` in the loop at line %d" % (n, l) for l, n in hits] or "no loop-carried rebinding",
                   required="a collection computed before a loop is not read inside it after the loop body has rebound the name to something else (the second iteration would fail)", mod=DR, node=f,
                   sig="loop-carried:%s:%s" % (bname, name), trivial=True)
    # the dispatch of draw(): a backend is chosen for both values of to_tikz, every box node is drawn by the first matching method and the default comes last
    fn = m.func(DR + ".draw")
    ctx.analysed(DR + ".draw")
    lst = next((s.value for s in fn.body if isinstance(s, ast.Assign) and ast.unparse(s.targets[0]) == "drawing_methods"), None)
    ok = isinstance(lst, ast.List) and len(lst.elts) >= 1 and isinstance(lst.elts[-1], ast.Tuple) and ast.unparse(lst.elts[-1].elts[0]) == "None" and \
        all(not (isinstance(e, ast.Tuple) and ast.unparse(e.elts[0]) == "None") for e in lst.elts[:-1])
    ctx.ob("R20.6", DR + ".draw:default-method", ok, found=ast.unparse(lst)[:160] if lst is not None else None, required="the generic box drawing is the last, unconditional entry of the dispatch list", mod=DR, node=fn,
           sig="draw-default")


def loop_carried_rebinding(fn):
    """(line, name): a name bound before a loop is read in the loop body before it is rebound there by a statement that does not read it: from
    the second iteration on the read sees the rebound value (of another kind), not the one computed before the loop"""
    from ..alpha import params_of

    def reads(node, name):
        return any(isinstance(x, ast.Name) and x.id == name and isinstance(x.ctx, ast.Load) for x in ast.walk(node))

    def stores(node, name):
        return any(isinstance(x, ast.Name) and x.id == name and isinstance(x.ctx, ast.Store) for x in ast.walk(node))
    out = []

    def walk(body, bound_before):
        bound = set(bound_before)
        for st in body:
            if isinstance(st, (ast.For, ast.While)):
                tgt = {x.id for x in ast.walk(st.target) if isinstance(x, ast.Name)} if isinstance(st, ast.For) else set()
                assigned = {x.id for s in st.body for x in ast.walk(s) if isinstance(x, ast.Name) and isinstance(x.ctx, ast.Store)} - tgt
                for name in sorted(assigned & bound):
                    for s in st.body:
                        if reads(s, name) or stores(s, name):
                            if isinstance(s, (ast.Assign, ast.AugAssign)) and stores(s, name) and (isinstance(s, ast.AugAssign) or reads(s.value, name)):
                                break          # an accumulator: carried on purpose
                            if reads(s, name) and not (isinstance(s, ast.Assign) and stores(s, name) and not reads(s.value, name)):
                                if any(isinstance(t, ast.Assign) and stores(t, name) and not reads(t.value, name) for t in st.body[st.body.index(s):]):
                                    out.append((st.lineno, name))
                            break
                walk(st.body, bound | tgt)
            if not isinstance(st, (ast.For, ast.While, ast.FunctionDef)):
                bound |= {x.id for x in ast.walk(st) if isinstance(x, ast.Name) and isinstance(x.ctx, ast.Store)}
            if isinstance(st, (ast.If, ast.With, ast.Try)):
                for blk in (getattr(st, "body", []), getattr(st, "orelse", []), getattr(st, "finalbody", [])):
                    walk(blk, bound)
    walk(fn.body, set(params_of(fn)))
    return out


def check_diagramize(ctx):
    m = ctx.model
    nx2 = m.func(DR + ".nx2diagram")
    dz = m.func(DR + ".diagramize")
    ctx.analysed(DR + ".nx2diagram", DR + ".diagramize")
    apply = inner(ctx, dz, "apply")
    # writer: apply(box, *inputs, offset=None) stores offset on the box node
    kwo = {a.arg: d for a, d in zip(apply.args.kwonlyargs, apply.args.kw_defaults)}
    none_default = "offset" in kwo and isinstance(kwo["offset"], ast.Constant) and kwo["offset"].value is None
    stored = any(k.arg == "offset" and ast.unparse(k.value) == "offset" for c in node_calls(apply) if c.args[0].value == "box" for k in c.keywords)
    # reader: nx2diagram
    lp = next((s for s in nx2.body if isinstance(s, ast.For) and "enumerate(boxes)" in ast.unparse(s.iter)), None)
    ctx.need(lp is not None, "nx2diagram has no loop over the box nodes")
    rd = next((s for s in lp.body if isinstance(s, ast.Assign) and ast.unparse(s.targets[0]) == "offset" and "offset" in ast.unparse(s.value)), None)
    if rd is None:
        anyw = [ast.unparse(s)[:70] for s in ast.walk(nx2) if isinstance(s, ast.Assign) and ast.unparse(s.targets[0]) == "offset"]
        ctx.ob("R20.8", DR + ".nx2diagram:offset", False, found=anyw or "no assignment of offset", required="the offset of each box is set afresh at the top of its iteration (from the node's offset, or 0): a box applied "
               "without inputs and without offset= must not inherit the offset of the previous box", mod=DR, node=lp, sig="none-offset")
        return
    v = rd.value
    normalised = (isinstance(v, ast.BoolOp) and isinstance(v.op, ast.Or) and isinstance(v.values[-1], ast.Constant) and v.values[-1].value == 0) or \
        (isinstance(v, ast.IfExp) and "is None" in ast.unparse(v.test) or isinstance(v, ast.IfExp) and "is not None" in ast.unparse(v.test))
    later_guard = any(isinstance(s, ast.If) and "offset is None" in ast.unparse(s.test) for s in lp.body)
    ok = not (none_default and stored) or normalised or later_guard
    ctx.ob("R20.8", DR + ".nx2diagram:offset", ok, found="apply stores offset=%s; nx2diagram reads `%s`" % ("None by default" if none_default and stored else "a number", ast.unparse(v)),
           required="an offset that may be None (a box applied without offset=) is normalised before it is added to or sliced with", mod=DR, node=rd, sig="none-offset")
    # offset recovery for boxes with inputs: position of the first input wire in the row
    rec = [s for s in ast.walk(lp) if isinstance(s, ast.If) and ast.unparse(s.test) in ("i == 0", "not i") and any(isinstance(x, ast.Assign) and ast.unparse(x.targets[0]) == "offset" for x in s.body)]
    ok = len(rec) == 1 and ast.unparse(rec[0].body[0].value) == "scan.index(wire)"
    ctx.ob("R20.8", DR + ".nx2diagram:offset-recovery", ok, found=[ast.unparse(r)[:80] for r in rec], required="the offset of a box with inputs is the position of its first input wire in the current row", mod=DR, node=lp,
           sig="offset-recovery")
    # splice and whiskering
    loc = shape.single_assignments(lp.body)
    tup = shape.values_of(lp.body, ["left", "right"])
    ctx.need(tup is not None, "nx2diagram does not compute left, right")
    shape.match(ctx, "R20.8", DR + ".nx2diagram:left", tup.elts[0], "diagram.cod[:offset]", {}, mod=DR, node=tup.elts[0], sig="nx-left")
    shape.match(ctx, "R20.8", DR + ".nx2diagram:right", tup.elts[1], "diagram.cod[offset + len(box.dom):]", {}, mod=DR, node=tup.elts[1], sig="nx-right")
    sc = next((s for s in lp.body if isinstance(s, ast.Assign) and ast.unparse(s.targets[0]) == "scan"), None)
    ctx.need(sc is not None, "nx2diagram does not update the row")
    shape.match(ctx, "R20.8", DR + ".nx2diagram:row", sc.value, "scan[:offset] + outputs + scan[offset + len(box.dom):]", {}, mod=DR, node=sc, sig="nx-row", required="the consumed input wires are replaced by the output nodes")
    dg = next((s for s in lp.body if isinstance(s, ast.Assign) and ast.unparse(s.targets[0]) == "diagram"), None)
    ctx.need(dg is not None, "nx2diagram does not extend the diagram")
    shape.match(ctx, "R20.8", DR + ".nx2diagram:layer", dg.value, "diagram >> _id(left) @ box @ _id(right)", {}, mod=DR, node=dg, sig="nx-layer")
    outs = next((s for s in lp.body if isinstance(s, ast.Assign) and ast.unparse(s.targets[0]) == "outputs"), None)
    ok = outs is not None and shape.key(outs.value) == shape.key(shape.parse("sorted([node for _, node in graph.out_edges(box_node)], key=lambda node: node.i)"))
    ctx.ob("R20.8", DR + ".nx2diagram:outputs", ok, found=ast.unparse(outs.value)[:120] if outs else None, required="the outputs of a box node are its successors ordered by port index", mod=DR, node=outs or lp, sig="nx-outputs")
    # writer edges in apply
    scope = [s for l in apply.body if isinstance(l, ast.For) for s in l.body] + [s for s in apply.body if not isinstance(s, ast.For)]
    edges = [(ast.unparse(shape.inline(c.args[0], scope)), ast.unparse(shape.inline(c.args[1], scope)))
             for c in ast.walk(apply) if isinstance(c, ast.Call) and ast.unparse(c.func) == "graph.add_edge"]
    D = "len(box_nodes)"
    want = [("inputs[i]", "Node('dom', obj=obj, i=i, depth=%s)" % D), ("Node('dom', obj=obj, i=i, depth=%s)" % D, "Node('box', box=box, depth=%s, offset=offset)" % D),
            ("Node('box', box=box, depth=%s, offset=offset)" % D, "Node('cod', obj=obj, i=i, depth=%s)" % D)]
    ctx.ob("R20.8", DR + ".diagramize.apply:edges", edges == want, found=edges, required="input_i -> dom_i -> box -> cod_i (what nx2diagram reads back)", mod=DR, node=apply, sig="apply-edges")
    added = [ast.unparse(c.args[0]) for c in ast.walk(apply) if isinstance(c, ast.Call) and ast.unparse(c.func) == "graph.add_node" and c.args]
    bn = next((s.targets[0].id for s in apply.body if isinstance(s, ast.Assign) and isinstance(s.targets[0], ast.Name) and isinstance(s.value, ast.Call) and ast.unparse(s.value.func) == "Node"
               and s.value.args and getattr(s.value.args[0], "value", None) == "box"), None)
    ctx.ob("R20.8", DR + ".diagramize.apply:box-node", bn is not None and bn in added, found="graph.add_node(%s)" % ", ".join(added) if added else "the box node is only added through its edges",
           required="the box node is added to the graph itself: a box without inputs and outputs has no edge that would add it", mod=DR, node=apply, sig="apply-box-node")
    g = [s for s in apply.body if isinstance(s, ast.If) and isinstance(s.body[-1], ast.Raise)]
    ok = any(shape.key(s.test) == shape.key(shape.parse("len(inputs) != len(box.dom)")) for s in g)
    ctx.ob("R20.8", DR + ".diagramize.apply:arity", ok, found=[ast.unparse(s.test) for s in g], required="a box applied to the wrong number of wires is refused", mod=DR, node=apply, sig="apply-arity")
    ret = [s for s in apply.body if isinstance(s, ast.Return)]
    ok = len(ret) == 1 and ast.unparse(ret[0].value) == "untuplify(*outputs)"
    ctx.ob("R20.8", DR + ".diagramize.apply:result", ok, found=[ast.unparse(r) for r in ret], required="the call returns the cod nodes (one node or a tuple)", mod=DR, node=apply, sig="apply-result")
    dec = inner(ctx, dz, "decorator")
    inl = next((l for l in dec.body if isinstance(l, ast.For) and ast.unparse(l.iter) == "enumerate(dom)"), None)
    ctx.need(inl is not None, "diagramize does not create the input nodes in a loop over dom")
    added_in = [shape.inline(c.args[0], inl.body) for c in ast.walk(inl) if isinstance(c, ast.Call) and ast.unparse(c.func) == "graph.add_node" and c.args]
    iv_, ov_ = (t.id for t in inl.target.elts)
    okin = len(added_in) == 1 and shape.key(shape.rename(added_in[0], {iv_: "i", ov_: "obj"})) == shape.key(shape.parse("Node('input', obj=obj, i=i)"))
    ctx.ob("R20.8", DR + ".diagramize:input-nodes", okin, found=[ast.unparse(a) for a in added_in] or "input nodes enter the graph only through the first edge that uses them",
           required="graph.add_node(Node('input', obj=obj, i=i)) in declaration order: nx2diagram reads the inputs in the order of graph.nodes", mod=DR, node=inl, sig="diagramize-inputs")
    fin = [ast.unparse(s.test) for s in ast.walk(dec) if isinstance(s, ast.If) and isinstance(s.body[-1], ast.Raise)]
    ctx.ob("R20.8", DR + ".diagramize:cod-check", "result.cod != cod" in fin, found=fin, required="a result whose codomain is not the declared one is refused", mod=DR, node=dec, sig="diagramize-cod")


def check_bubbles(ctx, top):
    """R20.9: bubbles are drawn as an opening and a closing box of wires; wires go straight through them only when the lengths on that side agree"""
    m = ctx.model
    MON = "discopy.monoidal"
    fn = m.func(MON + ".Diagram.open_bubbles")
    ctx.analysed(MON + ".Diagram.open_bubbles")
    call = next((f for f in ast.walk(fn) if isinstance(f, ast.FunctionDef) and f.name == "__call__"), None)
    ctx.need(call is not None, "open_bubbles has no functor __call__")
    dv = call.args.args[1].arg
    br = next((s for s in call.body if isinstance(s, ast.If) and ast.unparse(s.test) == "isinstance(%s, Bubble)" % dv), None)
    ctx.need(br is not None, "open_bubbles does not treat bubbles")
    loc = {s.targets[0].id: s.value for s in br.body if isinstance(s, ast.Assign) and isinstance(s.targets[0], ast.Name)}
    for s in br.body:
        if isinstance(s, ast.Assign) and isinstance(s.targets[0], ast.Tuple) and isinstance(s.value, ast.Tuple):
            loc.update({t.id: v for t, v in zip(s.targets[0].elts, s.value.elts) if isinstance(t, ast.Name)})
    nm = {dv: "diagram"}
    for name, spec in (("open_bubble", "Box('open_bubble', diagram.dom, left @ diagram.inside.dom @ right)"), ("close_bubble", "Box('_close', left @ diagram.inside.cod @ right, diagram.cod)")):
        ctx.need(name in loc, "open_bubbles does not build %s" % name)
        shape.match(ctx, "R20.9", "%s.Diagram.open_bubbles:%s" % (MON, name), loc[name], spec, nm, mod=MON, node=loc[name], sig="bubble-" + name,
                    required="the %s box goes between the bubble's own type and the inside's type, framed by the two marker wires" % name.split("_")[0])
    flags = {}
    for s in br.body:
        if isinstance(s, ast.If):
            for a in s.body:
                if isinstance(a, ast.Assign) and isinstance(a.targets[0], ast.Attribute) and a.targets[0].attr in ("bubble_opening", "bubble_closing"):
                    flags[a.targets[0].attr] = (ast.unparse(a.targets[0].value), s.test)
    for attr, owner, side in (("bubble_opening", "open_bubble", "dom"), ("bubble_closing", "close_bubble", "cod")):
        got = flags.get(attr)
        ok = got is not None and got[0] == owner and shape.key(shape.rename(got[1], nm)) == shape.key(shape.parse("len(diagram.%s) == len(diagram.inside.%s)" % (side, side)))
        ctx.ob("R20.9", "%s.Diagram.open_bubbles:%s" % (MON, attr), ok, found="%s.%s set when %s" % (got[0], attr, ast.unparse(got[1])) if got else None,
               required="%s.%s only when len(%s) of the bubble and of its inside agree (the straight wires dom_i -> cod_i+1 / dom_i+1 -> cod_i of add_box need equally many ports)" % (owner, attr, side),
               mod=MON, node=br, sig="bubble-flag-" + attr)
    # what is drawn is the downgraded diagram: downgrading keeps types, boxes and offsets (a bubble keeps its declared dom and cod)
    MONQ = "discopy.monoidal"
    bd = m.func(MONQ + ".Bubble.downgrade")
    res = next((c for c in ast.walk(bd) if isinstance(c, ast.Call) and m.resolve_class(MONQ, ast.unparse(c.func)) is m.cls(MONQ + ".Bubble")), None)
    ctx.need(res is not None, "Bubble.downgrade does not build a monoidal Bubble")
    kwd = {k.arg: k.value for k in res.keywords}
    args = list(res.args)
    inside = args[0] if args else kwd.get("inside")
    dom_a = args[1] if len(args) > 1 else kwd.get("dom")
    cod_a = args[2] if len(args) > 2 else kwd.get("cod")
    okb = inside is not None and ast.unparse(inside) == "self.inside.downgrade()" and dom_a is not None and cod_a is not None and \
        ast.unparse(dom_a) in ("Ty(*self.dom)", "self.dom.downgrade()") and ast.unparse(cod_a) in ("Ty(*self.cod)", "self.cod.downgrade()")
    ctx.ob("R20.9", MONQ + ".Bubble.downgrade", okb, found=ast.unparse(res), required="Bubble(self.inside.downgrade(), Ty(*self.dom), Ty(*self.cod)): the downgraded bubble keeps the declared domain and codomain "
           "(they may differ from those of the inside)", mod=MONQ, node=bd, sig="bubble-downgrade")
    first = next((s for s in call.body if not (isinstance(s, ast.Expr) and isinstance(s.value, ast.Constant))), None)
    okf = first is not None and shape.stmt_key(shape.rename(first, nm)) == shape.stmt_key(ast.parse("diagram = diagram.downgrade()").body[0])
    ctx.ob("R20.9", MON + ".Diagram.open_bubbles:downgraded-first", okf, found=ast.unparse(first)[:80] if first is not None else None, required="`diagram = diagram.downgrade()` first: what is opened (and then drawn) is the plain "
           "monoidal copy of the diagram", mod=MON, node=call, sig="bubbles-downgrade-first")
    g0 = next((s for s in fn.body if isinstance(s, ast.If)), None)
    ok0 = g0 is not None and shape.key(g0.test) == shape.key(shape.parse("not any((isinstance(box, Bubble) for box in self.boxes))")) and len(g0.body) == 1 and ast.unparse(g0.body[0]) == "return self.downgrade()"
    ctx.ob("R20.9", MON + ".Diagram.open_bubbles:no-bubble", ok0, found=ast.unparse(g0)[:100] if g0 is not None else None, required="a diagram without bubbles is drawn as its plain monoidal copy", mod=MON, node=fn, sig="bubbles-none")
    xd = m.func(MONQ + ".Box.downgrade")
    ctx.analysed(MONQ + ".Box.downgrade")
    shape.match_stmts(ctx, "R20.9", MONQ + ".Box.downgrade", [s for s in shape.expand_tuple_assigns(xd.body) if isinstance(s, (ast.Assign, ast.Return))],
                      ["box = Box.__new__(Box)", "dom = self.dom.downgrade()", "cod = self.cod.downgrade()", "box._dom = dom", "box._cod = cod", "box._boxes = [box]", "layer = Layer(box._dom[0:0], box, box._dom[0:0])",
                       "box._layers = cat.Arrow(dom, cod, [layer], _scan=False)", "return box"], mod=MONQ, node=xd, sig="box-downgrade", exact=True,
                      required="a FRESH plain box (the drawing attributes are written onto it, not onto the caller's box) carrying the same attributes, with both types downgraded and itself as its only box / layer")
    cp = next((s for s in xd.body if isinstance(s, ast.For)), None)
    okc = cp is not None and ast.unparse(cp.iter) == "self.__dict__.items()" and len(cp.body) == 1 and ast.unparse(cp.body[0]) == "setattr(box, %s, %s)" % tuple(t.id for t in cp.target.elts)
    ctx.ob("R20.9", MONQ + ".Box.downgrade:attributes", okc, found=ast.unparse(cp)[:90] if cp is not None else None, required="every attribute of the box is copied onto the fresh one", mod=MONQ, node=xd, sig="box-downgrade-attrs")
    dd = m.func(MONQ + ".Diagram.downgrade")
    rdd = next((s.value for s in dd.body if isinstance(s, ast.Return)), None)
    shape.match(ctx, "R20.9", MONQ + ".Diagram.downgrade", rdd, "Diagram(Ty(*self.dom), Ty(*self.cod), [box.downgrade() for box in self.boxes], self.offsets)", {}, body=dd.body, mod=MONQ, node=dd,
                sig="diagram-downgrade", required="same types, boxes (downgraded) and offsets")
    ret = next((s for s in br.body if isinstance(s, ast.Return)), None)
    ctx.need(ret is not None, "open_bubbles: the bubble branch returns nothing")
    shape.match(ctx, "R20.9", MON + ".Diagram.open_bubbles:composite", ret.value, "open_bubble >> Id(left) @ self(diagram.inside) @ Id(right) >> close_bubble", nm, mod=MON, node=ret, sig="bubble-composite",
                required="opening, the opened inside between the marker wires, closing")
    # the straight edges in add_box
    ab = inner(ctx, top, "add_box")
    boxv, depthv = ab.args.args[1].arg, ab.args.args[3].arg
    for flag, it, src, tgt in (("bubble_opening", "dom", "Node('dom', obj=obj, i=i, depth=depth)", "Node('cod', obj=box.cod[i + 1], i=i + 1, depth=depth)"),
                               ("bubble_closing", "cod", "Node('dom', obj=box.dom[i + 1], i=i + 1, depth=depth)", "Node('cod', obj=obj, i=i, depth=depth)")):
        blk = next((s for s in ab.body if isinstance(s, ast.If) and ast.unparse(s.test) == flag), None)
        ctx.need(blk is not None and len(blk.body) == 1 and isinstance(blk.body[0], ast.For), "add_box has no edge loop for %s" % flag)
        lp = blk.body[0]
        iv, ov = (t.id for t in lp.target.elts)
        edges = [(shape.inline(c.args[0], lp.body), shape.inline(c.args[1], lp.body)) for c in ast.walk(lp) if isinstance(c, ast.Call) and ast.unparse(c.func) == "graph.add_edge"]
        r = {boxv: "box", depthv: "depth", iv: "i", ov: "obj"}
        ok = ast.unparse(lp.iter) == "enumerate(%s.%s)" % (boxv, it) and len(edges) == 1 and shape.key(shape.rename(edges[0][0], r)) == shape.key(shape.parse(src)) and \
            shape.key(shape.rename(edges[0][1], r)) == shape.key(shape.parse(tgt))
        ctx.ob("R20.9", "%s.add_box:%s-edges" % (DR, flag), ok, found=["%s -> %s" % (ast.unparse(a), ast.unparse(b)) for a, b in edges], required="for each port of %s: %s -> %s (the marker wire shifts the index by one)" % (it, src, tgt),
               mod=DR, node=lp, sig="bubble-edges-" + flag)


def check_bubble_guards(ctx, top):
    """R20.9: in add_box, a port is joined to the box node unless the box opens / closes a bubble; then only the two marker wires (first and last port of the wide side) are"""
    ab = inner(ctx, top, "add_box")
    boxv = ab.args.args[1].arg
    N = {boxv: "box"}
    shape.match_stmts(ctx, "R20.9", DR + ".add_box:flags", [s for s in ab.body if isinstance(s, ast.Assign) and isinstance(s.targets[0], ast.Name) and s.targets[0].id in ("bubble_opening", "bubble_closing", "bubble")],
                      ["bubble_opening = getattr(box, 'bubble_opening', False)", "bubble_closing = getattr(box, 'bubble_closing', False)", "bubble = bubble_opening or bubble_closing"], N, mod=DR, node=ab,
                      sig="bubble-flags", exact=True, required="an ordinary box has neither flag; a box is a bubble border when it has one of them")
    for side, flag, spec_edge in (("dom", "bubble_closing", "graph.add_edge(wire, node)"), ("cod", "bubble_opening", "graph.add_edge(node, wire)")):
        lp = next((s for s in ab.body if isinstance(s, ast.For) and ast.unparse(s.iter) == "enumerate(%s.%s)" % (boxv, side)), None)
        ctx.need(lp is not None and isinstance(lp.target, ast.Tuple), "add_box has no loop over box.%s" % side)
        g = next((s for s in lp.body if isinstance(s, ast.If)), None)
        ctx.need(g is not None, "add_box: the %s ports are joined to the box node unconditionally" % side)
        N2 = dict(N)
        N2[lp.target.elts[0].id] = "i"
        shape.match(ctx, "R20.9", "%s.add_box:%s-port-joined" % (DR, side), g.test, "not bubble or %s and i in [0, len(box.%s) - 1]" % (flag, side), N2, mod=DR, node=g, sig="bubble-guard-" + side,
                    required="every port of an ordinary box; of a bubble border only the first and last port of its wide side (the marker wires)")
        shape.match_stmts(ctx, "R20.9", "%s.add_box:%s-port-edge" % (DR, side), g.body, [spec_edge], N2, mod=DR, node=g, sig="bubble-edge-" + side, exact=True, required="the edge points downwards: %s" % spec_edge)


def check_diagramize_guards(ctx):
    """R20.8: the function-call syntax refuses only what is ill-typed, classifies the nodes it reads back by their kind and hands the factories on"""
    m = ctx.model
    nx2 = m.func(DR + ".nx2diagram")
    dz = m.func(DR + ".diagramize")
    apply = inner(ctx, dz, "apply")
    dec = inner(ctx, dz, "decorator")
    lp = next((s for s in nx2.body if isinstance(s, ast.For) and ast.unparse(s.iter) == "graph.nodes"), None)
    ctx.need(lp is not None and isinstance(lp.target, ast.Name), "nx2diagram does not classify the nodes of the graph")
    shape.match_stmts(ctx, "R20.8", DR + ".nx2diagram:kinds", lp.body, ["for kind, nodelist in zip(['input', 'output', 'box'], [inputs, outputs, boxes]):\n    if node.kind == kind:\n        nodelist.append(node)"],
                      {lp.target.id: "node"}, mod=DR, node=lp, sig="nx-kinds", exact=True, required="input, output and box nodes are collected in the order of graph.nodes, each in the list of its kind")
    st0 = shape.values_of(nx2.body, ["scan", "diagram"])
    shape.match(ctx, "R20.8", DR + ".nx2diagram:start", st0, ["(inputs, _id(_ty(*[node.obj for node in inputs])))", "(inputs, id_factory(ob_factory(*[node.obj for node in inputs])))"], {}, mod=DR, node=nx2, sig="nx-start",
                required="the row starts as the input nodes, the diagram as the identity on their objects")
    shape.match(ctx, "R20.8", DR + ".nx2diagram:result", next((s.value for s in nx2.body if isinstance(s, ast.Return)), None), "diagram", {}, mod=DR, node=nx2, sig="nx-result")
    # refusals of apply / decorator: exactly the ill-typed uses
    N = {apply.args.args[0].arg: "box", apply.args.vararg.arg: "inputs"}
    il = next((s for s in apply.body if isinstance(s, ast.For) and ast.unparse(s.iter) == "enumerate(%s.dom)" % apply.args.args[0].arg), None)
    ctx.need(il is not None and isinstance(il.target, ast.Tuple), "apply has no loop over the inputs of the box")
    N2 = dict(N)
    N2.update({il.target.elts[0].id: "i", il.target.elts[1].id: "obj"})
    g = next((s for s in il.body if isinstance(s, ast.If) and isinstance(s.body[-1], ast.Raise)), None)
    shape.match(ctx, "R20.8", DR + ".diagramize.apply:input-type", g.test if g is not None else None, ["inputs[i].obj != obj", "obj != inputs[i].obj"], N2, mod=DR, node=g or il, sig="apply-input-type",
                required="a wire of another type than the box expects there is refused (and only that)")
    ol = next((s for s in dec.body if isinstance(s, ast.For) and ast.unparse(s.iter) == "enumerate(cod)"), None)
    ctx.need(ol is not None and isinstance(ol.target, ast.Tuple), "diagramize has no loop over the declared outputs")
    NO = {ol.target.elts[0].id: "i", ol.target.elts[1].id: "obj"}
    g = next((s for s in ol.body if isinstance(s, ast.If) and isinstance(s.body[-1], ast.Raise)), None)
    shape.match(ctx, "R20.8", DR + ".diagramize:output-type", g.test if g is not None else None, ["outputs[i].obj != obj", "obj != outputs[i].obj"], NO, mod=DR, node=g or ol, sig="diagramize-output-type",
                required="a returned wire of another type than declared is refused (and only that)")
    shape.match_stmts(ctx, "R20.8", DR + ".diagramize.apply:depth", [s for s in apply.body if isinstance(s, (ast.Assign, ast.Expr)) and not (isinstance(s, ast.Expr) and isinstance(s.value, ast.Constant))],
                      ["depth = len(box_nodes)", "box_node = Node('box', box=box, depth=depth, offset=offset)", "box_nodes.append(box_node)", "graph.add_node(box_node)"], N, mod=DR, node=apply, sig="apply-depth",
                      required="every application gets the next depth (the number of boxes applied so far) and is recorded, so that the nodes of different applications never share a key")
    res = next((s for s in dec.body if isinstance(s, ast.Assign) and isinstance(s.value, ast.Call) and ast.unparse(s.value.func) == "nx2diagram"), None)
    shape.match(ctx, "R20.8", DR + ".diagramize:rebuild", res.value if res is not None else None, ["nx2diagram(graph, ob_factory=type(dom), id_factory=id_factory)", "nx2diagram(graph, type(dom), id_factory)",
                                                                                                   "nx2diagram(graph, ob_factory=type(cod), id_factory=id_factory)"], {}, mod=DR, node=res or dec, sig="diagramize-rebuild",
                required="the graph is read back with the type class of the declared domain and the identity factory")
    idf = next((s for s in dz.body if isinstance(s, ast.Assign) and ast.unparse(s.targets[0]) == "id_factory"), None)
    shape.match(ctx, "R20.8", DR + ".diagramize:id-factory", idf.value if idf is not None else None, ["id_factory or boxes[0].id", "boxes[0].id if id_factory is None else id_factory"], {}, mod=DR, node=idf or dz,
                sig="diagramize-id-factory", required="the identity factory given, else that of the first box")
    outs = next((s for s in dec.body if isinstance(s, ast.Assign) and ast.unparse(s.targets[0]) == "outputs"), None)
    shape.match(ctx, "R20.8", DR + ".diagramize:call", outs.value if outs is not None else None, "tuplify(func(*inputs))", {}, mod=DR, node=outs or dec, sig="diagramize-call", required="the function body is run on the input nodes, in order")


def check(ctx):
    ctx.rule("R20.1", "census: one input / output node per wire of dom / cod, one box node per layer, one dom / cod node per port, with distinct keys")
    ctx.rule("R20.2", "edges reproduce the wiring; the row of open wires is spliced at [off, off+|dom|) with the cod nodes in order")
    ctx.rule("R20.3", "every shift is a translation of a closed half-plane of all nodes by exactly the tested overlap (monotone: order and verticality are preserved)")
    ctx.rule("R20.4", "formulas: half width, x_pos inside its neighbours, cod wires centred with unit spacing and margin >= 1, dom / output nodes vertical, inputs at 0, 1, 2, …")
    ctx.rule("R20.5", "all sites that build a dom / cod / input / output node use the same key fields")
    ctx.rule("R20.6", "both back-ends override every drawing primitive of Backend with compatible signatures; the generic box drawing is the default")
    ctx.rule("R20.7", "the height strictly decreases along every kind of edge")
    ctx.rule("R20.8", "diagramize / nx2diagram: writer and reader agree, a missing offset is normalised, the diagram is rebuilt by whiskering at the recovered offset")
    m = ctx.model
    top = m.func(DR + ".diagram2nx")
    ctx.analysed(DR + ".diagram2nx")
    names, ab = check_make_space(ctx, top)
    heights = check_add_box(ctx, top, names, ab)
    ctx.attempt(check_heights, ctx, top, heights)
    ctx.attempt(check_node_keys, ctx)
    ctx.attempt(check_backends, ctx)
    ctx.attempt(check_diagramize, ctx)
    ctx.attempt(check_diagramize_guards, ctx)
    ctx.rule("R20.9", "bubbles: opening / closing boxes typed against the inside, straight-wire flags only when the lengths on that side agree, index-shifted edges in add_box")
    ctx.attempt(check_bubbles, ctx, top)
    ctx.attempt(check_bubble_guards, ctx, top)
    ctx.floor("R20.9", 9)
    ctx.floor("R20.1", 5)
    ctx.floor("R20.2", 7)
    ctx.floor("R20.3", 12)
    ctx.floor("R20.4", 25)
    ctx.floor("R20.5", 24)
    ctx.floor("R20.6", 30)
    ctx.floor("R20.7", 7)
    ctx.floor("R20.8", 11)
    ctx.not_decided += ["the rendered picture (matplotlib / TikZ output); run-time errors inside the back-ends other than missing overrides and loop-carried rebindings", "diagramize on non-planar uses of the wires"]
