"""Engine A: resolved program model of /repo/discopy (stdlib only; never imports discopy)."""
import ast, hashlib, os
from . import alpha, helpers


class AnchorError(Exception):
    """A named construct the rules depend on is missing (-> ANALYSIS-ERROR, exit 2)."""


class Cls:
    def __init__(self, mod, node):
        self.mod, self.node, self.name = mod, node, node.name
        self.q = mod + "." + node.name
        self.methods = {}        # name -> (FunctionDef, kind)  kind in {'method','static','class','property'}
        self.aliases = {}        # name -> dotted expression assigned in the class body (e.g. normalize = rewriting.snake_removal)
        self.late = {}           # name -> dotted expr assigned after the class (Diagram.id = Id)
        for st in node.body:
            if isinstance(st, ast.FunctionDef):
                kind = "method"
                for d in st.decorator_list:
                    dn = ast.unparse(d)
                    if dn == "staticmethod":
                        kind = "static"
                    elif dn == "classmethod":
                        kind = "class"
                    elif dn == "property" or dn.endswith(".setter"):
                        kind = "property"
                self.methods[st.name] = (st, kind)
            elif isinstance(st, ast.Assign) and len(st.targets) == 1 and isinstance(st.targets[0], ast.Name):
                if isinstance(st.value, (ast.Name, ast.Attribute)):
                    self.aliases[st.targets[0].id] = ast.unparse(st.value)
            elif isinstance(st, ast.Assign) and len(st.targets) == 1 and isinstance(st.targets[0], ast.Tuple) and isinstance(st.value, ast.Tuple) \
                    and len(st.targets[0].elts) == len(st.value.elts):
                for t, v in zip(st.targets[0].elts, st.value.elts):          # subs, lambdify = Parametrized.subs, Parametrized.lambdify
                    if isinstance(t, ast.Name) and isinstance(v, (ast.Name, ast.Attribute)):
                        self.aliases[t.id] = ast.unparse(v)

    def __repr__(self):
        return self.q


class Model:
    def __init__(self, root="/repo/discopy", package="discopy"):
        self.root, self.package = root, package
        self.modules, self.sources, self.sha = {}, {}, {}
        self.classes, self.functions, self.imports, self.module_assigns = {}, {}, {}, {}
        self.locals_table, self.alpha_applied, self.noise_removed, self.temps_inlined = alpha.load_table(), [], 0, []
        self.compare_table, self.comparisons_turned, self.conditionals_merged = alpha.load_compare_table(), 0, 0
        self.loop_table, self.loops_restored, self.fstrings = alpha.load_loop_table(), 0, 0
        for dp, dn, fns in os.walk(root):
            dn[:] = [d for d in dn if d != "__pycache__"]
            for f in sorted(fns):
                if not f.endswith(".py"):
                    continue
                p = os.path.join(dp, f)
                name = package + p[len(root):-3].replace(os.sep, ".")
                if name.endswith(".__init__"):
                    name = name[:-9]
                src = open(p, encoding="utf-8").read()
                self.sources[name], self.sha[p] = src, hashlib.sha256(src.encode()).hexdigest()
                self.modules[name] = ast.parse(src, filename=p)
                self.modules[name]._path = p
                self.noise_removed += alpha.strip_noise(self.modules[name])         # pass / assert / print / logging statements
                self.fstrings += alpha.fstrings_to_format(self.modules[name])         # f'{a}' is '{}'.format(a)
        # helpers extracted / nested functions moved out since the rules were confirmed are put back (sa/helpers.py), across modules
        exits = helpers.load_exits()
        self.renested = helpers.renest_moved_functions(self.modules, exits)
        self.helpers_inlined = helpers.inline_new_helpers(self.modules, exits)
        self.helpers_inlined += helpers.inline_new_procedures(self.modules, exits)
        star_comps, fold_calls = helpers.load_star_comps(), helpers.load_fold_calls()
        for n_, t_ in self.modules.items():
            helpers.beta_reduce(t_)
            helpers.fold_calls_to_operators(t_, fold_calls.get(n_, set()))
            helpers.unstar_literals(t_)
            helpers.star_comp_to_map(t_, star_comps.get(n_, set()))
        ifs_table, neg_guards, param_rebinds, loop_ifelse = helpers.load_ifs(), helpers.load_neg_guards(), helpers.load_param_rebinds(), helpers.load_loop_ifelse(); if_tests = helpers.load_if_tests()
        self.hoisted_inlined, self.one_armed_merged = [], 0
        for name in list(self.modules):
            if True:
                if True:
                    pass
                helpers.sink_final_return(self.modules[name], self.locals_table.get(name, {}))          # single exit written back as early returns
                self.conditionals_merged += alpha.merge_conditional_assignments(self.modules[name])
                helpers.split_merged_tail(self.modules[name], loop_ifelse.get(name, set()))        # a tail shared by both branches of an if/else in a loop
                alpha.split_tuple_assigns(self.modules[name])                         # one binding per statement
                for _ in range(4):
                    if not alpha.unnest_else_after_leave(self.modules[name]):         # else after a branch that always leaves = the rest of the block
                        break
                helpers.restore_guard_polarity(self.modules[name], if_tests.get(name, set()))        # if c: A(leaves) ; B(leaves)  written the other way round since
                alpha.normalise_polarity(self.modules[name])                          # no `if not c ... else ...`
                helpers.swap_negated_final_guard(self.modules[name], neg_guards.get(name, set()))                    # if not c: return A ; return B
                # locals renamed since the rules were confirmed are renamed back (an alpha-conversion; see sa/alpha.py); explaining variables
                # added since are substituted back, after which a second renaming pass may apply
                tab = self.locals_table.get(name, {})
                self.conditionals_merged += alpha.merge_conditional_assignments(self.modules[name])          # (also before the temporaries are looked at: the merged name may be one)
                for _ in range(2):
                    for key, mapping in alpha.canonicalise(self.modules[name], tab):
                        self.alpha_applied.append("%s.%s: %s" % (name, key, ", ".join("%s->%s" % kv for kv in sorted(mapping.items()))))
                    self.flags_fused = getattr(self, 'flags_fused', 0) + helpers.fuse_flag_dispatch(self.modules[name], tab)     # decision split from action
                    got = alpha.inline_new_temps(self.modules[name], tab)
                    self.temps_inlined += got
                    got2 = helpers.inline_hoisted(self.modules[name], tab)              # the same for a new local read several times (hoisted loop invariant)
                    self.hoisted_inlined += got2
                    if not got and not got2:
                        break
                self.loops_restored += alpha.restore_index_loops(self.modules[name], self.loop_table.get(name, set()))           # enumerate(X) / range(len(X)) written the other way since
                self.comparisons_turned += alpha.orient_comparisons(self.modules[name], self.compare_table.get(name, set()))     # a == b written b == a since the rules were confirmed
                self.conditionals_merged += alpha.merge_conditional_assignments(self.modules[name])                            # if c: x = a else: x = b  ->  x = a if c else b
                self.one_armed_merged += helpers.merge_one_armed(self.modules[name], ifs_table.get(name, set()), tab)              # new `if c: x = E`  ->  x = E if c else x
                alpha.normalise_polarity(self.modules[name])
                self.param_rebinds_inlined = getattr(self, 'param_rebinds_inlined', []) + helpers.inline_param_rebinds(name, self.modules[name], param_rebinds.get(name, set()))
        for m, tree in self.modules.items():
            imp, assigns = {}, {}
            for st in ast.walk(tree):     # imports may be function-local (rewriting.py, circuit.py)
                if isinstance(st, ast.ImportFrom) and st.module and st.module.split(".")[0] == package and st.level == 0:
                    for a in st.names:
                        imp.setdefault(a.asname or a.name, st.module + "." + a.name)
                elif isinstance(st, ast.Import):
                    for a in st.names:
                        if a.name.split(".")[0] == package:
                            imp.setdefault(a.asname or a.name.split(".")[0], a.name if a.asname else a.name.split(".")[0])
            for st in tree.body:
                if isinstance(st, ast.ClassDef):
                    self.classes[m + "." + st.name] = Cls(m, st)
                elif isinstance(st, ast.FunctionDef):
                    self.functions[m + "." + st.name] = st
                elif isinstance(st, ast.Assign) and len(st.targets) == 1:
                    t = st.targets[0]
                    if isinstance(t, ast.Name):
                        assigns[t.id] = st.value
                    elif isinstance(t, ast.Tuple) and isinstance(st.value, ast.Tuple) and len(t.elts) == len(st.value.elts):
                        for a, v in zip(t.elts, st.value.elts):
                            if isinstance(a, ast.Name):
                                assigns[a.id] = v
            self.imports[m], self.module_assigns[m] = imp, assigns
        # late bindings  Diagram.id = Id
        for m, tree in self.modules.items():
            for st in tree.body:
                if isinstance(st, ast.Assign) and len(st.targets) == 1 and isinstance(st.targets[0], ast.Attribute) \
                        and isinstance(st.targets[0].value, ast.Name):
                    c = self.resolve_class(m, st.targets[0].value.id)
                    if c is not None and isinstance(st.value, (ast.Name, ast.Attribute)):
                        c.late[st.targets[0].attr] = (m, ast.unparse(st.value))
        self._mro = {}
        self.touched = set()          # functions the rules asked the model for (by name or along an MRO): what rules N and X treat as analysed

    # ----------------------------------------------------------------- names
    def resolve(self, mod, dotted, _depth=0):
        """resolve a dotted name used inside module `mod` to ('class', Cls) / ('function', q) / ('module', name) / ('value', (mod, ast)) / None"""
        if _depth > 8:
            return None
        parts = dotted.split(".")
        head, rest = parts[0], parts[1:]
        cand = None
        if mod + "." + head in self.classes:
            cand = ("class", self.classes[mod + "." + head])
        elif mod + "." + head in self.functions:
            cand = ("function", mod + "." + head)
        elif head in self.imports.get(mod, {}):
            target = self.imports[mod][head]
            if target in self.modules:
                cand = ("module", target)
            else:
                tm, _, tn = target.rpartition(".")
                cand = self.resolve(tm, tn, _depth + 1) if tm in self.modules else None
        elif head in self.module_assigns.get(mod, {}):
            cand = ("value", (mod, self.module_assigns[mod][head]))
        while cand and rest:
            kind, val = cand
            nxt = rest.pop(0)
            if kind == "module":
                cand = self.resolve(val, nxt, _depth + 1)
            else:
                return None if rest or kind != "class" else ("member", (val, nxt))
        return cand

    def resolve_class(self, mod, dotted):
        r = self.resolve(mod, dotted)
        return r[1] if r and r[0] == "class" else None

    def cls(self, q):
        if q not in self.classes:
            raise AnchorError("class %s not found" % q)
        return self.classes[q]

    def func(self, q):
        """module-level function, or Class.method, by qualified name"""
        if q in self.functions:
            self.touched.add(q)
            return self.functions[q]
        cq, _, name = q.rpartition(".")
        if cq in self.classes and name in self.classes[cq].methods:
            self.touched.add(q)
            return self.classes[cq].methods[name][0]
        raise AnchorError("function %s not found" % q)

    def path_of(self, mod):
        return self.modules[mod]._path

    # ------------------------------------------------------------------- MRO
    def bases(self, c):
        out = []
        for b in c.node.bases:
            k = self.resolve_class(c.mod, ast.unparse(b))
            if k is not None:
                out.append(k)
        return out

    def mro(self, c):
        if c.q in self._mro:
            return self._mro[c.q]
        seqs = [list(self.mro(b)) for b in self.bases(c)] + [list(self.bases(c))]
        res, seqs = [c], [s for s in seqs if s]
        while seqs:
            for s in seqs:
                h = s[0]
                if not any(h in t[1:] for t in seqs):
                    break
            else:
                raise AnchorError("inconsistent MRO for %s" % c.q)
            res.append(h)
            seqs = [[x for x in t if x is not h] for t in seqs]
            seqs = [t for t in seqs if t]
        self._mro[c.q] = res
        return res

    def is_subclass(self, c, d):
        return d in self.mro(c)

    def subclasses(self, d, strict=False):
        return [c for c in self.classes.values() if d in self.mro(c) and (c is not d or not strict)]

    def lookup(self, c, name, after=None):
        """(owner, FunctionDef, kind) following the MRO, class-body aliases and late bindings; None if absent"""
        chain = self.mro(c)
        if after is not None:
            chain = chain[chain.index(after) + 1:]
        for k in chain:
            if name in k.late:
                m, dotted = k.late[name]
                return (k, ("late", m, dotted), "late")
            if name in k.methods:
                st, kind = k.methods[name]
                self.touched.add("%s.%s" % (k.q, name))
                return (k, st, kind)
            if name in k.aliases:
                r = self.resolve(k.mod, k.aliases[name])
                if r and r[0] == "function":
                    return (k, self.functions[r[1]], "method")
                if r and r[0] == "member":
                    oc, on = r[1]
                    return self.lookup(oc, on)
                return (k, ("alias", k.mod, k.aliases[name]), "alias")
        return None

    def concrete_boxes(self):
        box = self.cls("discopy.cat.Box")
        return sorted((c for c in self.classes.values() if box in self.mro(c)), key=lambda c: c.q)


if __name__ == "__main__":
    M = Model()
    print(len(M.modules), "modules,", len(M.classes), "classes,", len(M.functions), "functions")
    rz = M.cls("discopy.quantum.gates.Rz")
    print([k.q.replace("discopy.", "") for k in M.mro(rz)])
    mb = M.cls("discopy.monoidal.Box")
    o, st, kind = M.lookup(mb, "__getitem__"); print("monoidal.Box.__getitem__ ->", o)
    o2, st2, _ = M.lookup(mb, "__getitem__", after=o); print("  super() ->", o2)
    rd = M.cls("discopy.rigid.Diagram")
    print("rigid.Diagram.normalize ->", M.lookup(rd, "normalize")[0], M.lookup(rd, "normalize")[1].name)
    print("rigid.Diagram.id ->", M.lookup(rd, "id")[1])
    print("monoidal.Diagram.interchange ->", M.lookup(M.cls("discopy.monoidal.Diagram"), "interchange")[1].name)
    print("Ket.array ->", M.lookup(M.cls("discopy.quantum.gates.Ket"), "array"))
    print("zx: quantum.CU1 ->", M.resolve("discopy.quantum.zx", "quantum.CU1"), "| GatesScalar ->", M.resolve("discopy.quantum.zx", "GatesScalar"))
    print(len(M.concrete_boxes()), "Box subclasses")
