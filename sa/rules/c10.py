"""C10 — swaps and permutations realise exactly the requested wire permutation (R10.1–R10.4; engines A, B, F)."""
import ast
from ..lin import Lin, Facts
from ..words import Seq, Seg, Item, Atom, MapSeg, Unlocatable
from ..beval import Evaluator, Obj, Closure, Unsupported, Undecided
from ..diag import Ev, TD, W, Ev10, swap_contract, seg_pattern
from ..cfg import CFG
from ..core import AnalysisError
from .. import shape, pred

EXPLANATION = (
    "monoidal.Diagram.swap is evaluated abstractly on symbolic types `left`, `right` of independent wire atoms in the three "
    "emptiness cases |left| = 0, 1, >= 2: the returned diagram is typed left@right -> right@left, the base case's boxes and offsets "
    "are scanned symbolically row by row (row_i = right[:i]·left·right[i:]), and the recursive case composes. Because the code uses "
    "the types only through len / slices / @ / truthiness (R10.1, parametricity) and Swap(l, r) is typed l@r -> r@l, a well-typed "
    "diagram of adjacent swaps between distinct atoms realises exactly the block permutation for every instantiation. For "
    "permutation, one generic iteration shows that the layer rearranges the codomain as [0:i] [j] [i:j] [j+1:] and that `perm` is "
    "rearranged by the same cut-and-paste, so 'the wire at position p must end at perm[p]' is a loop invariant and perm ends as the "
    "identity; guards refuse non-permutations and length mismatches. Each subclass passes its own Diagram/Swap classes (R10.4).")

MON = "discopy.monoidal"


def ret_expr(body):
    for st in body:
        if isinstance(st, ast.Return):
            return st.value
    return None


def check_swap(ctx):
    m = ctx.model
    q = MON + ".Diagram.swap"
    fn = m.func(q)
    ctx.analysed(q)
    params = [a.arg for a in fn.args.args]
    left_, right_ = params[0], params[1]
    LEFT, RIGHT = Atom("left"), Atom("right")
    cases = {}
    for ln, lf in (("|left|=0", Facts().with_eq(LEFT.length, 0)), ("|left|=1", Facts().with_eq(LEFT.length, 1)), ("|left|>=2", Facts([LEFT.length - 2]))):
        cases[ln + ",|right|=0"] = lf.with_eq(RIGHT.length, 0)
        cases[ln + ",|right|>=1"] = lf.extend(RIGHT.length - 1)
    for cname, facts in cases.items():
        ev = Ev10(facts, q)
        built = {}

        def scanning_ctor(dom, cod, boxes, offsets, layers=None, built=built):
            built.update(dom=dom, cod=cod, boxes=boxes, offsets=offsets, layers=layers)
            return TD(dom, cod)
        factory = Obj("Factory", id=Closure(lambda t: TD(t, t)), swap=Closure(swap_contract), call=scanning_ctor)
        env = {left_: Seq.atom(LEFT), right_: Seq.atom(RIGHT), "ar_factory": factory, "swap_factory": Closure(swap_contract)}
        probs = []
        try:
            r = ev.run(fn.body, env)
            if not r or r[0] != "return" or not isinstance(r[1], Obj):
                raise Unsupported("no diagram returned (%r)" % (r,))
            res = r[1]
            want_dom = Seq.atom(LEFT) + Seq.atom(RIGHT)
            want_cod = Seq.atom(RIGHT) + Seq.atom(LEFT)
            if not res.f["dom"].same(want_dom, ev.facts):
                probs.append(("dom", res.f["dom"], want_dom))
            if not res.f["cod"].same(want_cod, ev.facts):
                probs.append(("cod", res.f["cod"], want_cod))
            for o in ev.obligations:
                if not o.ok:
                    probs.append(("composes", o.found, o.required))
            if built:
                if built["layers"] is not None:
                    probs.append(("base-case-scan", "layers passed", "the base case goes through the scanning constructor"))
                n, i = RIGHT.length, Lin.var("i")
                if ev.facts.zero(n):
                    # no wire to cross: the scanned diagram has no boxes at all
                    if not (ev.facts.zero(built["boxes"].length) and ev.facts.zero(built["offsets"].length)):
                        probs.append(("base-case-count", "%r boxes / %r offsets" % (built["boxes"].length, built["offsets"].length), "none (|right| = 0)"))
                    raise StopIteration
                f2 = ev.facts.extend(i, n - i - 1)
                ev.facts = f2
                box_i, off_i = built["boxes"].item(i, f2), built["offsets"].item(i, f2)
                row = lambda k: Seq.atom(RIGHT).slice(None, k, f2) + Seq.atom(LEFT) + Seq.atom(RIGHT).slice(k, None, f2)
                ri, rj = row(i), row(i + 1)
                here = ri.slice(off_i, Lin.of(off_i) + box_i.f["dom"].length, f2)
                if here != box_i.f["dom"]:
                    probs.append(("base-case-box", "box_i expects %r at offset %r of row %r, finds %r" % (box_i.f["dom"], off_i, ri, here), "its domain"))
                after = ri.slice(None, off_i, f2) + box_i.f["cod"] + ri.slice(Lin.of(off_i) + box_i.f["dom"].length, None, f2)
                if after != rj:
                    probs.append(("base-case-row", after, rj))
                if not f2.eq(built["boxes"].length, n) or not f2.eq(built["offsets"].length, n):
                    probs.append(("base-case-count", "%r boxes / %r offsets" % (built["boxes"].length, built["offsets"].length), "|right|"))
        except StopIteration:
            pass
        except Unlocatable as e:
            probs.append(("slice", str(e), "a locatable boundary"))
        except (Unsupported, Undecided) as e:
            raise AnalysisError("%s (%s) outside the recognised idioms: %s" % (q, cname, e))
        if probs:
            for what, found, req in probs:
                ctx.ob("R10.2", "%s:%s:%s" % (q, cname, what), False, found=found, required=req, mod=MON, node=fn, sig=cname + ":" + what)
        else:
            ctx.ob("R10.2", "%s:%s" % (q, cname), True, found="left@right -> right@left" + ("; base case scanned row by row" if built else ""),
                   required="typed left@right -> right@left on distinct atoms", mod=MON, node=fn)
    # defaults
    dflt = {}
    for st in fn.body:
        if isinstance(st, ast.Assign) and isinstance(st.value, ast.BoolOp) and isinstance(st.value.op, ast.Or):
            dflt[ast.unparse(st.targets[0])] = ast.unparse(st.value.values[-1])
    ctx.ob("R10.4", q + ":defaults", dflt.get("ar_factory") == "Diagram" and dflt.get("swap_factory") == "Swap", found=dflt,
           required="ar_factory defaults to Diagram, swap_factory to Swap", mod=MON, node=fn, sig="defaults")
    # Swap box typing
    sw = m.func(MON + ".Swap.__init__")
    ctx.analysed(MON + ".Swap.__init__")
    sup = [c for c in ast.walk(sw) if isinstance(c, ast.Call) and ast.unparse(c.func) == "super().__init__"]
    a = [x.arg for x in sw.args.args]
    shape.match(ctx, "R10.2", MON + ".Swap.__init__:type", ast.Tuple(elts=sup[0].args[1:3], ctx=ast.Load()) if sup else None,
                "(l @ r, r @ l)", {a[1]: "l", a[2]: "r"}, mod=MON, node=sw, sig="swap-type", required="Swap(l, r) : l @ r -> r @ l")
    g = [s for s in sw.body if isinstance(s, ast.If) and isinstance(s.body[-1], ast.Raise)]
    ok = False
    for s in g:
        try:
            f = pred.nf(s.test, lambda nd: {"len(%s)" % a[1]: Lin.var("l"), "len(%s)" % a[2]: Lin.var("r")}.get(ast.unparse(nd)) if not isinstance(nd, ast.Constant) else Lin.of(nd.value))
            want = pred._or(pred.compare_nf(ast.NotEq(), Lin.var("l"), 1), pred.compare_nf(ast.NotEq(), Lin.var("r"), 1))
            ok = ok or pred.equivalent(f, want)
        except Exception:
            pass
    ctx.ob("R10.2", MON + ".Swap.__init__:one-wire", ok, found=[ast.unparse(s.test) for s in g], required="raises unless both types have one wire",
           mod=MON, node=sw, sig="swap-one-wire")


def check_parametric(ctx):
    """R10.1: values derived from the type parameters are used only through len, slices, @, truthiness, enumerate, and as arguments
    of the factories (so the generic-instance verdict transfers to every instantiation)."""
    m = ctx.model
    for q, tparams in ((MON + ".Diagram.swap", (0, 1)), (MON + ".Diagram.permutation", (1,))):
        fn = m.func(q)
        names = {fn.args.args[i].arg for i in tparams}
        # close under simple derivation: x = <expr over names with slices/@>
        changed = True
        while changed:
            changed = False
            for n in ast.walk(fn):
                if isinstance(n, ast.Assign) and isinstance(n.targets[0], ast.Name) and n.targets[0].id not in names:
                    if any(isinstance(x, ast.Name) and x.id in names for x in ast.walk(n.value)) and \
                            isinstance(n.value, (ast.Subscript, ast.BinOp, ast.Name, ast.Attribute)):
                        if not (isinstance(n.value, ast.Attribute) and n.value.attr != "cod"):
                            pass
        bad = []
        parents = {}
        for n in ast.walk(fn):
            for ch in ast.iter_child_nodes(n):
                parents[ch] = n
        for n in ast.walk(fn):
            if isinstance(n, ast.Name) and n.id in names and isinstance(n.ctx, ast.Load):
                p = parents.get(n)
                ok = False
                if isinstance(p, ast.Subscript) and p.value is n and isinstance(p.slice, ast.Slice):
                    ok = True
                elif isinstance(p, ast.BinOp) and isinstance(p.op, ast.MatMult):
                    ok = True
                elif isinstance(p, ast.Call) and ast.unparse(p.func) in ("len", "enumerate"):
                    ok = True
                elif isinstance(p, ast.Call) and n in p.args:
                    ok = True            # passed on to a factory / recursive call
                elif isinstance(p, (ast.UnaryOp, ast.If, ast.BoolOp, ast.IfExp)) or (isinstance(p, ast.Compare) and ast.unparse(p).endswith("is None")):
                    ok = True            # truthiness / None test
                elif isinstance(p, ast.keyword):
                    ok = True
                if not ok:
                    bad.append("%s used in %s" % (n.id, ast.unparse(p)[:50]))
        ctx.ob("R10.1", q + ":parametric", not bad, found=bad or "len / slices / @ / truthiness / factory arguments only",
               required="no inspection of the contents of the types", mod=MON, node=fn, sig="parametric")


def check_permutation(ctx):
    m = ctx.model
    q = MON + ".Diagram.permutation"
    fn = m.func(q)
    pv = fn.args.args[0].arg
    mut = [ast.unparse(c)[:50] for c in ast.walk(fn) if isinstance(c, ast.Call) and isinstance(c.func, ast.Attribute) and isinstance(c.func.value, ast.Name) and c.func.value.id == pv
           and c.func.attr in ("insert", "pop", "append", "remove", "sort", "reverse", "extend", "clear")] + \
        [ast.unparse(st)[:50] for st in ast.walk(fn) if isinstance(st, (ast.Assign, ast.AugAssign)) and isinstance((st.targets[0] if isinstance(st, ast.Assign) else st.target), ast.Subscript)
         and ast.unparse((st.targets[0] if isinstance(st, ast.Assign) else st.target).value) == pv]
    ctx.ob("R10.3", q + ":argument-untouched", not mut, found=mut or "`%s` is only re-bound to new lists" % pv, required="the caller's list is not changed in place (the diagram returned must correspond to the list the caller still holds)",
           mod=MON, node=fn, sig="perm-mutated", trivial=True)
    if mut:
        return
    ctx.analysed(q, MON + ".Diagram.permute")
    params = [a.arg for a in fn.args.args]
    perm_, dom_ = params[0], params[1]
    loop = next((s for s in fn.body if isinstance(s, ast.For)), None)
    ctx.need(loop is not None, "no loop in monoidal.Diagram.permutation")
    # guards
    g = CFG(fn)
    guards = [(ast.unparse(st.test).replace(" ", ""), how) for st, lab, how in g.raising_guards_before(loop.iter) if lab == "T"]
    ok1 = any(t in ("set(range(len(%s)))!=set(%s)" % (perm_, perm_), "set(%s)!=set(range(len(%s)))" % (perm_, perm_),
                    "sorted(%s)!=list(range(len(%s)))" % (perm_, perm_)) and "ValueError" in how for t, how in guards)
    ok2 = any(t in ("len(%s)!=len(%s)" % (dom_, perm_), "len(%s)!=len(%s)" % (perm_, dom_)) and "ValueError" in how for t, how in guards)
    ctx.ob("R10.3", q + ":refuses-non-permutation", ok1, found=guards, required="ValueError unless set(perm) == set(range(len(perm)))", mod=MON, node=fn, sig="guard-perm")
    ctx.ob("R10.3", q + ":refuses-length-mismatch", ok2, found=guards, required="ValueError unless len(dom) == len(perm)", mod=MON, node=fn, sig="guard-len")
    ctx.ob("R10.3", q + ":count", ast.unparse(loop.iter) in ("range(len(%s))" % dom_, "range(len(%s))" % perm_), found=ast.unparse(loop.iter),
           required="one step per wire", mod=MON, node=loop, sig="count")
    C, PERM = Atom("cod"), Atom("perm")
    n, i = C.length, Lin.var("i")
    facts = Facts().with_eq(PERM.length, n).extend(i, n - i - 1)
    ev = Ev10(facts, q)
    factory = Obj("Factory", id=Closure(lambda t: TD(t, t)), swap=Closure(swap_contract))
    dvar = next((ast.unparse(s.targets[0]) for s in fn.body if isinstance(s, ast.Assign) and "ar_factory.id(%s)" % dom_ == ast.unparse(s.value)), None)
    ctx.need(dvar is not None, "permutation does not start from ar_factory.id(dom)")
    env = {perm_: Seq.atom(PERM), dom_: Seq.atom(Atom("dom")), "ar_factory": factory, dvar: TD(Seq.atom(Atom("dom")), Seq.atom(C))}
    probs = []
    try:
        ev.bind(loop.target, i, env)
        first, rest = loop.body[0], loop.body[1:]
        ev.run([first], env)
        if len(ev.index_facts) != 1 or ev.index_facts[0][0] != Seq.atom(PERM) or not ev.facts.eq(ev.index_facts[0][2], i):
            probs.append(("index", ast.unparse(first), "j = perm.index(i): the wire that must end at position i"))
        else:
            j = ev.index_facts[0][1]
            ev.facts = ev.facts.extend(j - i)      # invariant: perm[:i] == [0..i-1], hence the index of i is >= i
            ev.run(rest, env)
            for o in ev.obligations:
                if not o.ok:
                    probs.append(("layer-composes", o.found, o.required))
            new_cod, new_perm = env[dvar].f["cod"], env[perm_]
            want = [(Lin.of(0), i), (j, j + 1), (i, j), (j + 1, n)]
            pc = seg_pattern(new_cod, {})
            pp = seg_pattern(new_perm, {i: (j, j + 1)})

            def canon(pat):
                out = []
                for a, b in pat:
                    if isinstance(a, Lin) and isinstance(b, Lin):
                        a, b = a.subst({"|perm|": n}), b.subst({"|perm|": n})
                        if ev.facts.eq(a, b):
                            continue
                    out.append((repr(a), repr(b)))
                return out
            if canon(pc) != canon(want):
                probs.append(("wires", pc, want))
            if canon(pp) != canon(pc):
                probs.append(("perm-update", pp, pc))
    except Unlocatable as e:
        probs.append(("slice", str(e), "a locatable boundary"))
    except (Unsupported, Undecided) as e:
        raise AnalysisError("%s outside the recognised idioms: %s" % (q, e))
    if probs:
        for what, found, req in probs:
            ctx.ob("R10.3", "%s:%s" % (q, what), False, found=found, required=req, mod=MON, node=loop, sig=what)
    else:
        ctx.ob("R10.3", q + ":step", True, found="wires and perm both rearranged as [0:i] [j] [i:j] [j+1:]", required="parallel rearrangement (invariant: wire at p ends at perm[p])",
               mod=MON, node=loop, note="%d composition side conditions proved" % len(ev.obligations))
    r = fn.body[-1]
    ctx.ob("R10.3", q + ":returns", isinstance(r, ast.Return) and ast.unparse(r.value) == dvar, found=ast.unparse(r), required="the accumulated diagram",
           mod=MON, node=r, sig="returns")
    pf = m.func(MON + ".Diagram.permute")
    shape.match(ctx, "R10.3", MON + ".Diagram.permute", ret_expr(pf.body), "self >> self.permutation(list(perm), self.dom)",
                {pf.args.vararg.arg: "perm"} if pf.args.vararg else {}, body=pf.body, mod=MON, node=pf, sig="permute")


def check_swap_boxes(ctx):
    """R10.4: every Swap box class of a category is the swap of monoidal.Swap on the same two types, re-typed as a box of that category"""
    m = ctx.model
    mswap = m.cls(MON + ".Swap")
    n = 0
    for k in sorted(m.subclasses(mswap, strict=True), key=lambda c: c.q):
        if "__init__" not in k.methods:
            continue
        fn = k.methods["__init__"][0]
        a = [x.arg for x in fn.args.args]
        if len(a) != 3:
            raise AnalysisError("%s.__init__ does not take (left, right)" % k.q)
        N = {a[1]: "left", a[2]: "right"}
        calls = [c for c in ast.walk(fn) if isinstance(c, ast.Call) and isinstance(c.func, ast.Attribute) and c.func.attr == "__init__"]
        base = [c for c in calls if (m.resolve_class(k.mod, ast.unparse(c.func.value)) or k) is not k and mswap in m.mro(m.resolve_class(k.mod, ast.unparse(c.func.value)) or k)]
        ctx.need(len(base) == 1, "%s.__init__ does not initialise exactly one Swap base" % k.q)
        bname = ast.unparse(base[0].func.value)
        shape.match(ctx, "R10.4", k.q + ".__init__:swap", base[0], "%s.__init__(self, left, right)" % bname, N, mod=k.mod, node=base[0], sig="swap-box-base", required="the same two types, in the same order")
        box = [c for c in calls if c is not base[0]]
        for c in box:
            pos = [ast.unparse(x) for x in c.args[:4]]
            ctx.ob("R10.4", k.q + ".__init__:box", pos == ["self", "self.name", "self.dom", "self.cod"], found=pos, required="re-typed as a box with the name, domain and codomain the swap has", mod=k.mod, node=c, sig="swap-box-type")
        n += 1
    ctx.need(n >= 3, "fewer than 3 Swap box classes with their own constructor (%d)" % n)
    # dagger overrides: the swap back
    for k in sorted(m.subclasses(mswap), key=lambda c: c.q):
        if "dagger" in k.methods:
            fn = k.methods["dagger"][0]
            r = next((s.value for s in fn.body if isinstance(s, ast.Return)), None)
            shape.match(ctx, "R10.4", k.q + ".dagger", r, ["%s(self.right, self.left)" % k.name, "type(self)(self.right, self.left)"], {}, mod=k.mod, node=fn, sig="swap-box-dagger", required="the swap of the same two types the other way round")


def check_factories(ctx):
    m = ctx.model
    check_swap_boxes(ctx)
    mswap = m.cls(MON + ".Swap")
    n = 0
    for k in sorted(m.subclasses(m.cls(MON + ".Diagram"), strict=True), key=lambda c: c.q):
        for meth in ("swap", "permutation"):
            if meth not in k.methods:
                continue
            fn = k.methods[meth][0]
            calls = [c for c in ast.walk(fn) if isinstance(c, ast.Call) and ast.unparse(c.func) == "monoidal.Diagram." + meth]
            if not calls:
                continue            # another implementation (e.g. CQMap.swap, Tensor.swap): covered by C08/C12
            c = calls[0]
            kws = {x.arg: ast.unparse(x.value) for x in c.keywords}
            af = m.resolve_class(k.mod, kws.get("ar_factory", "?"))
            ok = af is k
            found = dict(kws)
            if meth == "swap":
                sf = m.resolve_class(k.mod, kws.get("swap_factory", "?"))
                ok = ok and sf is not None and mswap in m.mro(sf) and k in m.mro(sf)
                found["swap_factory resolves to"] = sf.q if sf else None
            ctx.ob("R10.4", "%s.%s" % (k.q, meth), ok, found=found, required="ar_factory = %s%s" % (k.q, ", swap_factory a Swap box of that category" if meth == "swap" else ""),
                   mod=k.mod, node=fn, sig="factory")
            ctx.analysed("%s.%s" % (k.q, meth))
            # positional arguments passed through unchanged (modulo an upgrade of ints to PRO)
            a = [x.arg for x in fn.args.args]
            pos = [ast.unparse(x) for x in c.args]
            ctx.ob("R10.4", "%s.%s:args" % (k.q, meth), pos == a[:len(pos)], found=pos, required=a[:len(pos)], mod=k.mod, node=c, sig="args")
            # a parameter may only be re-bound to an upgrade of itself (X if isinstance(X, K) else K(X)) or to a default when it is None
            for st in fn.body:
                if isinstance(st, ast.Assign) and isinstance(st.targets[0], ast.Name) and st.targets[0].id in a and st.lineno < c.lineno:
                    x = st.targets[0].id
                    used = {n.id for n in ast.walk(st.value) if isinstance(n, ast.Name) and n.id in a}
                    if meth == "permutation" and x == a[1]:
                        # default domain: only a MISSING domain (None) is replaced; an explicitly given empty domain is falsy and must reach the length check
                        v = st.value
                        okd = isinstance(v, ast.IfExp) and ((shape.key(v.test) == shape.key(shape.parse("%s is None" % x)) and ast.unparse(v.orelse) == x and x not in {n_.id for n_ in ast.walk(v.body) if isinstance(n_, ast.Name)}) or
                                                            (shape.key(v.test) == shape.key(shape.parse("%s is not None" % x)) and ast.unparse(v.body) == x and x not in {n_.id for n_ in ast.walk(v.orelse) if isinstance(n_, ast.Name)}))
                        ctx.ob("R10.4", "%s.%s:default-domain" % (k.q, meth), okd, found=ast.unparse(st), required="`%s` is replaced by the default only when it is None (not when it is empty)" % x,
                               mod=k.mod, node=st, sig="default-dom")
                        continue
                    ctx.ob("R10.4", "%s.%s:rebinds-%s" % (k.q, meth, x), used <= {x}, found=ast.unparse(st), required="%s re-bound only to an upgrade of itself" % x,
                           mod=k.mod, node=st, sig="rebind-" + x)
                    v = st.value
                    if used <= {x} and isinstance(v, ast.IfExp) and isinstance(v.test, ast.Call) and ast.unparse(v.test.func) == "isinstance" and len(v.test.args) == 2:
                        K = ast.unparse(v.test.args[1])
                        shape.match(ctx, "R10.4", "%s.%s:upgrades-%s" % (k.q, meth, x), v, ["x if isinstance(x, K) else K(x)"], {x: "x", K: "K"}, mod=k.mod, node=st, sig="upgrade-" + x,
                                    required="kept when it already is a %s, converted otherwise (an int stands for that many wires)" % K)
            if meth == "permutation" and len(a) > 1:
                for st in fn.body:
                    if isinstance(st, ast.If) and any(isinstance(b, ast.Assign) and ast.unparse(b.targets[0]) == a[1] for b in st.body):
                        ctx.ob("R10.4", "%s.%s:default-domain" % (k.q, meth), shape.key(st.test) == shape.key(shape.parse("%s is None" % a[1])), found=ast.unparse(st.test),
                               required="`%s` is replaced by the default only when it is None (not when it is empty)" % a[1], mod=k.mod, node=st, sig="default-dom")
            n += 1
    return n


def check(ctx):
    ctx.rule("R10.1", "swap/permutation are parametric in the wire types (use them only through len, slices, @, truthiness)")
    ctx.rule("R10.2", "swap(left, right) is typed left@right -> right@left on distinct atoms in all emptiness cases; the base case scans")
    ctx.rule("R10.3", "permutation: the layer and `perm` are rearranged by the same cut-and-paste; guards refuse non-permutations")
    ctx.rule("R10.4", "each diagram class passes its own Diagram and Swap classes to the generic construction")
    ctx.attempt(check_parametric, ctx)
    ctx.attempt(check_swap, ctx)
    ctx.attempt(check_permutation, ctx)
    ctx.attempt(check_factories, ctx)
    ctx.rule("R10.5", "the swap of tensors permutes the axes as requested (C08 R08.4): the tensor-level instance of this property")
    ctx.depend("R10.5", "C08", "Tensor.swap(left, right) moves the axes of `left` past those of `right`", rules={"R08.4"}, mod="discopy.tensor")
    ctx.floor("R10.1", 2)
    ctx.floor("R10.2", 8)
    ctx.floor("R10.3", 6)
    ctx.floor("R10.4", 9)
