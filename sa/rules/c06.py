"""C06 — monoidal normal form: strategy conformance, legal steps, cycle check (R06.1–R06.4; engines A, B, F)."""
import ast
from ..lin import Lin, Facts
from ..core import AnalysisError, Ctx
from ..cfg import CFG
from .. import pred, shape
from .c01 import own_nodes
from .c07 import lin_env
from . import c05

EXPLANATION = (
    "rewriting.normalize / normal_form / foliate are analysed from source. Decided: (R06.1) for each value of `left`, the trigger "
    "test of normalize has the same linear normal form as the exchange test that interchange(i, i+1, left) tries first for that "
    "flag, so a run applies interchanges in one direction only — the hypothesis under which Delpeuch & Vicary (arXiv:1804.07832) "
    "prove termination and confluence on connected diagrams; (R06.2) every value yielded by normalize / foliate is defined by "
    ".interchange(k, k±1) applied to the previous value (def-use), the loop stops only after a full pass without moves, so the "
    "result is a fixed point of the trigger; (R06.3) in normal_form the membership test on the cache dominates accepting a step and "
    "raises NotImplementedError, and every accepted step is added to the cache; (R06.4) is_right_of uses the two interval predicates "
    "of C05, flatten is the identity-on-boxes functor, foliation rebuilds through the scanning constructor. Not decided: "
    "termination, idempotence and canonicity themselves (consequences of the cited theorem given C05 + R06.1-3); optimality of foliate.")

RW, MON = "discopy.rewriting", "discopy.monoidal"


def check_normalize(ctx):
    m = ctx.model
    q = RW + ".normalize"
    fn = m.func(q)
    ctx.analysed(q)
    self_, flag = fn.args.args[0].arg, fn.args.args[1].arg
    dflt = fn.args.defaults[-1] if fn.args.defaults else None
    ctx.ob("R06.1", q + ":default", isinstance(dflt, ast.Constant) and dflt.value is False, found=ast.unparse(dflt) if dflt else None,
           required="left=False by default (same default as interchange)", mod=RW, node=fn, sig="default", trivial=True)
    loop = next((s for s in ast.walk(fn) if isinstance(s, ast.For)), None)
    ctx.need(loop is not None and isinstance(loop.target, ast.Name), "no pass loop in normalize")
    i_ = loop.target.id
    cur = None
    binds = {}
    for s in loop.body:
        if isinstance(s, ast.Assign) and isinstance(s.targets[0], ast.Tuple) and isinstance(s.value, ast.Tuple):
            for t, v in zip(s.targets[0].elts, s.value.elts):
                binds[ast.unparse(t)] = v
        elif isinstance(s, ast.Assign) and len(s.targets) == 1 and isinstance(s.targets[0], ast.Name):
            binds[s.targets[0].id] = s.value
    # identify roles: the names bound to <d>.boxes[i], <d>.boxes[i+1], <d>.offsets[i], <d>.offsets[i+1]
    roles = {}
    for name, v in binds.items():
        if isinstance(v, ast.Subscript) and isinstance(v.value, ast.Attribute) and isinstance(v.value.value, ast.Name):
            cur = v.value.value.id
            idx = ast.unparse(v.slice)
            k = 0 if idx == i_ else 1 if idx == "%s + 1" % i_ else None
            if k is not None and v.value.attr in ("boxes", "offsets"):
                roles[name] = (v.value.attr, k)
    ctx.need(len(roles) == 4 and cur is not None, "normalize does not read boxes/offsets at i and i + 1 of the current diagram (%s)" % roles)
    bases = sorted({v.value.value.id for v in binds.values() if isinstance(v, ast.Subscript) and isinstance(v.value, ast.Attribute) and isinstance(v.value.value, ast.Name)})
    recv = [ast.unparse(c.func.value) for c in ast.walk(loop) if isinstance(c, ast.Call) and isinstance(c.func, ast.Attribute) and c.func.attr == "interchange"]
    ctx.ob("R06.2", q + ":reads-current", len(bases) == 1 and recv == bases, found="pair read from %s, step taken on %s" % (bases, recv),
           required="the adjacent pair is read from the current diagram (the one the step is applied to)", mod=RW, node=loop, sig="reads-current")
    ctx.ob("R06.2", q + ":range", ast.unparse(loop.iter) == "range(len(%s) - 1)" % cur, found=ast.unparse(loop.iter), required="every adjacent pair (i, i+1) of the current diagram",
           mod=RW, node=loop, sig="range")
    trig = next((s for s in loop.body if isinstance(s, ast.If)), None)
    ctx.need(trig is not None, "no trigger test in normalize")
    off0, off1 = Lin.var("off0"), Lin.var("off1")
    mp = {}
    for name, (attr, k) in roles.items():
        if attr == "offsets":
            mp[name] = off0 if k == 0 else off1
        else:
            mp["len(%s.dom)" % name] = Lin.var("|dom%d|" % k)
            mp["len(%s.cod)" % name] = Lin.var("|cod%d|" % k)
    spec = {True: pred.atom_ge(off1 - off0 - Lin.var("|cod0|")), False: pred.atom_ge(off0 - off1 - Lin.var("|dom1|"))}
    # which configuration does interchange try first for each flag?  (from C05's analysis of the chain)
    sub = Ctx("C05", m, ctx.tier)
    ifn = m.func(c05.FN)
    try:
        c05.check(sub)
    except AnalysisError:
        bad = [o for o in sub.obs if not o.ok]
        if bad:         # what C05 already decided against interchange stands, even if the rest of it could not be analysed
            ctx.ob("R06.2", c05.FN + ":step-primitive", False, found=["%s %s" % (o.rule, o.construct) for o in bad][:4], required="the only step primitive, interchange, is a legal single exchange (C05)",
                   mod=RW, node=ifn, sig="c05:" + ",".join(sorted({o.rule for o in bad})))
        raise
    iflag = ifn.args.args[3].arg
    bad = [o for o in sub.obs if not o.ok]
    if not bad and (sub.broken or sub.floor_failures):            # C05 could not be decided: neither can this obligation (not a violation)
        raise AnalysisError("dependency C05 of C06 could not be analysed: %s" % (sub.broken or sub.floor_failures[0]))
    ctx.ob("R06.2", c05.FN + ":step-primitive", not bad, found=["%s %s" % (o.rule, o.construct) for o in bad][:4] or "all C05 obligations discharged",
           required="the only step primitive, interchange, is a legal single exchange (rules R05.1-R05.4)", mod=RW, node=ifn,
           sig="c05:" + ",".join(sorted({o.rule for o in bad})))
    first = getattr(sub, "first_cfg", {})
    ctx.ob("R06.1", q + ":interchange-first-branch", first == {True: "L", False: "R"}, found=first,
           required="interchange tries the left exchange first iff left=True", mod=RW, node=ifn, sig="first-branch")
    for fv in (True, False):
        base = lin_env(mp)

        def ev(nd, fv=fv):
            if isinstance(nd, ast.Name) and nd.id == flag:
                return fv
            return base(nd)
        try:
            f = pred.nf(trig.test, ev)
        except Exception as e:
            raise AnalysisError("trigger test of normalize outside the recognised idioms: %s" % e)
        ctx.ob("R06.1", "%s:trigger[left=%s]" % (q, fv), pred.equivalent(f, spec[fv]), found=pred.show(f), required=pred.show(spec[fv]) +
               ("  (box0 left of box1)" if fv else "  (box0 right of box1)"), mod=RW, node=trig, sig="trigger-%s" % fv)
    # R06.2: the step
    calls = [c for c in own_nodes(trig) if isinstance(c, ast.Call) and isinstance(c.func, ast.Attribute) and c.func.attr == "interchange"]
    ok = len(calls) == 1
    found = [ast.unparse(c) for c in calls]
    if ok:
        c = calls[0]
        args = [ast.unparse(a) for a in c.args]
        kws = {k.arg: ast.unparse(k.value) for k in c.keywords}
        if len(args) > 2:
            kws[iflag] = args[2]
        asg = [s for s in trig.body if isinstance(s, ast.Assign) and s.value is c]
        ok = args[:2] == [i_, "%s + 1" % i_] and kws.get(iflag) == flag and ast.unparse(c.func.value) == cur and bool(asg) and ast.unparse(asg[0].targets[0]) == cur
    ctx.ob("R06.2", q + ":step", ok, found=found, required="%s = %s.interchange(i, i + 1, left=left)" % (cur, cur), mod=RW, node=trig, sig="step")
    ys = [n for n in own_nodes(fn) if isinstance(n, ast.Yield)]
    oky = len(ys) == 1 and ast.unparse(ys[0].value) == cur and any(x is ys[0] for x in ast.walk(trig)) and bool(calls) and calls[0].lineno < ys[0].lineno
    ctx.ob("R06.2", q + ":yields", oky, found=[ast.unparse(y) for y in ys], required="each step is yielded right after it is taken; nothing else is yielded",
           mod=RW, node=fn, sig="yields")
    init = [s for s in fn.body if isinstance(s, ast.Assign) and ast.unparse(s.targets[0]) == cur]
    ctx.ob("R06.2", q + ":starts-from-self", bool(init) and ast.unparse(init[0].value) == self_, found=[ast.unparse(s) for s in init], required="%s = self" % cur,
           mod=RW, node=fn, sig="start")
    # fixed point: loop leaves only after a pass without moves
    w = next((s for s in fn.body if isinstance(s, ast.While)), None)
    ctx.need(w is not None, "no outer loop in normalize")
    txt = ast.unparse(w)
    fl = next((ast.unparse(s.targets[0]) for s in w.body if isinstance(s, ast.Assign) and isinstance(s.value, ast.Constant) and s.value.value is True), None)
    okf = fl is not None and isinstance(w.test, ast.Constant) and w.test.value is True and \
        any(isinstance(s, ast.Assign) and ast.unparse(s) == "%s = False" % fl for s in trig.body) and \
        any(isinstance(s, ast.If) and ast.unparse(s.test) == fl and isinstance(s.body[0], ast.Break) for s in w.body) and \
        sum(isinstance(x, ast.Break) for x in ast.walk(w)) == 1
    if not okf and isinstance(w.test, ast.Name):
        # the same loop written with the flag as its condition:  moved = True ; while moved: moved = False ... (trigger) moved = True
        f2 = w.test.id
        okf = any(isinstance(s, ast.Assign) and ast.unparse(s) == "%s = True" % f2 and s.lineno < w.lineno for s in fn.body) and \
            any(isinstance(s, ast.Assign) and ast.unparse(s) == "%s = False" % f2 for s in w.body) and \
            any(isinstance(s, ast.Assign) and ast.unparse(s) == "%s = True" % f2 for s in trig.body) and \
            not any(isinstance(x, ast.Break) for x in ast.walk(w)) and \
            sum(1 for x in ast.walk(w) if isinstance(x, ast.Name) and x.id == f2 and isinstance(x.ctx, ast.Store)) == 2
    ctx.ob("R06.2", q + ":fixed-point", okf, found=txt[:200], required="the loop is left only after a full pass in which the trigger never held", mod=RW, node=w,
           sig="fixed-point")


def check_normal_form(ctx):
    m = ctx.model
    q = RW + ".normal_form"
    fn = m.func(q)
    ctx.analysed(q)
    self_ = fn.args.args[0].arg
    loop = next((s for s in fn.body if isinstance(s, ast.For)), None)
    ctx.need(loop is not None and isinstance(loop.target, ast.Name), "no loop over normaliser steps in normal_form")
    step = loop.target.id
    g = CFG(fn)
    acc = [s for s in loop.body if isinstance(s, ast.Assign) and ast.unparse(s.value) == step]
    ctx.need(len(acc) == 1, "normal_form does not accept the step into a variable")
    cur = ast.unparse(acc[0].targets[0])
    guards = g.raising_guards_before(acc[0].value)
    cache = None
    for st, lab, how in guards:
        t = st.test
        if lab == "T" and "NotImplementedError" in how and isinstance(t, ast.Compare) and len(t.ops) == 1 and isinstance(t.ops[0], ast.In) \
                and ast.unparse(t.left) == step:
            cache = ast.unparse(t.comparators[0])
    ctx.ob("R06.3", q + ":cycle-check-before-accept", cache is not None, found=[(ast.unparse(st.test), how) for st, lab, how in guards],
           required="`if step in cache: raise NotImplementedError` dominates accepting the step", mod=RW, node=loop, sig="cycle-check")
    adds = [s for s in loop.body if isinstance(s, ast.Expr) and isinstance(s.value, ast.Call) and cache is not None
            and ast.unparse(s.value.func) == cache + ".add" and ast.unparse(s.value.args[0]) in (cur, step)]
    ctx.ob("R06.3", q + ":cache-extended", len(adds) == 1 and adds[0].lineno > acc[0].lineno - 1 and
           not any(isinstance(s, ast.If) and any(x is adds[0] for x in ast.walk(s)) for s in loop.body), found=[ast.unparse(s) for s in adds],
           required="every accepted step is added to the cache (unconditionally, after the membership test)", mod=RW, node=loop, sig="cache-add")
    if cache is not None:
        init = [s for s in own_nodes(fn) if isinstance(s, ast.Assign) and cache in [ast.unparse(x) for t in s.targets for x in (t.elts if isinstance(t, ast.Tuple) else [t])]]
        ok = False
        for s in init:
            if isinstance(s.targets[0], ast.Tuple):
                names = [ast.unparse(x) for x in s.targets[0].elts]
                vals = [ast.unparse(x) for x in s.value.elts]
                ok = ok or (vals[names.index(cache)] == "set()" and vals[names.index(cur)] == self_ if cur in names else vals[names.index(cache)] == "set()")
            else:
                ok = ok or ast.unparse(s.value) == "set()"
        ctx.ob("R06.3", q + ":cache-fresh", ok, found=[ast.unparse(s) for s in init], required="the cache starts empty for every call (a set)", mod=RW, node=fn, sig="cache-fresh")
    ret = fn.body[-1]
    ctx.ob("R06.3", q + ":returns-last", isinstance(ret, ast.Return) and ast.unparse(ret.value) == cur, found=ast.unparse(ret), required="the last accepted step (or self)",
           mod=RW, node=ret, sig="returns")
    shape.match(ctx, "R06.3", q + ":normaliser", loop.iter, ["(normalizer or Diagram.normalize)(diagram, **params)", "(normalizer or Diagram.normalize)(self, **params)"],
                {cur: "diagram", self_: "self"}, mod=RW, node=loop, sig="normaliser")
    look = m.lookup(m.cls(MON + ".Diagram"), "normalize")
    ctx.ob("R06.3", MON + ".Diagram.normalize", look is not None and getattr(look[1], "name", None) == "normalize", found=getattr(look[1], "name", None),
           required="monoidal.Diagram.normalize is rewriting.normalize", mod=MON, node=look[0].node if look else None, sig="binding", trivial=True)


def check_foliate(ctx):
    m = ctx.model
    q = RW + ".foliate"
    fn = m.func(q)
    ctx.analysed(q)
    iro = next((n for n in ast.walk(fn) if isinstance(n, ast.FunctionDef) and n.name == "is_right_of"), None)
    mis = next((n for n in ast.walk(fn) if isinstance(n, ast.FunctionDef) and n.name == "move_in_slice"), None)
    ctx.need(iro is not None and mis is not None, "inner functions of foliate not found")
    # is_right_of: predicates on (last, last+1)
    last, dg = iro.args.args[0].arg, iro.args.args[1].arg
    roles = {}
    for s in iro.body:
        pairs = []
        if isinstance(s, ast.Assign) and isinstance(s.targets[0], ast.Tuple) and isinstance(s.value, ast.Tuple):
            pairs = list(zip(s.targets[0].elts, s.value.elts))
        elif isinstance(s, ast.Assign) and len(s.targets) == 1 and isinstance(s.targets[0], ast.Name):
            pairs = [(s.targets[0], s.value)]
        if pairs:
            for t, v in pairs:
                if isinstance(v, ast.Subscript) and ast.unparse(v.value) in (dg + ".offsets", dg + ".boxes"):
                    k = 0 if ast.unparse(v.slice) == last else 1 if ast.unparse(v.slice) == last + " + 1" else None
                    roles[ast.unparse(t)] = (ast.unparse(v.value).split(".")[1], k)
    off0, off1 = Lin.var("off0"), Lin.var("off1")
    mp = {}
    for name, (attr, k) in roles.items():
        if k is None:
            continue
        if attr == "offsets":
            mp[name] = off0 if k == 0 else off1
        else:
            mp["len(%s.dom)" % name] = Lin.var("|dom%d|" % k)
            mp["len(%s.cod)" % name] = Lin.var("|cod%d|" % k)
    ifs = [s for s in iro.body if isinstance(s, ast.If)]
    got = []
    for s in ifs:
        try:
            got.append((pred.nf(s.test, lin_env(mp)), ast.unparse(s.body[-1])))
        except Exception as e:
            raise AnalysisError("is_right_of outside the recognised idioms: %s" % e)
    want = [(pred.atom_ge(off1 - off0 - Lin.var("|cod0|")), "return True"), (pred.atom_ge(off0 - off1 - Lin.var("|dom1|")), "return False")]
    ok = len(got) == 2 and all(pred.equivalent(a[0], b[0]) and a[1] == b[1] for a, b in zip(got, want)) and ast.unparse(iro.body[-1]) == "return None"
    ctx.ob("R06.4", q + ".is_right_of", ok, found=[(pred.show(f), r) for f, r in got], required="off1 >= off0+|cod0| -> True; off0 >= off1+|dom1| -> False; else None",
           mod=RW, node=iro, sig="is-right-of")
    # move_in_slice: every diagram value comes from .interchange on the previous value, the parameter, or the recursive call
    bad = []
    for s in own_nodes(mis):
        if isinstance(s, ast.Assign) and isinstance(s.targets[0], ast.Name) and s.targets[0].id == "result":
            v = s.value
            ok = (isinstance(v, ast.Name) and v.id == mis.args.args[3].arg) or (
                isinstance(v, ast.Call) and isinstance(v.func, ast.Attribute) and v.func.attr == "interchange"
                and ast.unparse(v.func.value) in ("result", mis.args.args[3].arg))
            if not ok:
                bad.append(ast.unparse(s))
    rets = [ast.unparse(s.value) if s.value else "None" for s in own_nodes(mis) if isinstance(s, ast.Return)]
    okr = all(r in ("None", "result") or r.startswith("move_in_slice(") for r in rets)
    ctx.ob("R06.2", q + ".move_in_slice:steps", not bad and okr, found=bad or rets, required="results are obtained by interchange only", mod=RW, node=mis, sig="mis-steps")
    # adjacent legality: interchange(last + 1, last) only after is_right_of says False (box1 left of box0 => disconnected)
    exc = [h for t in ast.walk(mis) if isinstance(t, ast.Try) for h in t.handlers]
    ctx.ob("R06.2", q + ".move_in_slice:refusals", any("InterchangerError" in ast.unparse(h.type) for h in exc if h.type is not None) and
           all(ast.unparse(h.body[-1]) == "return None" for h in exc), found=[ast.unparse(h)[:60] for h in exc],
           required="a refused interchange means the box cannot join the slice (None), never a partial result", mod=RW, node=mis, sig="mis-refusals")
    # foliate body: diagram only replaced by results of move_in_slice; yields diagram right after
    top_assign = [s for s in own_nodes(fn) if isinstance(s, ast.Assign) and "diagram" in [ast.unparse(x) for t in s.targets for x in (t.elts if isinstance(t, ast.Tuple) else [t])]
                  and not any(s in list(own_nodes(f)) for f in (iro, mis))]
    srcs = []
    for s in top_assign:
        if isinstance(s.targets[0], ast.Tuple):
            names = [ast.unparse(x) for x in s.targets[0].elts]
            srcs.append(ast.unparse(s.value.elts[names.index("diagram")]))
        else:
            srcs.append(ast.unparse(s.value))
    okd = set(srcs) <= {fn.args.args[0].arg, "result"} and any(
        isinstance(s, ast.Assign) and ast.unparse(s) == "result = move_in_slice(start, last, k, diagram)" for s in own_nodes(fn))
    ctx.ob("R06.2", q + ":steps", okd, found=srcs, required="the current diagram is only replaced by results of move_in_slice", mod=RW, node=fn, sig="foliate-steps")
    # flatten / foliation
    fl = m.func(RW + ".flatten")
    ctx.analysed(RW + ".flatten", RW + ".foliation")
    r = next((s.value for s in fl.body if isinstance(s, ast.Return)), None)
    fc = next((c for c in ast.walk(r) if isinstance(c, ast.Call) and ast.unparse(c.func) == "Functor"), None) if r is not None else None
    ctx.need(fc is not None and len(fc.args) == 2, "flatten does not build a Functor(ob, ar)")
    ident = [isinstance(a, ast.Lambda) and len(a.args.args) == 1 and isinstance(a.body, ast.Name) and a.body.id == a.args.args[0].arg for a in fc.args]
    ctx.ob("R06.4", RW + ".flatten:identity-functor", all(ident), found=[ast.unparse(a) for a in fc.args], required="identity on objects and on boxes",
           mod=RW, node=fl, sig="flatten-identity")
    self_ = fl.args.args[0].arg
    outer = isinstance(r, ast.Call) and ast.unparse(r.func) == self_ + ".upgrade" and isinstance(r.args[0], ast.Call) and r.args[0].func is fc \
        and [ast.unparse(a) for a in r.args[0].args] == [self_]
    ctx.ob("R06.4", RW + ".flatten:applied-to-self", outer, found=ast.unparse(r), required="self.upgrade(Functor(...)(self))", mod=RW, node=fl, sig="flatten-self")
    fo = m.func(RW + ".foliation")
    r = next((s.value for s in fo.body if isinstance(s, ast.Return)), None)
    dc = next((c for c in ast.walk(r) if isinstance(c, ast.Call) and ast.unparse(c.func) == "Diagram"), None) if r is not None else None
    ctx.need(dc is not None, "foliation does not build a Diagram")
    so = fo.args.args[0].arg
    a = [ast.unparse(x) for x in dc.args]
    rescans = len(dc.args) == 4 and not any(k.arg == "layers" and not (isinstance(k.value, ast.Constant) and k.value.value is None) for k in dc.keywords)
    ctx.ob("R06.4", RW + ".foliation:re-scans", rescans, found=ast.unparse(dc), required="built through the scanning constructor (no layers argument)", mod=RW,
           node=fo, sig="foliation-rescans")
    ctx.ob("R06.4", RW + ".foliation:types", a[:2] == [so + ".dom", so + ".cod"] and (len(a) < 4 or a[3] == "len(%s) * [0]" % a[2]), found=a,
           required="(self.dom, self.cod, slices, len(slices) * [0])", mod=RW, node=fo, sig="foliation-types")


def check(ctx):
    ctx.rule("R06.1", "for each `left`, the trigger of normalize equals the exchange test interchange tries first for that flag (one-directional rewriting)")
    ctx.rule("R06.2", "every yielded step is defined by .interchange on the previous value; the pass loop ends only at a fixed point of the trigger")
    ctx.rule("R06.3", "normal_form: cycle check dominates accepting a step and raises NotImplementedError; accepted steps extend the cache")
    ctx.rule("R06.4", "is_right_of uses the interval predicates of C05; flatten is the identity functor; foliation re-scans")
    ctx.attempt(check_normalize, ctx)
    ctx.attempt(check_normal_form, ctx)
    ctx.attempt(check_foliate, ctx)
    # a diagram that cannot be normalised is refused with NotImplementedError whose message is built from str(diagram): printing must not fail
    ctx.depend("R06.3", "C03", "str() of boxes, layers and diagrams returns a string whatever the names are (the refusal message of normal_form is built from it)", rules={"R03.3"},
               constructs=[":returns-str"], mod="discopy.cat")
    ctx.floor("R06.1", 4)
    ctx.floor("R06.2", 10)
    ctx.floor("R06.3", 6)
    ctx.floor("R06.4", 5)
    ctx.not_decided += ["termination, idempotence and canonicity themselves (Delpeuch-Vicary theorem, given C05 and R06.1-3)", "optimality of foliate"]
