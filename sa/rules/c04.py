"""C04 — functors are functorial (rules R04.1–R04.5; engines A, B, D, F)."""
import ast
from ..lin import Lin, Facts
from ..words import Seq, Seg, Item, Atom, Unlocatable
from ..beval import Evaluator, Obj, Box, Closure, Unsupported, Undecided
from ..diag import W, Hom, TD, Ev
from ..cfg import CFG
from ..core import AnalysisError
from .. import dispatch, shape

EXPLANATION = (
    "The three functor __call__ methods are analysed from source: the arrow branch of cat.Functor is the fold of `then` over the "
    "images starting from the identity on F(dom) (with C02's laws this is functoriality); the diagram branch of monoidal.Functor is "
    "evaluated abstractly on one generic iteration (row = L·dom_k·R, |L| = off) to prove the loop invariant result.cod = F(scan), "
    "whiskers F(scan[:off]) / F(scan[off+|dom|:]) and the splice with cod; the isinstance chains are checked for order (no test "
    "shadowed by a returning test on a superclass) and for the structural mapping Swap->swap, Cup->cups, Cap->caps, dagger->dagger, "
    "Sum->sum, Bubble->bubble; the adjoint winding of rigid functors is a homomorphism (|z| steps of the matching sign, from the "
    "bodies of Ob.l/Ob.r); rigid.cups/caps compose layer by layer on symbolic multi-wire types and join left[n-1-i] with right[i]. "
    "Not decided: images supplied by the user (their types are checked at run time by >>).")

CAT, MON, RIG = "discopy.cat", "discopy.monoidal", "discopy.rigid"


def ret_expr(body):
    for st in body:
        if isinstance(st, ast.Return):
            return st.value
    return None


def check_fold(ctx):
    m = ctx.model
    q = CAT + ".Functor.__call__"
    fn = m.func(q)
    ctx.analysed(q)
    self_, p = fn.args.args[0].arg, fn.args.args[1].arg
    br = dispatch.chain(m, CAT, fn, p)
    ctx.need(len(br) >= 4, "cat.Functor.__call__ has no isinstance chain")
    arrow = m.cls(CAT + ".Arrow")
    ab = [b for b in br if arrow in b.classes]
    ctx.need(len(ab) == 1, "no `isinstance(arrow, Arrow)` branch in cat.Functor.__call__")
    r = ret_expr(ab[0].body)
    ok, found = False, ast.unparse(r) if r is not None else None
    if isinstance(r, ast.Call) and isinstance(r.func, ast.Attribute) and r.func.attr == "then" and len(r.args) == 1 and isinstance(r.args[0], ast.Starred):
        head, st = r.func.value, r.args[0].value
        head_ok = ast.unparse(head) == "%s.ar_factory.id(%s(%s.dom))" % (self_, self_, p)
        s = ast.unparse(st)
        tail_ok = s in ("map(%s, %s)" % (self_, p), "map(%s, %s.boxes)" % (self_, p)) or (
            isinstance(st, (ast.GeneratorExp, ast.ListComp)) and len(st.generators) == 1 and not st.generators[0].ifs
            and ast.unparse(st.generators[0].iter) in (p, p + ".boxes")
            and ast.unparse(st.elt) == "%s(%s)" % (self_, ast.unparse(st.generators[0].target)))
        ok = head_ok and tail_ok
    ctx.ob("R04.1", q + ":arrow-branch", ok, found=found, required="ar_factory.id(F(dom)).then(*map(F, arrow))", mod=CAT, node=ab[0].node, sig="fold")
    # dagger branch and plain lookup
    box = m.cls(CAT + ".Box")
    bb = [b for b in br if box in b.classes]
    ctx.need(len(bb) == 1, "no `isinstance(arrow, Box)` branch in cat.Functor.__call__")
    body = bb[0].body
    dag = [s for s in body if isinstance(s, ast.If) and ast.unparse(s.test) in (p + ".is_dagger", p + "._dagger")]
    N = {self_: "F", p: "d"}
    shape.match(ctx, "R04.3", q + ":dagger", ret_expr(dag[0].body) if dag else None,
                ["F.ar[d.dagger()].dagger()", "F.ar[d[::-1]][::-1]", "F.ar[d[::-1]].dagger()", "F.ar[d.dagger()][::-1]"], N,
                body=dag[0].body if dag else None, mod=CAT, node=bb[0].node, sig="dagger-branch",
                required="if box.is_dagger: return ar[box.dagger()].dagger()")
    shape.match(ctx, "R04.3", q + ":lookup", ret_expr([s for s in body if isinstance(s, ast.Return)]), "F.ar[d]", N, body=body, mod=CAT,
                node=bb[0].node, sig="lookup")
    for cname, want in (("Sum", ["F.ar_factory.sum(list(map(F, d)), F(d.dom), F(d.cod))", "F.ar_factory.sum([F(x) for x in d], F(d.dom), F(d.cod))",
                                 "F.ar_factory.sum(list(map(F, d.terms)), F(d.dom), F(d.cod))"]),
                        ("Bubble", ["F(d.inside).bubble(dom=F(d.dom), cod=F(d.cod))"])):
        k = m.cls(CAT + "." + cname)
        b = [x for x in br if k in x.classes]
        shape.match(ctx, "R04.3", q + ":" + cname, ret_expr(b[0].body) if b else None, want, N, body=b[0].body if b else None, mod=CAT,
                    node=b[0].node if b else fn, sig=cname.lower())
    ob = m.cls(CAT + ".Ob")
    b = [x for x in br if ob in x.classes]
    shape.match(ctx, "R04.3", q + ":Ob", ret_expr(b[0].body) if b else None, "F.ob[d]", N, body=b[0].body if b else None, mod=CAT,
                node=b[0].node if b else fn, sig="ob")
    return br


def check_dispatch_order(ctx):
    m = ctx.model
    n = 0
    for mod, q, must_before in (
            (CAT, CAT + ".Functor.__call__", [("Sum", "Box"), ("Bubble", "Box"), ("Box", "Arrow")]),
            (MON, MON + ".Functor.__call__", [("Swap", "Box"), ("Box", "Diagram")]),
            (RIG, RIG + ".Functor.__call__", [("Cup", "monoidal.Diagram"), ("Cap", "monoidal.Diagram")])):
        fn = m.func(q)
        ctx.analysed(q)
        p = fn.args.args[1].arg
        br = dispatch.chain(m, mod, fn, p)
        sh = dispatch.shadowed(m, br)
        ctx.ob("R04.3", q + ":no-shadowing", not sh, found=["%s after returning test on %s" % (d.q, s.q) for _, d, _, s in sh],
               required="no isinstance test placed after a returning test on one of its superclasses", mod=mod, node=fn, sig="shadow")
        last = fn.body[-1]
        ctx.ob("R04.3", q + ":total", isinstance(last, ast.Raise) and "TypeError" in ast.unparse(last), found=ast.unparse(last)[:80],
               required="unhandled arguments raise TypeError", mod=mod, node=last, sig="total")
        names = [nm for b in br for nm in b.names]
        for a, b_ in must_before:
            ok = a in names and b_ in names and names.index(a) < names.index(b_)
            ctx.ob("R04.3", "%s:%s<%s" % (q, a, b_), ok, found=names, required="%s tested before %s" % (a, b_), mod=mod, node=fn, sig="order-%s-%s" % (a, b_))
        n += 1
    return n


def check_monoidal(ctx):
    m = ctx.model
    q = MON + ".Functor.__call__"
    fn = m.func(q)
    self_, dparam = [a.arg for a in fn.args.args][:2]
    br = dispatch.chain(m, MON, fn, dparam)
    # Ty branch: images of the objects tensored in order
    ty = m.cls(MON + ".Ty")
    b = [x for x in br if ty in x.classes]
    r = ret_expr(b[0].body) if b else None
    ok = False
    if isinstance(r, ast.Call) and ast.unparse(r.func) == "%s.ob_factory().tensor" % self_ and len(r.args) == 1 and isinstance(r.args[0], ast.Starred):
        comp = r.args[0].value
        if isinstance(comp, (ast.ListComp, ast.GeneratorExp)) and len(comp.generators) == 1 and not comp.generators[0].ifs:
            g = comp.generators[0]
            x = ast.unparse(g.target)
            ok = ast.unparse(g.iter) in (dparam, dparam + ".objects") and ast.unparse(comp.elt) in (
                "%s.ob[type(%s)(%s)]" % (self_, dparam, x), "%s.ob[%s]" % (self_, x))
    ctx.ob("R04.3", q + ":Ty", ok, found=ast.unparse(r) if r is not None else None,
           required="ob_factory().tensor(*[ob[type(t)(x)] for x in t])  (images in order)", mod=MON, node=b[0].node if b else fn, sig="ty")
    N = {self_: "F", dparam: "d"}
    sw = m.cls(MON + ".Swap")
    b = [x for x in br if sw in x.classes]
    shape.match(ctx, "R04.3", q + ":Swap", ret_expr(b[0].body) if b else None, "F.ar_factory.swap(F(d.left), F(d.right))", N,
                body=b[0].body if b else None, mod=MON, node=b[0].node if b else fn, sig="swap")
    bx = m.cls(MON + ".Box")
    b = [x for x in br if bx in x.classes]
    shape.match(ctx, "R04.3", q + ":Box", ret_expr(b[0].body) if b else None, "super().__call__(d)", N, body=b[0].body if b else None,
                mod=MON, node=b[0].node if b else fn, sig="box", required="boxes are looked up by cat.Functor (dagger-aware)")
    for cname in ("Sum", "Bubble"):
        k = m.cls(MON + "." + cname)
        h = dispatch.first_handler(m, [x for x in br if x.returns], k)
        shape.match(ctx, "R04.3", q + ":" + cname, ret_expr(h.body) if h else None, "super().__call__(d)", N, body=h.body if h else None,
                    mod=MON, node=h.node if h else fn, sig=cname.lower() + "-delegated",
                    required="handled by cat.Functor.__call__ (term-wise / inside)")

    # ---- R04.2 scan-splice on one generic iteration
    dg = m.cls(MON + ".Diagram")
    branch = next((x for x in br if dg in x.classes and any(isinstance(s, ast.For) for s in x.body)), None)
    ctx.need(branch is not None, "no scanning loop in monoidal.Functor.__call__")
    loop = next(s for s in branch.body if isinstance(s, ast.For))
    k = branch.body.index(loop)
    pre, post = branch.body[:k], branch.body[k + 1:]
    it = ast.unparse(loop.iter)
    ctx.ob("R04.2", q + ":iterates", it == "zip(%s.boxes, %s.offsets)" % (dparam, dparam), found=it, required="zip(d.boxes, d.offsets)",
           mod=MON, node=loop, sig="iterates")
    Row0, RowN, L, R, d, c = (Atom(x) for x in "Row0 RowN L R d c".split())
    F = Hom()
    functor = Obj("Functor", call=F, ar_factory=Obj("Factory", id=Closure(lambda t: TD(t, t))))
    diagram = Obj("Diagram", dom=W(Row0), cod=W(RowN), boxes=Seq.atom(Atom("boxes")), offsets=Seq.atom(Atom("offsets")))
    ev = Ev(Facts(), q)
    env = {self_: functor, dparam: diagram}
    try:
        ev.run(pre, env)
        scan_vars = [v for v, val in env.items() if isinstance(val, Seq) and val == W(Row0)]
        res_vars = [v for v, val in env.items() if isinstance(val, Obj) and val.kind == "TDiag"]
        ctx.need(len(scan_vars) == 1 and len(res_vars) == 1, "cannot identify the scan/result variables of monoidal.Functor.__call__ (%r, %r)" % (scan_vars, res_vars))
        scan, res = scan_vars[0], res_vars[0]
        ctx.ob("R04.2", q + ":init", env[res].f["dom"] == F(W(Row0)) and env[res].f["cod"] == F(W(Row0)), found=env[res],
               required="result = id(F(dom)), scan = dom", mod=MON, node=branch.node, sig="init")
        box = Box("box_k", W(d), W(c))
        env2 = dict(env)
        env2[scan] = W(L, d, R)
        env2[res] = TD(F(W(Row0)), F(W(L, d, R)))
        ev.bind(loop.target, (box, W(L).length), env2)
        probs = []
        try:
            ev.run(loop.body, env2)
            if env2[scan] != W(L, c, R):
                probs.append(("scan", env2[scan], W(L, c, R)))
            if env2[res].f["cod"] != F(W(L, c, R)) or env2[res].f["dom"] != F(W(Row0)):
                probs.append(("result", "%r -> %r" % (env2[res].f["dom"], env2[res].f["cod"]), "F(Row0) -> %r" % F(W(L, c, R))))
            for o in ev.obligations:
                if not o.ok:
                    probs.append(("whiskered-layer-composes", o.found, o.required))
        except Unlocatable as e:
            probs.append(("slice", str(e), "a locatable boundary"))
        if probs:
            for what, found, req in probs:
                ctx.ob("R04.2", q + ":step:" + what, False, found=found, required=req, mod=MON, node=loop, sig="step-" + what,
                       note="generic iteration: row = L·dom_k·R with |L| = off")
        else:
            ctx.ob("R04.2", q + ":step", True, found="scan -> L·cod_k·R ; result : F(dom) -> F(L·cod_k·R)", required="invariant result.cod = F(scan) preserved",
                   mod=MON, node=loop, note="%d composition side conditions proved" % len(ev.obligations))
        env3 = dict(env)
        env3[res] = TD(F(W(Row0)), F(W(RowN)))
        r = ev.run(post, env3)
        ctx.ob("R04.2", q + ":returns", bool(r) and r[0] == "return" and r[1] is env3[res], found=r, required="the accumulated result is returned",
               mod=MON, node=branch.node, sig="returns")
    except (Unsupported, Undecided) as e:
        raise AnalysisError("monoidal.Functor.__call__ outside the recognised idioms: %s" % e)


def check_rigid(ctx):
    m = ctx.model
    q = RIG + ".Functor.__call__"
    fn = m.func(q)
    self_, p = [a.arg for a in fn.args.args][:2]
    br = dispatch.chain(m, RIG, fn, p)
    N = {self_: "F", p: "d"}
    for cname, side, fac in (("Cup", "dom", "cups"), ("Cap", "cod", "caps")):
        k = m.cls(RIG + "." + cname)
        b = [x for x in br if k in x.classes]
        shape.match(ctx, "R04.3", q + ":" + cname, ret_expr(b[0].body) if b else None,
                    ["F.ar_factory.%s(F(d.%s[:1]), F(d.%s[1:]))" % (fac, side, side), "F.ar_factory.%s(F(d.left), F(d.right))" % fac], N,
                    body=b[0].body if b else None, mod=RIG, node=b[0].node if b else fn, sig=cname.lower())
    md = m.cls(MON + ".Diagram")
    b = [x for x in br if md in x.classes]
    shape.match(ctx, "R04.3", q + ":Diagram", ret_expr(b[0].body) if b else None, "super().__call__(d)", N, body=b[0].body if b else None,
                mod=RIG, node=b[0].node if b else fn, sig="diagram", required="delegates to monoidal.Functor")
    # ---- R04.4 winding
    mty = m.cls(MON + ".Ty")
    tb = [x for x in br if mty in x.classes]
    ctx.need(bool(tb), "no type branch in rigid.Functor.__call__")
    adj = next((s for s in tb[0].body if isinstance(s, ast.FunctionDef)), None)
    ctx.need(adj is not None, "no inner adjoint function in rigid.Functor.__call__")
    o = adj.args.args[0].arg
    r = ret_expr(tb[0].body)
    ctx.ob("R04.4", q + ":objects-in-order", r is not None and ast.unparse(r) in (
        "%s.ob_factory().tensor(*map(%s, %s.objects))" % (self_, adj.name, p), "%s.ob_factory().tensor(*map(%s, %s))" % (self_, adj.name, p)),
        found=ast.unparse(r) if r is not None else None, required="tensor of the adjoint images in order", mod=RIG, node=tb[0].node, sig="objects-in-order")
    # delta of Ob.l / Ob.r from their bodies
    delta = {}
    for d in ("l", "r"):
        f = m.func(RIG + ".Ob." + d)
        ctx.analysed(RIG + ".Ob." + d)
        rr = ret_expr(f.body)
        s = ast.unparse(rr) if rr is not None else ""
        delta[d] = -1 if s == "Ob(self.name, self.z - 1)" else 1 if s == "Ob(self.name, self.z + 1)" else None
        ctx.ob("R04.4", RIG + ".Ob." + d, delta[d] == (-1 if d == "l" else 1), found=s, required="Ob(name, z %s 1)" % ("-" if d == "l" else "+"),
               mod=RIG, node=f, sig="ob-" + d)
    for d in ("l", "r"):
        f = m.func(RIG + ".Ty." + d)
        ctx.analysed(RIG + ".Ty." + d)
        rr = ret_expr(f.body)
        s = ast.unparse(rr) if rr is not None else ""
        ctx.ob("R04.4", RIG + ".Ty." + d, s in ("Ty(*[x.%s for x in self.objects[::-1]])" % d, "Ty(*[x.%s for x in reversed(self.objects)])" % d),
               found=s, required="adjoint of each object, order reversed", mod=RIG, node=f, sig="ty-" + d)
    z = Lin.var("z")
    base = [s for s in adj.body if isinstance(s, ast.Assign) and "z=0" in ast.unparse(s.value).replace(" ", "")]
    ctx.ob("R04.4", q + ":adjoint:base", len(base) == 1 and ast.unparse(base[0].value) == "%s.ob[type(%s)(type(%s)(%s.name, z=0))]" % (self_, p, o, o),
           found=[ast.unparse(s) for s in base], required="start from the image of the un-wound object", mod=RIG, node=adj, sig="adjoint-base")
    resv = ast.unparse(base[0].targets[0]) if base else "result"
    zero = [s for s in adj.body if isinstance(s, ast.If) and isinstance(s.body[-1], ast.Return)]
    okz = bool(zero) and ast.unparse(zero[0].test) in ("not hasattr(%s, 'z') or not %s.z" % (o, o),) and \
        ast.unparse(zero[0].body[-1].value) == "%s.ob[type(%s)(%s)]" % (self_, p, o)
    ctx.ob("R04.4", q + ":adjoint:z=0", okz, found=ast.unparse(zero[0].test) if zero else None, required="objects without winding are looked up directly",
           mod=RIG, node=adj, sig="adjoint-zero")
    loops = []
    def collect(sts, tests):
        for s in sts:
            if isinstance(s, ast.If) and not isinstance(s.body[-1], ast.Return):
                collect(s.body, tests + [(s.test, True)])
                collect(s.orelse, tests + [(s.test, False)])
            elif isinstance(s, ast.For):
                loops.append((s, tests))
    collect(adj.body, [])
    seen = set()
    for loop, tests in loops:
        facts = Facts(free=["z"])
        desc = []
        for t, pol in tests:
            s = ast.unparse(t)
            if s == "%s.z < 0" % o:
                facts = facts.extend(-z - 1) if pol else facts.extend(z)
            elif s == "%s.z > 0" % o:
                facts = facts.extend(z - 1) if pol else facts.extend(-z)
            else:
                raise AnalysisError("adjoint: unrecognised test %s" % s)
            desc.append(("" if pol else "not ") + s)
        cnt_s = ast.unparse(loop.iter)
        cnt = {"range(-%s.z)" % o: -z, "range(%s.z)" % o: z}.get(cnt_s)
        stp = loop.body[0] if len(loop.body) == 1 and isinstance(loop.body[0], ast.Assign) else None
        d = None
        if stp is not None and ast.unparse(stp.targets[0]) == resv and ast.unparse(stp.value) in (resv + ".l", resv + ".r"):
            d = ast.unparse(stp.value)[-1]
        ok = cnt is not None and d is not None and delta.get(d) is not None and facts.nonneg(cnt) and (cnt * delta[d]) == z
        ctx.ob("R04.4", q + ":adjoint:%s" % " & ".join(desc), ok, found="%s steps of .%s" % (cnt_s, d), required="|z| steps whose total winding is z",
               mod=RIG, node=loop, sig="adjoint-steps-" + ("neg" if facts.pos(-z) else "pos"))
        seen.add("neg" if facts.pos(-z) else "pos")
    ctx.ob("R04.4", q + ":adjoint:both-signs", seen == {"neg", "pos"}, found=sorted(seen), required="negative and positive windings handled",
           mod=RIG, node=adj, sig="adjoint-signs")
    last = adj.body[-1]
    ctx.ob("R04.4", q + ":adjoint:returns", isinstance(last, ast.Return) and ast.unparse(last.value) == resv, found=ast.unparse(last),
           required="returns the wound image", mod=RIG, node=last, sig="adjoint-returns")


def check_cups(ctx):
    m = ctx.model
    q = RIG + ".cups"
    fn = m.func(q)
    ctx.analysed(q, RIG + ".caps")
    loop = next((s for s in fn.body if isinstance(s, ast.For) and isinstance(s.iter, ast.Call) and ast.unparse(s.iter.func) == "range"), None)
    ctx.need(loop is not None, "no range loop in rigid.cups")
    params = [a.arg for a in fn.args.args]
    left_, right_ = params[0], params[1]
    # guard
    g = CFG(fn)
    guards = g.raising_guards_before(loop.iter)
    okg = any(lab == "T" and "AxiomError" in how and ast.unparse(st.test).replace(" ", "") in (
        "%s.r!=%sand%s.r!=%s" % (left_, right_, right_, left_), "%s.r!=%sand%s!=%s.r" % (left_, right_, left_, right_)) for st, lab, how in guards)
    ctx.ob("R04.5", q + ":adjointness-guard", okg, found=[(ast.unparse(st.test), how) for st, lab, how in guards],
           required="raise AxiomError unless left.r == right or right.r == left", mod=RIG, node=fn, sig="guard")
    ctx.ob("R04.5", q + ":count", ast.unparse(loop.iter) == "range(len(%s))" % left_, found=ast.unparse(loop.iter), required="one cup per wire of left",
           mod=RIG, node=loop, sig="count")
    LEFT, RIGHT = Atom("left"), Atom("right")
    n = LEFT.length

    def run_iteration(i, facts):
        ev = Ev(facts, q)
        ev.classes.update(Ty=Closure(lambda *a: Seq()))
        factory = Obj("Factory", id=Closure(lambda t: TD(t, t)))
        cupf = Closure(lambda l, r: TD(l + r, Seq()))
        env = {left_: Seq.atom(LEFT), right_: Seq.atom(RIGHT), "ar_factory": factory, "cup_factory": cupf, "reverse": False,
               "result": TD(Seq.atom(LEFT) + Seq.atom(RIGHT), Lin)}
        ev.bind(loop.target, i, env)
        for st in loop.body:
            if isinstance(st, ast.Assign) and isinstance(st.value, ast.IfExp):
                break
            ev.run([st], env)
        layer_var = [v for v, val in env.items() if isinstance(val, Obj) and val.kind == "TDiag" and v != "result"]
        return ev, env, env[layer_var[-1]]
    i = Lin.var("i")
    base = Facts().with_eq(LEFT.length, RIGHT.length)     # adjoint types have equal length (guard above)
    probs = []
    try:
        ev, env, lay_i = run_iteration(i, base.extend(i, n - i - 2))
        ev2, env2, lay_j = run_iteration(i + 1, base.extend(i, n - i - 2))
        if lay_i.f["cod"] != lay_j.f["dom"]:
            probs.append(("chain", "cod(layer_i) = %r, dom(layer_i+1) = %r" % (lay_i.f["cod"], lay_j.f["dom"]), "equal"))
        ev0, env0, lay_0 = run_iteration(Lin.of(0), base.extend(n - 1))
        if lay_0.f["dom"] != Seq.atom(LEFT) + Seq.atom(RIGHT):
            probs.append(("first", lay_0.f["dom"], "left @ right"))
        evn, envn, lay_n = run_iteration(n - 1, base.extend(n - 1))
        if lay_n.f["cod"] != Seq():
            probs.append(("last", lay_n.f["cod"], "empty type"))
        cup = [v for v in env.values() if isinstance(v, Obj) and v.kind == "TDiag" and v is not lay_i and v.f["cod"] == Seq() and v.f["dom"].length == 2]
        want = Seq.atom(LEFT).slice(n - i - 1, n - i, ev.facts) + Seq.atom(RIGHT).slice(i, i + 1, ev.facts)
        if not cup or cup[0].f["dom"] != want:
            probs.append(("pairing", cup[0].f["dom"] if cup else None, want))
    except Unlocatable as e:
        probs.append(("slice", str(e), "a locatable boundary"))
    except (Unsupported, Undecided) as e:
        raise AnalysisError("rigid.cups outside the recognised idioms: %s" % e)
    if probs:
        for what, found, req in probs:
            ctx.ob("R04.5", q + ":" + what, False, found=found, required=req, mod=RIG, node=loop, sig=what)
    else:
        ctx.ob("R04.5", q + ":chain", True, found="layer_i : %r -> %r" % (lay_i.f["dom"], lay_i.f["cod"]),
               required="composes from left@right to the empty type, joining left[n-1-i] with right[i]", mod=RIG, node=loop)
    acc = [s for s in loop.body if isinstance(s, ast.Assign) and isinstance(s.value, ast.IfExp)]
    ok = len(acc) == 1 and ast.unparse(acc[0]) == "result = result << layer if reverse else result >> layer"
    ctx.ob("R04.5", q + ":accumulate", ok, found=[ast.unparse(s) for s in acc], required="post-compose for cups, pre-compose when reverse (caps)",
           mod=RIG, node=loop, sig="accumulate")
    cf = m.func(RIG + ".caps")
    r = ret_expr(cf.body)
    cp = [a.arg for a in cf.args.args]
    ok = r is not None and ast.unparse(r) in ("cups(%s, %s, %s, %s, reverse=True)" % tuple(cp[:4]),)
    if not ok and isinstance(r, ast.Call) and ast.unparse(r.func) == "cups":          # the same call with some arguments passed by keyword
        from ..helpers import _bind
        b = _bind(fn, r, None)
        ok = b is not None and {k: ast.unparse(v) for k, v in b.items()} == dict(zip([a.arg for a in fn.args.args], cp[:4] + ["True"]))
    ctx.ob("R04.5", RIG + ".caps", ok, found=ast.unparse(r) if r is not None else None, required="caps = cups with cap boxes, composed in reverse",
           mod=RIG, node=cf, sig="caps")
    for name, fac in (("cups", "cups"), ("caps", "caps")):
        f = m.func(RIG + ".Diagram." + name)
        r = ret_expr(f.body)
        a = [x.arg for x in f.args.args]
        ctx.ob("R04.5", RIG + ".Diagram." + name, r is not None and ast.unparse(r) == "%s(%s, %s)" % (fac, a[0], a[1]), found=ast.unparse(r) if r is not None else None,
               required="Diagram.%s delegates to rigid.%s" % (name, fac), mod=RIG, node=f, sig="delegate-" + name)


def check_mappings(ctx):
    """R04.7: the image of an object / a box is whatever the mapping given to the functor says for it, asked afresh every time: a dict is used as it is, a function is called
    on the box itself (no memo keyed by a printed form, which would merge boxes that print alike)"""
    m = ctx.model
    CAT_ = "discopy.cat"
    fi = m.func(CAT_ + ".Functor.__init__")
    ctx.analysed(CAT_ + ".Functor.__init__", CAT_ + ".Functor.ob", CAT_ + ".Functor.ar", CAT_ + ".Quiver.__getitem__", CAT_ + ".Quiver.__init__")
    a = [x.arg for x in fi.args.args]
    ctx.need(len(a) >= 3, "cat.Functor.__init__ takes fewer than (ob, ar)")
    st = [s for s in shape.expand_tuple_assigns(fi.body) if isinstance(s, ast.Assign) and ast.unparse(s.targets[0]) in ("self._ob", "self._ar")]
    shape.match_stmts(ctx, "R04.7", CAT_ + ".Functor.__init__:mappings", st, ["self._ob = ob", "self._ar = ar"], {a[1]: "ob", a[2]: "ar"}, mod=CAT_, node=fi, sig="functor-mappings", exact=True, required="the two mappings are kept as given")
    shape.match_stmts(ctx, "R04.7", CAT_ + ".Functor.__init__:factories", [s for s in shape.expand_tuple_assigns(fi.body) if isinstance(s, ast.If) or (isinstance(s, ast.Assign) and "factory" in ast.unparse(s.targets[0]))],
                      ["if ob_factory is None:\n    ob_factory = Ob", "if ar_factory is None:\n    ar_factory = Arrow", "self.ob_factory = ob_factory", "self.ar_factory = ar_factory"], mod=CAT_, node=fi,
                      sig="functor-factories", exact=True, required="the factories given, else those of the free category, each under its own name")
    ob = m.func(CAT_ + ".Functor.ob")
    shape.match(ctx, "R04.7", CAT_ + ".Functor.ob", ret_expr(ob.body), "self._ob if isinstance(self._ob, Mapping) else Quiver(self._ob)", {}, mod=CAT_, node=ob, sig="functor-ob", required="a mapping as it is, a function as a Quiver over it")
    ar = m.func(CAT_ + ".Functor.ar")
    shape.match(ctx, "R04.7", CAT_ + ".Functor.ar", ret_expr(ar.body), "self._ar if hasattr(self._ar, '__getitem__') else Quiver(self._ar)", {}, mod=CAT_, node=ar, sig="functor-ar", required="a mapping as it is, a function as a Quiver over it")
    qi = m.func(CAT_ + ".Quiver.__init__")
    shape.match_stmts(ctx, "R04.7", CAT_ + ".Quiver.__init__", [s for s in qi.body if isinstance(s, ast.Assign)], ["self._func = func"], {qi.args.args[1].arg: "func"}, mod=CAT_, node=qi, sig="quiver-init", exact=True)
    qg = m.func(CAT_ + ".Quiver.__getitem__")
    shape.match_stmts(ctx, "R04.7", CAT_ + ".Quiver.__getitem__", [s for s in qg.body if not (isinstance(s, ast.Expr) and isinstance(s.value, ast.Constant))], ["return self._func(box)"], {qg.args.args[1].arg: "box"}, mod=CAT_, node=qg,
                      sig="quiver-getitem", exact=True, required="the function applied to the box itself, every time")


def ret_expr(body):
    for st in body:
        if isinstance(st, ast.Return):
            return st.value
    return None


def check(ctx):
    ctx.rule("R04.7", "the mappings of a functor are used as given: dicts as they are, functions called on the box itself (no memo)")
    ctx.attempt(check_mappings, ctx)
    ctx.rule("R04.1", "the image of an arrow is the fold of `then` over the images of its boxes, starting from the identity on F(dom)")
    ctx.rule("R04.2", "monoidal functor scan: result.cod = F(scan) is a loop invariant; whiskers are F of the row around the box; scan splices box.cod")
    ctx.rule("R04.3", "dispatch: order, totality and structural mapping (Swap->swap, Cup->cups, Cap->caps, dagger, Sum, Bubble, objects in order)")
    ctx.rule("R04.4", "adjoint winding is a homomorphism: |z| steps of the matching sign; Ty.l/.r reverse the order")
    ctx.rule("R04.5", "cups/caps: layers compose, left[n-1-i] is joined with right[i], adjointness guard, caps = reversed cups")
    ctx.attempt(check_fold, ctx)
    ctx.attempt(check_dispatch_order, ctx)
    ctx.attempt(check_monoidal, ctx)
    ctx.attempt(check_rigid, ctx)
    ctx.attempt(check_cups, ctx)
    ctx.rule("R04.6", "the structural images of a functor are right: swaps realise the requested permutation (C10), sums are mapped and tensored term-wise in order (C02 R02.3)")
    ctx.depend("R04.6", "C10", "F(Swap(x, y)) = ar_factory.swap(F(x), F(y)): the swap of the target category is the requested permutation", mod="discopy.monoidal")
    ctx.depend("R04.6", "C09", "the tensor functor (the functor behind every evaluation) keeps its loop invariant on boxes and on swaps", rules={"R09.1"}, mod="discopy.tensor")
    ctx.depend("R04.6", "C02", "F folds the images with `then`, n-ary and left to right, dispatching on the running result (a sum met on the way distributes); F(f + g) = F(f) + F(g) with the terms in order", rules={"R02.1", "R02.3"}, mod="discopy.monoidal")

    ctx.floor("R04.1", 1)
    ctx.floor("R04.2", 4)
    ctx.floor("R04.3", 20)
    ctx.floor("R04.4", 10)
    ctx.floor("R04.5", 7)
    ctx.not_decided.append("images supplied by the user (refused at run time by the checked >> when ill-typed)")
