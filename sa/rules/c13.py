"""C13 — translation to and from tket preserves the meaning of circuits (R13.1–R13.6; engines A, B, C′, D, E, F)."""
import ast
import itertools
from ..lin import Lin, Facts
from ..words import Seq, Seg, Item, Rep, MapSeg, Atom, Unlocatable
from ..beval import Evaluator, Obj, Closure, Unsupported, Undecided
from ..core import AnalysisError
from ..objsim import explore, Inst, RaisesError, Sym
from ..generic import instances
from .. import shape, dispatch
from .c07 import inner
from .c01 import own_nodes

EXPLANATION = (
    "tk.to_tk / from_tk and tk.Circuit are analysed from source (pytket is not run). Decided: (R13.1) the angle conventions of writer and reader agree — export "
    "multiplies Rx/Rz/CRz phases by 2 (tket counts half turns, discopy full turns, cf. C11), import divides by 2, exported names have importers; (R13.2, R13.8) the "
    "invariant stated in the source — at layer i, len(qubits) and len(bits) equal the numbers of qubit and bit wires — and its classical twin, one output of the "
    "post-processing per open bit wire, as an effect typing of the handlers: for every box signature obtained by abstract construction (Ket, Bits, daggered Bits, "
    "Bra, Discard, the four flag combinations of Measure, a generic classical gate) the handler changes the three counts by the signature's Δ, loops summarised by a "
    "verified per-iteration growth; (R13.7) the registers renamed by prepare_qubits / prepare_bits are exactly those whose list entries are shifted, which needs the "
    "list to be strictly increasing — every other writer of the list is checked to keep it so; (R13.9) add_bit receives the position at which the register enters "
    "`bits`, and from_tk maps a register to its wire without counting post-selected registers; (R13.10) make_units_adjacent, as an effect on symbolic rows, leaves the "
    "first qubit at `offset` and the second right after it; (R13.3) gates that take their dagger by a flag are exported as `<name>dg` and read back; (R13.4) inside loops "
    "over a batch of circuits the per-circuit state is read from the loop variable and counts are indexed by the loop index; (R13.5) the Born rule on scalars agrees with "
    "cqmap.Functor; (R13.6) order and totality of the dispatch for 20 box classes, init_and_discard, remove_ket1, the from_tk postlude; (R13.11) rename_units reads the old "
    "post-selection before it writes. Not decided: equality of output distributions on a simulator; gates on three or more qubits in from_tk.")

TK, CQM = "discopy.quantum.tk", "discopy.quantum.cqmap"
_fresh = itertools.count()


class Opaque:
    def __repr__(self):
        return "?"


class EvLen(Evaluator):
    """evaluates what is needed for list lengths; everything else is havoc (the result must not depend on it)"""
    def ev(self, n, env):
        try:
            return super().ev(n, env)
        except Unlocatable as e:
            if isinstance(n, ast.Subscript) and isinstance(n.slice, ast.Slice):
                self.__dict__.setdefault("unlocated", []).append("%s: %s" % (ast.unparse(n), e))
            return Lin.var("?%d" % next(_fresh))
        except (Unsupported, Undecided, TypeError, KeyError):
            return Lin.var("?%d" % next(_fresh))        # an unknown value: a length that depends on it cannot be proved

    def getattr(self, v, attr, n=None):
        if isinstance(v, Seq) and attr == "count":
            return Closure(lambda kind: sum((p.length for p in v.parts if getattr(getattr(p, "atom", None), "kind", None) == kind.f["wires"]), Lin.of(0)))
        if isinstance(v, Obj) and v.kind == "tk" and attr == "post_processing":
            return Obj("pp", cod=Seq.atom(kinded("post_processing.cod", "bit", self.pp)))
        return super().getattr(v, attr, n)

    def e_BinOp(self, n, env):
        if isinstance(n.op, ast.Pow):
            l = self.ev(n.left, env)
            if isinstance(l, Obj) and l.kind == "kindtag":
                return Seq.atom(kinded("%s**" % l.f["wires"], l.f["wires"], Lin.of(self.ev(n.right, env))))
        if isinstance(n.op, (ast.MatMult, ast.RShift)):
            l, r = self.ev(n.left, env), self.ev(n.right, env)
            if isinstance(l, DLen) or isinstance(r, DLen):
                l, r = to_dlen(l), to_dlen(r)
                return DLen(l.dom + r.dom, l.cod + r.cod) if isinstance(n.op, ast.MatMult) else DLen(l.dom, r.cod)
        return super().e_BinOp(n, env)


class DLen:
    """a circuit up to its numbers of input and output wires"""
    def __init__(self, dom, cod):
        self.dom, self.cod = Lin.of(dom), Lin.of(cod)


def to_dlen(v):
    if isinstance(v, DLen):
        return v
    if isinstance(v, Obj) and v.kind == "Box":
        return DLen(v.f["dom"].length, v.f["cod"].length)
    raise Unsupported("not a circuit: %r" % (v,))


class ClsObj(Obj):
    """a class used in isinstance tests; calling ClassicalGate(name, dom, cod, data) gives a circuit with those numbers of bits"""
    def __call__(self, *args, **kw):
        if self.f["name"] == "ClassicalGate" and len(args) >= 3:
            return DLen(Lin.of(args[1]) if not isinstance(args[1], Seq) else args[1].length, Lin.of(args[2]) if not isinstance(args[2], Seq) else args[2].length)
        raise Unsupported("construction of %s" % self.f["name"])


def tk_model(ev):
    """the tket circuit as far as lengths go: |post_processing.cod| is tracked in ev.pp"""
    def add_bit(unit=None, offset=None):
        if offset is not None:
            ev.pp = ev.pp + 1
        return Opaque()

    def post_process(d=None):
        if not isinstance(d, DLen):
            raise HelperFailure("post_process of a value that is not a circuit of known arity")
        ev.pp_calls = getattr(ev, "pp_calls", [])
        ev.pp_calls.append((ev.facts.eq(d.dom, ev.pp), "a process with %r inputs composed after a post-processing with %r outputs" % (d.dom, ev.pp)))
        ev.pp = ev.pp + d.cod - d.dom
        return Opaque()
    noop = Closure(lambda *a, **k: Opaque())
    return Obj("tk", add_bit=Closure(add_bit), post_process=Closure(post_process), post_select=noop, Measure=noop, rename_units=noop, add_blank_wires=noop, scale=noop,
               n_qubits=Lin.var("tk.n_qubits"), n_bits=Lin.var("tk.n_bits"), bits=Seq.atom(Atom("tk.bits")))


def kinded(name, kind, length=None):
    a = Atom(name, length)
    a.kind = kind
    return a


def count(word, kind):
    return sum((p.length for p in word.parts if getattr(getattr(p, "atom", None), "kind", None) == kind), Lin.of(0))


def to_kinded(word, tag):
    """a type built by engine C′ (powers of the qubit / bit objects) as a word of kinded atoms"""
    parts = []
    for i, p in enumerate(word.parts):
        v = getattr(p, "value", None)
        kind = "qubit" if "Qudit" in repr(v) else "bit" if "Digit" in repr(v) else None
        if kind is None:
            raise Unsupported("wire of unknown kind in %r" % (word,))
        n = p.n if isinstance(p, Rep) else Lin.of(1)
        parts.append(Seg(kinded("%s.%d" % (tag, i), kind, n)))
    return Seq(parts)


def box_signatures(ctx):
    """(label, class name, dom, cod, attrs) for the state-preparation / measurement / discard boxes, by abstract construction"""
    m = ctx.model
    out = []
    for q in ("discopy.quantum.gates.Ket", "discopy.quantum.gates.Bra", "discopy.quantum.gates.Bits", "discopy.quantum.circuit.Measure", "discopy.quantum.circuit.Discard"):
        c = m.cls(q)
        seen = set()
        for label, build in instances(m, c):
            for oracle, res, sim in explore(m, lambda s, build=build: build(s)):
                if isinstance(res, RaisesError) or not isinstance(res, Inst):
                    continue
                x = res
                try:
                    dom, cod = to_kinded(x.attrs["_dom"], c.name + ".dom"), to_kinded(x.attrs["_cod"], c.name + ".cod")
                except Unsupported:
                    continue
                attrs = {k: v for k, v in x.attrs.items() if k in ("destructive", "override_bits", "_dagger") and isinstance(v, (bool, type(None)))}
                key = (label.replace("qubits", "").replace("bits", "").strip(","), repr(dom), repr(cod))
                lab = c.name + ("(%s)" % label if label else "")
                if c.name == "Bits":
                    lab = "Bits.dagger()" if x.attrs.get("_dagger") else "Bits"
                if c.name == "Discard":
                    lab = "Discard(%s)" % ("qubits" if count(dom, "qubit") != 0 else "bits")
                if (lab, repr(dom)) in seen:
                    continue
                seen.add((lab, repr(dom)))
                out.append((lab, c.name, dom, cod, attrs))
    a, b = kinded("gate.dom", "bit", Lin.var("a")), kinded("gate.cod", "bit", Lin.var("b"))
    out.append(("ClassicalGate(a bits -> b bits)", "ClassicalGate", Seq.atom(a), Seq.atom(b), {"_dagger": False}))
    return out


class HelperFailure(Exception):
    """a helper of to_tk left the recognised idioms (never turned into an unknown value)"""


def run_helper(ev, fn, args, env0):
    env = dict(env0)
    env.update(zip([a.arg for a in fn.args.args], args))
    try:
        return run_block(ev, fn.body, env)
    except (Unsupported, Undecided) as e:
        raise HelperFailure("%s: %s" % (fn.name, e))


def run_block(ev, body, env):
    for st in body:
        if isinstance(st, ast.For):
            tracked = [v for v, x in env.items() if isinstance(x, Seq) and v in ("bits", "qubits")]
            it = ev.ev(st.iter, env)
            n_iter = it.length if isinstance(it, Seq) else Lin.var("?%d" % next(_fresh))
            assigned = {t.id for s in ast.walk(st) if isinstance(s, ast.Assign) for t in s.targets if isinstance(t, ast.Name)}
            loop_vars = [v for v in tracked if v in assigned]
            pp_loop = any(isinstance(c, ast.Call) and isinstance(c.func, ast.Attribute) and c.func.attr in ("add_bit", "post_process") for c in ast.walk(st))
            pp0 = getattr(ev, "pp", Lin.of(0))
            for cands_all in itertools.product((0, 1, -1), repeat=len(loop_vars) + (1 if pp_loop else 0)):
                cands = cands_all[:len(loop_vars)]
                ppc = cands_all[-1] if pp_loop else 0
                j = Lin.var("j")
                e2 = dict(env)
                befores = {}
                ev.pp = pp0 + j * ppc
                for v, cnd in zip(loop_vars, cands):
                    befores[v] = Atom("%s@j" % v, env[v].length + j * cnd)        # hypothesis: grows by cnd per iteration
                    e2[v] = Seq.atom(befores[v])
                if isinstance(st.target, ast.Tuple):
                    ev.bind(st.target, (j, Opaque()), e2)
                else:
                    ev.bind(st.target, j, e2)
                saved = ev.facts
                ev.facts = ev.facts.extend(j, n_iter - j - 1)
                try:
                    run_block(ev, st.body, e2)
                    ok = all(isinstance(e2[v], Seq) and ev.facts.eq(e2[v].length - befores[v].length, c) for v, c in zip(loop_vars, cands)) and \
                        ev.facts.eq(ev.pp - (pp0 + j * ppc), ppc)
                except (Unsupported, Undecided, Unlocatable):
                    ok = False
                finally:
                    ev.facts = saved
                if ok:
                    for v, cnd in zip(loop_vars, cands):
                        env[v] = Seq.atom(Atom("%s'" % v, env[v].length + n_iter * cnd))
                    ev.pp = pp0 + n_iter * ppc
                    break
            else:
                ev.pp = pp0
                if loop_vars or pp_loop:
                    raise Unsupported("cannot summarise the effect of the loop at line %d on %s" % (st.lineno, loop_vars + (["post_processing"] if pp_loop else [])))
            continue
        if isinstance(st, ast.Expr) and isinstance(st.value, ast.Call):
            ev.ev(st.value, env)
            continue
        if isinstance(st, ast.If):
            t = ev.ev(st.test, env)
            try:
                branch = st.body if ev.truth(t, st.test) else st.orelse
            except Undecided:
                if st.body and isinstance(st.body[-1], ast.Raise) and not st.orelse:
                    continue                    # a refusal guard: the non-refused path continues
                raise Unsupported("undecided handler test %s" % ast.unparse(st.test))
            r = run_block(ev, branch, env)
            if r is not None:
                return r
            continue
        if isinstance(st, ast.Return):
            return ("return", ev.ev(st.value, env))
        if isinstance(st, ast.Assign):
            v = ev.ev(st.value, env)
            for t in st.targets:
                try:
                    ev.bind(t, v, env)
                except Unsupported:
                    pass
            continue
    return None


def check_arity(ctx):
    m = ctx.model
    top = m.func(TK + ".to_tk")
    ctx.analysed(TK + ".to_tk")
    helpers = {}
    for h in ("prepare_qubits", "prepare_bits", "measure_qubits"):
        helpers[h] = inner(ctx, top, h)
        ctx.analysed(TK + ".to_tk." + h)
    loop = next((s for s in top.body if isinstance(s, ast.For) and "layers" in ast.unparse(s.iter)), None)
    ctx.need(loop is not None, "to_tk has no loop over the layers")
    sigs = box_signatures(ctx)
    ctx.need(len(sigs) >= 11, "fewer than 11 box signatures could be constructed (%s)" % [s[0] for s in sigs])
    for label, cname, dom, cod, attrs in sigs:
        LQ, LB = kinded("LQ", "qubit"), kinded("LB", "bit")
        left = Seq([Seg(LQ), Seg(LB)])
        rq, rb = Lin.var("rq"), Lin.var("rb")
        nq0, nb0 = LQ.length + count(dom, "qubit") + rq, LB.length + count(dom, "bit") + rb
        QL, BL = Atom("qubits", nq0), Atom("bits", nb0)
        sizes = sorted({v for w in (dom, cod) for p in w.parts for v in p.length.vars()})
        facts = Facts([Lin.var(v) - 1 for v in sizes])
        ev = EvLen(facts, "to_tk[%s]" % label)
        qubit, bit = Obj("kindtag", wires="qubit"), Obj("kindtag", wires="bit")
        isa = tuple(k.name for k in m.mro(m.cls(("discopy.quantum.circuit." if cname in ("Measure", "Discard") else "discopy.quantum.gates.") + cname)))
        bsl = Lin.var(sizes[0]) if sizes else Lin.of(1)
        box = Obj("Box", dom=dom, cod=cod, isa=isa, bitstring=Seq.atom(Atom("bitstring", bsl)), is_dagger=bool(attrs.get("_dagger")),
                  **{k: v for k, v in attrs.items() if k != "_dagger"})
        env = {"left": left, "box": box, "_": Opaque(), "qubits": Seq.atom(QL), "bits": Seq.atom(BL), "qubit": qubit, "bit": bit,
               "tk_circ": tk_model(ev), "Qubit": Closure(lambda *a: Opaque()), "Bit": Closure(lambda *a: Opaque()),
               "Id": Closure(lambda t=0: DLen(t.length, t.length) if isinstance(t, Seq) else DLen(Lin.of(t), Lin.of(t)))}
        ev.pp = nb0                    # |post_processing.cod| = number of open bit wires (the classical side of the invariant)
        for nm in ("Ket", "Bits", "Measure", "Bra", "Discard", "Swap", "Scalar", "ClassicalGate", "QuantumGate"):
            env[nm] = ClsObj("cls", name=nm)
        ev.builtins["isinstance"] = lambda v, c: any(getattr(k, "f", {}).get("name") in v.f.get("isa", ()) for k in (c if isinstance(c, tuple) else (c,))) if isinstance(v, Obj) else False
        ev.builtins["enumerate"] = lambda s: Seq.atom(Atom("enumerate", s.length)) if isinstance(s, Seq) else (_ for _ in ()).throw(Unsupported("enumerate of %r" % (s,)))
        for hname, hfn in helpers.items():
            env[hname] = Closure(lambda *args, hfn=hfn: (lambda r: r[1] if r else None)(run_helper(ev, hfn, args, env)))
        try:
            chain = [s for s in loop.body if isinstance(s, ast.If)][0]
            cur, taken = chain, None
            while True:
                if ev.truth(ev.ev(cur.test, env), cur.test):
                    taken = cur.body
                    break
                if len(cur.orelse) == 1 and isinstance(cur.orelse[0], ast.If):
                    cur = cur.orelse[0]
                else:
                    taken = cur.orelse
                    break
            e2 = dict(env)
            run_block(ev, taken, e2)
            lost = [v for v in ("qubits", "bits") if not isinstance(e2[v], Seq)]
            if lost:
                un = getattr(ev, "unlocated", [])
                if not un:
                    raise Unsupported("the value of `%s` after the handler is outside the recognised idioms" % lost[0])
                ctx.ob("R13.2", "%s.to_tk:handler[%s]" % (TK, label), False, found="`%s` is cut at a position the wire counts do not determine: %s" % (lost[0], un[-1]),
                       required="register slices located by the numbers of qubit and bit wires to the left of / inside the box", mod=TK, node=cur, sig="arity-slice:" + label)
                continue
            dq, db = e2["qubits"].length - nq0, e2["bits"].length - nb0
            wq, wb = count(cod, "qubit") - count(dom, "qubit"), count(cod, "bit") - count(dom, "bit")
            bad = []
            if not ev.facts.eq(dq, wq):
                bad.append("len(qubits) changes by %r, the box changes the number of qubit wires by %r" % (dq, wq))
            if cname != "Bra" and not ev.facts.eq(db, wb):
                bad.append("len(bits) changes by %r, the box changes the number of bit wires by %r" % (db, wb))
            ctx.ob("R13.2", "%s.to_tk:handler[%s]" % (TK, label), not bad, found="; ".join(bad) or "Δqubits = %r, Δbits = %r" % (wq, wb if cname != "Bra" else "(post-selected)"),
                   required="len(qubits) / len(bits) follow the wires of the diagram (invariant stated in to_tk)", mod=TK, node=cur, sig="arity:" + label)
            calls = getattr(ev, "pp_calls", [])
            if calls:
                badc = [w for ok_, w in calls if not ok_]
                ctx.ob("R13.8", "%s.to_tk:post-processing[%s]:composable" % (TK, label), not badc, found=badc[:2] or "%d composition(s), inputs = outputs of the post-processing so far" % len(calls),
                       required="what is composed after the post-processing has exactly its outputs as inputs (identities to the left and to the right of the gate; AxiomError otherwise)", mod=TK,
                       node=cur, sig="pp-composable:" + label)
            dpp = ev.pp - nb0
            ctx.ob("R13.8", "%s.to_tk:post-processing[%s]" % (TK, label), ev.facts.eq(dpp, wb), found="the codomain of the post-processing changes by %r bits, the box changes the number of bit wires by %r" % (dpp, wb),
                   required="the classical post-processing has one output per open bit wire (classical gates, swaps and discards are applied to it at wire positions)", mod=TK, node=cur, sig="pp-arity:" + label)
        except Unlocatable as e:
            ctx.ob("R13.2", "%s.to_tk:handler[%s]" % (TK, label), False, found=str(e), required="register slices located by wire counts", mod=TK, node=loop, sig="arity-slice:" + label)
        except (Unsupported, Undecided, HelperFailure) as e:
            raise AnalysisError("to_tk handler for %s outside the recognised idioms: %s" % (label, e))


def lin_of(e, var_src):
    """coefficient form of a simple arithmetic expression over one variable (2 * x, x / 2, x)"""
    if ast.unparse(e) == var_src:
        return Lin.var("x")
    if isinstance(e, ast.Constant) and isinstance(e.value, (int, float)):
        return Lin.of(e.value)
    if isinstance(e, ast.BinOp):
        a, b = lin_of(e.left, var_src), lin_of(e.right, var_src)
        if isinstance(e.op, ast.Mult):
            return a * b
        if isinstance(e.op, ast.Div):
            return a / b
        if isinstance(e.op, ast.Add):
            return a + b
        if isinstance(e.op, ast.Sub):
            return a - b
    raise Unsupported("angle expression %s" % ast.unparse(e))


def check_conventions(ctx):
    m = ctx.model
    top = m.func(TK + ".to_tk")
    add_gate = inner(ctx, top, "add_gate")
    ctx.analysed(TK + ".to_tk.add_gate", TK + ".from_tk")
    export = {}
    for st in ast.walk(add_gate):
        if isinstance(st, ast.If):
            names, _ = dispatch.isinstance_tests(st.test, add_gate.args.args[1].arg)
            calls = [c for s in st.body for c in ast.walk(s) if isinstance(c, ast.Call) and isinstance(c.func, ast.Call) and "__getattribute__" in ast.unparse(c.func.func)]
            if names and calls and calls[0].args and not isinstance(calls[0].args[0], ast.Starred):
                try:
                    f = lin_of(calls[0].args[0], add_gate.args.args[1].arg + ".phase")
                except Unsupported as e:
                    raise AnalysisError("add_gate: %s" % e)
                sl = calls[0].func.args[0]
                for nm in names:
                    export[nm] = f
                    k = sl.slice.upper.value if isinstance(sl, ast.Subscript) and isinstance(sl.slice, ast.Slice) and isinstance(sl.slice.upper, ast.Constant) and sl.slice.lower is None else None
                    ctx.ob("R13.1", "%s.to_tk.add_gate:%s:method" % (TK, nm), k == len(nm), found=ast.unparse(sl), required="the tket method `%s`: the first %d characters of the name `%s(phase)`" % (nm, len(nm), nm),
                           mod=TK, node=calls[0], sig="export-method-" + nm)
    fn = m.func(TK + ".from_tk")
    bft = inner(ctx, fn, "box_from_tk")
    imp = {}
    for st in bft.body:
        if isinstance(st, ast.If) and isinstance(st.test, ast.Compare) and isinstance(st.test.comparators[0], ast.Constant):
            r = st.body[-1]
            if isinstance(r, ast.Return) and isinstance(r.value, ast.Call) and r.value.args:
                try:
                    imp[st.test.comparators[0].value] = (ast.unparse(r.value.func), lin_of(r.value.args[0], "tk_gate.op.params[0]"))
                except Unsupported as e:
                    raise AnalysisError("box_from_tk: %s" % e)
    # every case of the reader is selected by the NAME of the tket operation
    nmv = next((ast.unparse(s_.targets[0]) for s_ in bft.body if isinstance(s_, ast.Assign) and ast.unparse(s_.value).endswith(".op.type.name")), None)
    ctx.need(nmv is not None, "box_from_tk does not read the name of the operation")
    gate_arg = bft.args.args[0].arg
    shape.match_stmts(ctx, "R13.1", TK + ".from_tk.box_from_tk:name", [s_ for s_ in bft.body if isinstance(s_, ast.Assign)], ["name = tk_gate.op.type.name"], {nmv: "name", gate_arg: "tk_gate"}, mod=TK, node=bft, sig="import-name", exact=True)
    tests_ = [s_.test for s_ in ast.walk(bft) if isinstance(s_, ast.If)]
    badt = [ast.unparse(t_) for t_ in tests_ if not (isinstance(t_, ast.Compare) and len(t_.ops) == 1 and isinstance(t_.ops[0], ast.Eq) and ast.unparse(t_.left) == nmv)]
    ctx.ob("R13.1", TK + ".from_tk.box_from_tk:selected-by-name", not badt, found=badt or "%d cases, each `%s == ...`" % (len(tests_), nmv), required="every case compares the name of the operation (a string) with a name", mod=TK, node=bft,
           sig="import-by-name")
    x = Lin.var("x")
    for nm in ("Rx", "Rz", "CRz"):
        ok_e = export.get(nm) == x * 2
        ctx.ob("R13.1", "%s.to_tk.add_gate:%s" % (TK, nm), ok_e, found="angle = %r" % (export.get(nm),), required="2 * phase (tket counts half turns; discopy full turns, C11)", mod=TK, node=add_gate,
               sig="export-" + nm)
        cls, f = imp.get(nm, (None, None))
        ctx.ob("R13.1", "%s.from_tk.box_from_tk:%s" % (TK, nm), cls == nm and f == x / 2, found="%s(%r)" % (cls, f), required="%s(angle / 2)" % nm, mod=TK, node=bft, sig="import-" + nm)
    lp = next((x for x in bft.body if isinstance(x, ast.For) and ast.unparse(x.iter) == "GATES"), None)
    ctx.need(lp is not None, "box_from_tk has no loop over GATES")
    gate = ast.unparse(lp.target)
    hits = [i for i in ast.walk(lp) if isinstance(i, ast.If) and shape.key(i.test) == shape.key(shape.parse("name == %s.name" % gate)) and isinstance(i.body[-1], ast.Return)
            and ast.unparse(i.body[-1].value) == gate]
    ok = bool(hits) and isinstance(bft.body[-1], ast.Raise) and "NotImplementedError" in ast.unparse(bft.body[-1])
    ctx.ob("R13.1", TK + ".from_tk.box_from_tk:named-gates", ok, found=ast.unparse(lp)[:200], required="other gates are looked up by name in GATES; unknown operations raise NotImplementedError", mod=TK, node=bft,
           sig="import-named")
    last = add_gate.body[-1]
    ok = isinstance(last, ast.If) and any(isinstance(s, ast.Raise) and "NotImplementedError" in ast.unparse(s) for s in ast.walk(last))
    ctx.ob("R13.1", TK + ".to_tk.add_gate:refuses", ok, found=ast.unparse(last)[-80:], required="gates tket does not know raise NotImplementedError", mod=TK, node=add_gate, sig="export-refuses")


def mentions_flag(node, box):
    return any(isinstance(x, ast.Attribute) and x.attr in ("is_dagger", "_dagger") and isinstance(x.value, ast.Name) and x.value.id == box for x in ast.walk(node))


def named_exports(fn, box):
    """(call, tests on the path, local assignments in scope) for each export `tk_circ.__getattribute__(<name expr>)(*qubits)` without an angle"""
    out = []

    def walk(body, tests, local):
        local = dict(local)
        for st in body:
            if isinstance(st, ast.Assign) and len(st.targets) == 1 and isinstance(st.targets[0], ast.Name):
                local[st.targets[0].id] = st.value
            if isinstance(st, ast.If):
                walk(st.body, tests + [st.test], local)
                walk(st.orelse, tests + [st.test], local)
                continue
            for c in ast.walk(st):
                if isinstance(c, ast.Call) and isinstance(c.func, ast.Call) and "__getattribute__" in ast.unparse(c.func.func) and all(isinstance(x, ast.Starred) for x in c.args):
                    out.append((c, tests, local))
    walk(fn.body, [], {})
    return out


def check_flag(ctx):
    """R13.3: add_gate exports a gate by its name; gates that take their dagger by a flag keep their name, so the flag must be translated"""
    m = ctx.model
    top = m.func(TK + ".to_tk")
    add_gate = inner(ctx, top, "add_gate")
    box = add_gate.args.args[1].arg
    exports = named_exports(add_gate, box)
    ctx.need(bool(exports), "add_gate has no branch exporting a gate by its name")
    for call, tests, local in exports:
        name_expr = call.func.args[0]
        deps = [name_expr] + [local[x.id] for x in ast.walk(name_expr) if isinstance(x, ast.Name) and x.id in local]
        by_name = any(isinstance(x, ast.Attribute) and x.attr == "name" for d in deps for x in ast.walk(d))
        if not by_name:
            continue
        handles = any(mentions_flag(d, box) for d in deps) or any(mentions_flag(t, box) for t in tests)
        ctx.ob("R13.3", TK + ".to_tk.add_gate:dagger-flag", handles, found="exports %s under the tests %s" % (ast.unparse(name_expr), [ast.unparse(t) for t in tests[-2:]]),
               required="the name of the exported operation depends on the dagger flag of the box (S.dagger() has the name of S), or flagged boxes are refused", mod=TK, node=call, sig="export-flag")
    # the dagger of a table gate is exported under `<name>dg`: tket has such an operation only for S, T, V, SX (+ controlled forms); a self-adjoint gate must
    # therefore BE its own dagger (`_dagger=None`), or X.dagger(), H.dagger(), CZ.dagger() ... are refused although they are X, H, CZ
    import numpy as np
    from ..tables import fold as tfold, as_matrix, NotFoldable, close
    HAS_DG = {"S", "T", "V", "SX", "CSX", "CV"}
    G_ = "discopy.quantum.gates"
    ng = 0
    for st in m.modules[G_].body:
        if not (isinstance(st, ast.Assign) and isinstance(st.value, ast.Call) and ast.unparse(st.value.func) == "QuantumGate"):
            continue
        c = st.value
        try:
            name, M = tfold(c.args[0]), as_matrix(tfold(c.args[2]))
            dag = False
            for k in c.keywords:
                if k.arg == "_dagger":
                    dag = tfold(k.value)
        except NotFoldable as e:
            raise AnalysisError("gate table %s outside the foldable vocabulary: %s" % (ast.unparse(st.targets[0]), e))
        ng += 1
        herm = close(M, M.conj().T)
        ok = dag is None or name in HAS_DG or not herm
        ctx.ob("R13.3", "%s.%s:exportable-dagger" % (G_, ast.unparse(st.targets[0])), ok, found="_dagger=%r, Hermitian=%s, tket operation %sdg: %s" % (dag, herm, name, "exists" if name in HAS_DG else "does not exist"),
               required="the dagger of every table gate can be exported: it is the gate itself (self-adjoint, `_dagger=None`) or tket has the operation `<name>dg`", mod=G_, node=st, sig="exportable-dagger:" + str(name))
    ctx.need(ng >= 7, "fewer than 7 literal gate tables found in gates.py (%d)" % ng)
    fn = m.func(TK + ".from_tk")
    bft = inner(ctx, fn, "box_from_tk")
    lp = next((s for s in bft.body if isinstance(s, ast.For) and ast.unparse(s.iter) == "GATES"), None)
    ctx.need(lp is not None, "box_from_tk has no loop over GATES")
    rets = [ast.unparse(r.value) for r in ast.walk(lp) if isinstance(r, ast.Return)]
    gate = ast.unparse(lp.target)
    ok = gate in rets and any(r.startswith(gate + ".dagger()") or r.startswith(gate + "[::-1]") for r in rets)
    ctx.ob("R13.3", TK + ".from_tk.box_from_tk:dagger-names", ok, found=rets, required="the daggered operations written by the exporter are read back as the dagger of the named gate", mod=TK, node=lp,
           sig="import-flag")


STATE = ("scalar", "post_selection", "post_processing")


def loop_vars(lp):
    """(index variable or None, item variable or None) of `for i, x in enumerate(...)` / `for x in ...`"""
    t = lp.target
    if isinstance(t, ast.Tuple) and len(t.elts) == 2 and isinstance(lp.iter, ast.Call) and ast.unparse(lp.iter.func) == "enumerate":
        return t.elts[0].id, (t.elts[1].id if isinstance(t.elts[1], ast.Name) else None)
    return None, (t.id if isinstance(t, ast.Name) else None)


def batch_discipline(lp, lists):
    """reads inside a loop over a batch that do not belong to the current item: per-circuit state of another object, lists indexed by another index"""
    idx, item = loop_vars(lp)
    bad = []
    for s in lp.body:
        for x in ast.walk(s):
            if isinstance(x, ast.Attribute) and x.attr in STATE and isinstance(x.value, ast.Name) and x.value.id != item:
                bad.append(ast.unparse(x))
            if isinstance(x, ast.Subscript) and isinstance(x.value, ast.Name) and x.value.id in lists and not (isinstance(x.slice, ast.Name) and x.slice.id == idx):
                bad.append(ast.unparse(x))
    return sorted(set(bad)), idx, item


def check_batches(ctx):
    """R13.4: inside a loop over a batch of circuits, per-circuit state is read from the loop variable"""
    m = ctx.model
    fn = m.func(TK + ".Circuit.get_counts")
    ctx.analysed(TK + ".Circuit.get_counts")
    self_ = fn.args.args[0].arg
    others = fn.args.vararg.arg if fn.args.vararg else "others"
    n = 0
    for lp in [s for s in ast.walk(fn) if isinstance(s, ast.For)]:
        it = ast.unparse(lp.iter).replace(" ", "")
        if "(%s,)+%s" % (self_, others) not in it:
            continue
        n += 1
        bad, idx, item = batch_discipline(lp, ("counts",))
        ctx.ob("R13.4", "%s.Circuit.get_counts:batch-loop@%d" % (TK, n), not bad, found=bad or "state read from `%s`, counts indexed by `%s`" % (item, idx),
               required="the state of the i-th circuit (scalar, post_selection) and the i-th counts, not those of `self` or of a fixed index", mod=TK, node=lp, sig="batch-state:" + ",".join(bad))
    ctx.need(n >= 3, "fewer than 3 batch loops in tk.Circuit.get_counts (%d)" % n)
    calls = [c for c in ast.walk(fn) if isinstance(c, ast.Call) and isinstance(c.func, ast.Attribute) and c.func.attr == "process_circuits"]
    ctx.need(len(calls) == 1, "get_counts does not submit the batch through backend.process_circuits once")
    arg = ast.unparse(calls[0].args[0]).replace(" ", "") if calls[0].args else None
    ctx.ob("R13.4", TK + ".Circuit.get_counts:submitted-batch", arg == "(%s,)+%s" % (self_, others), found=arg, required="(self,) + others, in this order (counts[i] belongs to the i-th circuit)", mod=TK,
           node=calls[0], sig="batch-order")
    cg = m.func("discopy.quantum.circuit.Circuit.get_counts")
    rb = [r_ for r_ in cg.body if isinstance(r_, ast.Return)]
    shape.match(ctx, "R13.4", "discopy.quantum.circuit.Circuit.get_counts:backend-result", rb[-1].value if rb else None, "counts if len(counts) > 1 else counts[0]", {}, mod="discopy.quantum.circuit", node=cg,
                sig="get-counts-backend-result", required="the list of tables for a batch, the table itself for one circuit")
    ce_ = m.func("discopy.quantum.circuit.Circuit.eval")
    re_ = [r_ for r_ in ce_.body if isinstance(r_, ast.Return)]
    shape.match(ctx, "R13.4", "discopy.quantum.circuit.Circuit.eval:backend-result", re_[-1].value if re_ else None, "results if len(results) > 1 else results[0]", {}, mod="discopy.quantum.circuit", node=ce_,
                sig="eval-backend-result", required="the list of results for a batch, the result itself for one circuit")
    # the eval side: results[i] built from counts[i] and circuits[i].post_processing
    ev = m.func("discopy.quantum.circuit.Circuit.eval")
    ctx.analysed("discopy.quantum.circuit.Circuit.eval")
    lp = next((s for s in ast.walk(ev) if isinstance(s, ast.For) and ast.unparse(s.iter) == "enumerate(circuits)"), None)
    ctx.need(lp is not None, "Circuit.eval has no loop over the translated circuits")
    bad, idx, item = batch_discipline(lp, ("counts", "circuits"))
    ctx.ob("R13.4", "discopy.quantum.circuit.Circuit.eval:batch-loop", not bad, found=bad or "counts[%s] and %s.post_processing" % (idx, item), required="the i-th result uses counts[i] and the i-th circuit's post-processing",
           mod="discopy.quantum.circuit", node=lp, sig="eval-batch")
    gc = next((c for c in ast.walk(ev) if isinstance(c, ast.Call) and isinstance(c.func, ast.Attribute) and c.func.attr == "get_counts"), None)
    ctx.need(gc is not None, "Circuit.eval does not call get_counts")
    got = (ast.unparse(gc.func.value), [ast.unparse(a) for a in gc.args])
    ctx.ob("R13.4", "discopy.quantum.circuit.Circuit.eval:submitted-batch", got == ("circuits[0]", ["*circuits[1:]"]), found=got, required="circuits[0].get_counts(*circuits[1:], ...): every circuit once, in order",
           mod="discopy.quantum.circuit", node=gc, sig="eval-batch-order")


def check_dispatch(ctx):
    m = ctx.model
    top = m.func(TK + ".to_tk")
    loop = next((s for s in top.body if isinstance(s, ast.For) and "layers" in ast.unparse(s.iter)), None)
    boxv = loop.target.elts[1].id
    chain = [s for s in loop.body if isinstance(s, ast.If)][0]
    tests = []
    cur = chain
    while True:
        tests.append(cur)
        if len(cur.orelse) == 1 and isinstance(cur.orelse[0], ast.If):
            cur = cur.orelse[0]
        else:
            break
    names = [ast.unparse(t.test) for t in tests]

    def holds(test, c, dagger):
        if isinstance(test, ast.BoolOp):
            vals = [holds(v, c, dagger) for v in test.values]
            return all(vals) if isinstance(test.op, ast.And) else any(vals)
        if isinstance(test, ast.UnaryOp) and isinstance(test.op, ast.Not):
            return not holds(test.operand, c, dagger)
        if isinstance(test, ast.Call) and ast.unparse(test.func) == "isinstance" and ast.unparse(test.args[0]) == boxv:
            t = test.args[1]
            return any(m.is_subclass(c, m.resolve_class(TK, ast.unparse(e))) for e in (t.elts if isinstance(t, ast.Tuple) else [t]))
        if ast.unparse(test) in (boxv + ".is_dagger", boxv + "._dagger"):
            return dagger
        raise AnalysisError("to_tk dispatch: test `%s` outside the recognised forms" % ast.unparse(test))

    def handler_of(body):
        calls = {c.func.id for s in body for c in ast.walk(s) if isinstance(c, ast.Call) and isinstance(c.func, ast.Name)} | \
            {c.func.attr for s in body for c in ast.walk(s) if isinstance(c, ast.Call) and isinstance(c.func, ast.Attribute) and ast.unparse(c.func.value) == "tk_circ"}
        targets = {t.id for s in body if isinstance(s, ast.Assign) for t in s.targets if isinstance(t, ast.Name) and isinstance(s.value, ast.BinOp)
                   and all(isinstance(x, ast.Subscript) for x in (s.value.left, s.value.right))}
        if {"bits", "qubits"} <= targets:
            return "slices"
        for h in ("prepare_qubits", "prepare_bits", "measure_qubits", "add_gate", "scale", "swap", "post_process"):
            if h in calls:
                return h
        if any(isinstance(s, ast.Raise) for s in body):
            return "raise"
        return "slices" if any(isinstance(x, ast.Slice) for s in body for x in ast.walk(s)) else "other"

    G, C = "discopy.quantum.gates.", "discopy.quantum.circuit."
    WANT = [(G + "Ket", False, "prepare_qubits"), (G + "Bits", False, "prepare_bits"), (G + "Bits", True, "post_process"), (G + "Bra", False, "measure_qubits"), (C + "Measure", False, "measure_qubits"),
            (C + "Discard", False, "slices"), (C + "Swap", False, "swap"), (G + "Scalar", False, "scale"), (G + "MixedScalar", False, "scale"), (G + "ClassicalGate", False, "post_process"),
            (G + "ClassicalGate", True, "post_process"), (G + "Copy", False, "post_process"), (G + "Match", False, "post_process"), (G + "QuantumGate", False, "add_gate"),
            (G + "QuantumGate", True, "add_gate"), (G + "Rx", False, "add_gate"), (G + "Rz", False, "add_gate"), (G + "CRz", False, "add_gate"), (G + "Controlled", False, "add_gate"),
            (G + "Sqrt", False, "scale")]
    for q, dg, want in WANT:
        c = m.cls(q)
        arm = next((t for t in tests if holds(t.test, c, dg)), None)
        got = handler_of(arm.body if arm is not None else cur.orelse)
        ctx.ob("R13.6", "%s.to_tk:dispatch[%s%s]" % (TK, c.name, ".dagger()" if dg else ""), got == want, found="first matching arm: %s -> %s" % (ast.unparse(arm.test) if arm is not None else "else", got),
               required="handled by %s" % want, mod=TK, node=arm or chain, sig="dispatch:%s:%s" % (c.name, dg))
    idx = {"Scalar": next((i for i, t in enumerate(tests) if handler_of(t.body) == "scale"), None)}
    last = cur.orelse
    ctx.ob("R13.6", TK + ".to_tk:total", bool(last) and isinstance(last[-1], ast.Raise) and "NotImplementedError" in ast.unparse(last[-1]), found=ast.unparse(last[-1])[:60] if last else None,
           required="unknown boxes raise NotImplementedError", mod=TK, node=chain, sig="dispatch-total")
    # Born rule, sibling of cqmap.Functor._ar
    sc = tests[idx["Scalar"]] if idx["Scalar"] is not None else None
    arg = next((c.args[0] for s in (sc.body if sc else []) for c in ast.walk(s) if isinstance(c, ast.Call) and ast.unparse(c.func) == "tk_circ.scale"), None)
    shape.match(ctx, "R13.5", TK + ".to_tk:Scalar", arg, "box.array[0] if box.is_mixed else abs(box.array[0]) ** 2", {boxv: "box"}, mod=TK, node=sc or chain, sig="born-rule",
                required="the same Born rule as cqmap.Functor (C12 R12.5)")
    # the preamble: inputs initialised, qubits discarded; Ket(1) rewritten as Ket(0) >> X
    cname = top.args.args[0].arg
    iter_name = loop.iter.value.id if isinstance(loop.iter, ast.Attribute) and isinstance(loop.iter.value, ast.Name) else None
    pre = [st for st in top.body[:top.body.index(loop)] if isinstance(st, ast.Assign)]
    ok = any(isinstance(st.value, ast.Call) and isinstance(st.value.func, ast.Attribute) and st.value.func.attr == "init_and_discard" and ast.unparse(st.value.func.value) == cname
             and ast.unparse(st.targets[0]) == iter_name for st in pre) or \
        (any(isinstance(st.value, ast.Call) and isinstance(st.value.func, ast.Attribute) and st.value.func.attr == "init_and_discard" for st in pre) and iter_name == cname)
    ctx.ob("R13.6", TK + ".to_tk:init-and-discard", ok, found=[ast.unparse(st) for st in pre if cname in ast.unparse(st)], required="the circuit whose layers are exported is circuit.init_and_discard() "
           "(inputs initialised, qubits discarded: what get_counts can observe)", mod=TK, node=top, sig="preamble")
    rk = inner(ctx, top, "remove_ket1")
    ret = [r for r in rk.body if isinstance(r, ast.Return)]
    ctx.need(bool(ret), "remove_ket1 has no final return")
    shape.match(ctx, "R13.6", TK + ".to_tk.remove_ket1", ret[-1].value, "Ket(*(len(box.bitstring) * (0,))) >> Id(0).tensor(*(X if x else Id(1) for x in box.bitstring))",
                {rk.args.args[0].arg: "box"}, body=rk.body, mod=TK, node=rk, sig="remove-ket1", required="Ket(b) = Ket(0..0) >> X on the wires where b is 1")
    # from_tk postlude: post-selected qubits become bras, other qubits are discarded, the scalar is re-attached as a mixed scalar
    fn = m.func(TK + ".from_tk")
    gen = next((g for g in own_nodes(fn) if isinstance(g, ast.GeneratorExp) and "enumerate" in ast.unparse(g.generators[0].iter) and "Bra" in ast.unparse(g.elt)), None)
    ctx.need(gen is not None, "from_tk has no postlude over the output wires")
    tgt = gen.generators[0].target
    nm = {tgt.elts[0].id: "i", tgt.elts[1].id: "x"} if isinstance(tgt, ast.Tuple) and len(tgt.elts) == 2 else {}
    shape.match(ctx, "R13.6", TK + ".from_tk:postlude", gen.elt, "Bra(bras[i]) if i in bras else Discard() if x.name == 'qubit' else Id(bit)", nm, mod=TK, node=gen, sig="from-tk-postlude",
                required="bras for post-selected qubits, discards for the other qubits, bits kept")
    ms = next((c for c in own_nodes(fn) if isinstance(c, ast.Call) and ast.unparse(c.func) in ("MixedScalar", "Scalar", "scalar")), None)
    ok = ms is not None and ast.unparse(ms.func) == "MixedScalar" and len(ms.args) == 1 and ast.unparse(ms.args[0]) == fn.args.args[0].arg + ".scalar"
    ctx.ob("R13.6", TK + ".from_tk:scalar", ok, found=ast.unparse(ms) if ms else None, required="MixedScalar(tk_circuit.scalar): the scalar of a tk.Circuit multiplies probabilities (to_tk applied the Born rule)", mod=TK,
           node=ms or fn, sig="from-tk-scalar")
    last = fn.body[-1]
    ok = isinstance(last, ast.Return) and isinstance(last.value, ast.BinOp) and isinstance(last.value.op, ast.RShift) and ast.unparse(last.value.right) == fn.args.args[0].arg + ".post_processing"
    ctx.ob("R13.6", TK + ".from_tk:post-processing", ok, found=ast.unparse(last)[:80], required="the classical post-processing is composed after the circuit", mod=TK, node=last, sig="from-tk-postproc")


def check(ctx):
    ctx.rule("R13.1", "angle conventions and names: writer multiplies Rx/Rz/CRz phases by 2, reader divides by 2; exported names have importers; unknown gates are refused")
    ctx.rule("R13.2", "register arity: each handler of to_tk changes len(qubits) / len(bits) by the Δ of the box signature (the invariant stated in the source)")
    ctx.rule("R13.3", "flag-daggered gates are exported with the flag translated (and read back)")
    ctx.rule("R13.4", "batch loops read per-circuit state (scalar, post_selection, post-processing) from the loop variable")
    ctx.rule("R13.5", "Born rule on scalars, same as cqmap.Functor")
    ctx.rule("R13.6", "dispatch order / totality of the layer loop; preamble and postlude")
    ctx.rule("R13.7", "register lists: the registers renamed by prepare_* are the ones whose entries are shifted; lists split by value stay sorted")
    ctx.rule("R13.9", "wire positions: add_bit receives the position at which the register enters `bits`; from_tk maps a register to its wire without the post-selected ones")
    ctx.rule("R13.10", "from_tk.make_units_adjacent: effect of a step on wire positions (first qubit at offset, second right after it)")
    ctx.rule("R13.11", "tk.Circuit.rename_units re-keys the post-selection simultaneously")
    ctx.rule("R13.8", "the classical post-processing has one output per open bit wire after every handler")
    ctx.attempt(check_conventions, ctx)
    ctx.attempt(check_arity, ctx)
    ctx.attempt(check_flag, ctx)
    ctx.attempt(check_batches, ctx)
    ctx.attempt(check_dispatch, ctx)
    from . import c13b
    c13b.check(ctx)
    ctx.rule("R13.12", "the offsets into the registers are counted with Ty.count (decided with C12 R12.6)")
    try:
        ctx.depend("R13.12", "C12", "to_tk locates a box in the registers with left.count(qubit) / left.count(bit): count must be the number of such wires", rules={"R12.6"}, constructs=["Ty.count"])
    except AnalysisError:
        if not any(not o.ok for o in ctx.obs):
            raise
    ctx.floor("R13.7", 5)
    ctx.floor("R13.9", 6)
    ctx.floor("R13.10", 5)
    ctx.floor("R13.11", 3)
    ctx.floor("R13.1", 11)
    ctx.floor("R13.2", 11)
    ctx.floor("R13.8", 11)
    ctx.floor("R13.4", 7)
    ctx.floor("R13.6", 25)
    ctx.not_decided += ["equality of output distributions on a simulator", "which physical unit a rename lands on beyond arity", "swap routing of from_tk.make_units_adjacent"]
