"""Engine C′: abstract construction of box objects and abstract execution of their rebuild methods.

A generic instance of a box class is built by running its `__init__` chain (along the MRO resolved by engine A) on abstract
argument values; a method such as `dagger`, `subs`, `lambdify` is then run on that instance and the object it returns is compared,
attribute by attribute, with what the property requires.  Values:
  ints            -> Lin (symbolic, non-negative unless stated)        bools / None / str  -> themselves
  types           -> Seq (words: single objects, powers n·ob, opaque type atoms)
  data, arrays    -> Sym terms (opaque, structural equality, involutions normalised: -(-x) = x, conj(conj(x)) = x)
  instances       -> Inst(cls, attrs)
Tests that the abstract values do not decide are resolved by an oracle that is enumerated by the driver (`explore`), so every
combination of outcomes is analysed.  Nothing from /repo is executed."""
import ast
import itertools
from .lin import Lin, Facts
from .words import Seq, Seg, Item, Rep, Atom, Unlocatable
from .model import AnchorError


class Unsupported(Exception):
    pass


class NeedOracle(Exception):
    def __init__(self, key):
        super().__init__(key)
        self.key = key


class RaisesError(Exception):
    """the analysed code raises (TypeError from a failed binding, explicit raise, ...)"""
    def __init__(self, what):
        super().__init__(what)
        self.what = what


class Sym:
    """opaque symbolic term"""
    __slots__ = ("tag", "args")

    def __init__(self, tag, *args):
        self.tag, self.args = tag, tuple(args)

    def key(self):
        return (self.tag,) + tuple(a.key() if isinstance(a, Sym) else _k(a) for a in self.args)

    def __eq__(self, o):
        return isinstance(o, Sym) and self.key() == o.key()

    def __hash__(self):
        return hash(self.key())

    def __repr__(self):
        if not self.args:
            return self.tag
        return "%s(%s)" % (self.tag, ", ".join(map(_show, self.args)))


def _k(a):
    if isinstance(a, Lin):
        return ("lin", a.key())
    if isinstance(a, Seq):
        return ("seq", repr(a))
    if isinstance(a, Inst):
        return ("inst", a.cls.q, a.uid)
    if isinstance(a, (list, tuple)):
        return tuple(_k(x) for x in a)
    if isinstance(a, dict):
        return tuple(sorted((k, _k(v)) for k, v in a.items()))
    return a if isinstance(a, (str, int, float, complex, bool, type(None))) else repr(a)


def _show(a):
    return repr(a)


def _has_param(a):
    if isinstance(a, Sym):
        return a.tag.startswith("param:") or any(_has_param(x) for x in a.args)
    if isinstance(a, (tuple, list)):
        return any(_has_param(x) for x in a)
    return False


def _numeric_constant(v):
    """a term built by numpy.zeros / ones / eye / identity from values that contain no data parameter"""
    if isinstance(v, Sym) and v.tag == "call" and isinstance(v.args[0], Sym) and v.args[0].tag == "attr" \
            and v.args[0].args[1] in ("zeros", "ones", "eye", "identity") and "numpy" in repr(v.args[0].args[0]):
        return not _has_param(v.args[1])
    return False


def mk(tag, *args):
    """smart constructor with the tiny normalisation theory"""
    if tag in ("neg", "conj", "not") and len(args) == 1 and isinstance(args[0], Sym) and args[0].tag == tag:
        return args[0].args[0]
    if tag == "neg" and isinstance(args[0], (int, float, complex)) and not isinstance(args[0], bool):
        return -args[0]
    if tag == "neg" and isinstance(args[0], Lin):
        return -args[0]
    return Sym(tag, *args)


class Inst:
    def __init__(self, cls, uid=0):
        self.cls, self.attrs, self.uid = cls, {}, uid

    def __repr__(self):
        return "<%s %s>" % (self.cls.q.replace("discopy.", ""), {k: v for k, v in self.attrs.items() if k in ("_name", "_dom", "_cod", "_data", "_dagger", "_mixed")})


class ClassRef:
    def __init__(self, cls):
        self.cls = cls

    def __repr__(self):
        return "class " + self.cls.q


class Bound:
    def __init__(self, inst, owner, fn, kind, after=None):
        self.inst, self.owner, self.fn, self.kind = inst, owner, fn, kind


class LocalFn:
    """a nested def with a statement body (e.g. recursive_free_symbols inside cat.Box.__init__)"""
    def __init__(self, node, env, owner, mod):
        self.node, self.env, self.owner, self.mod = node, env, owner, mod


class Lam:
    def __init__(self, node, env, owner):
        self.node, self.env, self.owner = node, env, owner


_POW = {}


def type_pow(t, n):
    """t ** n on abstract types"""
    n = Lin.of(n)
    if not t.parts:
        return Seq()
    if len(t.parts) == 1:
        p = t.parts[0]
        if isinstance(p, Item):
            return Seq([Rep(n, p.value)])
        if isinstance(p, Rep):
            return Seq([Rep(p.n * n, p.value)]) if (n.is_const() or p.n.is_const()) else _opaque_pow(t, n)
    return _opaque_pow(t, n)


def _opaque_pow(t, n):
    key = (repr(t), n.key())
    if key not in _POW:
        length = t.length * n if (n.is_const() or t.length.is_const()) else Lin.var("|%r**%r|" % (t, n))
        _POW[key] = Atom("(%r)**%r" % (t, n), length)
    return Seq.atom(_POW[key])


class Sim:
    def __init__(self, model, oracle=None, facts=None):
        self.m = model
        self.oracle = dict(oracle or {})
        self.asked = []
        self.facts = facts or Facts()
        self.ty = model.cls("discopy.monoidal.Ty")
        self.arrow = model.cls("discopy.cat.Arrow")
        self.depth = 0
        self.notes = []

    # ------------------------------------------------------------------ decisions
    def decide(self, key):
        if key not in self.oracle:
            raise NeedOracle(key)
        if key not in self.asked:
            self.asked.append(key)
        return self.oracle[key]

    def truth(self, v, node=None):
        if isinstance(v, bool) or v is None:
            return bool(v)
        if isinstance(v, Lin):
            s = self.facts.sign(v)
            if s in ("+", "-"):
                return True
            if s == "0":
                return False
            return self.decide("nonzero:%r" % v)
        if isinstance(v, Seq):
            return self.truth(v.length, node)
        if isinstance(v, (str, tuple, list, dict)):
            return bool(v)
        if isinstance(v, (int, float, complex)):
            return bool(v)
        if isinstance(v, (Inst, ClassRef, Bound, Lam, LocalFn)):
            return True
        if isinstance(v, (set, frozenset)):
            return bool(v)
        if isinstance(v, Sym):
            if v.tag == "not":
                return not self.truth(v.args[0], node)
            if v.tag == "rep" and isinstance(v.args[0], tuple) and v.args[0] and isinstance(v.args[1], Lin):
                return self.truth(v.args[1], node)
            return self.decide("truth:%r" % (v,))
        raise Unsupported("truth of %r" % (v,))

    def elements(self, it):
        """the (distinct) elements of an iterable abstract value, or None when unknown; a power n·ob contributes ob when n may be > 0"""
        if isinstance(it, (list, tuple)):
            if any(isinstance(x, tuple) and x and x[0] == "star" for x in it):
                return None
            return list(it)
        if isinstance(it, Seq):
            out = []
            for p in it.parts:
                if isinstance(p, Item):
                    out.append(p.value)
                elif isinstance(p, Rep):
                    if self.facts.zero(p.n):
                        continue
                    if not self.facts.pos(p.n) and not self.decide("nonzero:%r" % p.n):
                        continue
                    out.append(p.value)
                else:
                    return None
            return out
        return None

    # ------------------------------------------------------------------ names
    def global_name(self, mod, name):
        r = self.m.resolve(mod, name)
        if r is None:
            if name in ("int", "float", "complex", "str", "bool", "list", "tuple", "dict", "len", "isinstance", "type", "super", "getattr", "hasattr",
                        "map", "all", "any", "sum", "range", "zip", "enumerate", "repr", "abs", "set", "Exception", "TypeError", "ValueError",
                        "NotImplementedError", "format"):
                return ("builtin", name)
            return Sym("global", mod.split(".")[-1] + "." + name)
        kind, val = r
        if kind == "class":
            return ClassRef(val)
        if kind == "value":
            vm, node = val
            return self.ev(node, {}, vm)
        if kind == "function":
            return ("function", val)
        if kind == "module":
            return ("module", val)
        return Sym("global", name)

    # ------------------------------------------------------------------ expressions
    def ev(self, n, env, mod, inst=None, owner=None):
        E = lambda x: self.ev(x, env, mod, inst, owner)
        if isinstance(n, ast.Constant):
            v = n.value
            if isinstance(v, bool) or v is None or isinstance(v, str):
                return v
            if isinstance(v, int):
                return Lin.of(v)
            return v
        if isinstance(n, ast.Name):
            if n.id in env:
                return env[n.id]
            return self.global_name(mod, n.id)
        if isinstance(n, ast.Tuple):
            return tuple(E(e) for e in n.elts)
        if isinstance(n, ast.List):
            return [E(e) for e in n.elts]
        if isinstance(n, ast.Dict):
            return {E(k): E(v) for k, v in zip(n.keys, n.values)}
        if isinstance(n, ast.Set):
            return mk("set", tuple(E(e) for e in n.elts))
        if isinstance(n, (ast.SetComp, ast.DictComp)):
            return mk("comp", ast.unparse(n), tuple(sorted((k, _k(v)) for k, v in env.items() if k in {x.id for x in ast.walk(n) if isinstance(x, ast.Name)})))
        if isinstance(n, ast.Lambda):
            return Lam(n, dict(env), owner)
        if isinstance(n, ast.IfExp):
            return E(n.body) if self.truth(E(n.test), n.test) else E(n.orelse)
        if isinstance(n, ast.BoolOp):
            v = None
            for e in n.values:
                v = E(e)
                t = self.truth(v, e)
                if isinstance(n.op, ast.And) and not t:
                    return v
                if isinstance(n.op, ast.Or) and t:
                    return v
            return v
        if isinstance(n, ast.UnaryOp):
            v = E(n.operand)
            if isinstance(n.op, ast.Not):
                if isinstance(v, Sym):
                    return mk("not", v)
                return not self.truth(v, n.operand)
            if isinstance(n.op, ast.USub):
                return mk("neg", v)
            raise Unsupported(ast.unparse(n))
        if isinstance(n, ast.Compare):
            vals = [E(n.left)] + [E(c) for c in n.comparators]
            res = True
            for op, a, b in zip(n.ops, vals, vals[1:]):
                if not self.compare(op, a, b, n):
                    return False
            return res
        if isinstance(n, ast.BinOp):
            return self.binop(n.op, E(n.left), E(n.right), n)
        if isinstance(n, ast.Attribute):
            base = E(n.value)
            return self.getattr(base, n.attr, n, mod)
        if isinstance(n, ast.Subscript):
            base = E(n.value)
            if isinstance(n.slice, ast.Slice):
                lo = E(n.slice.lower) if n.slice.lower else None
                hi = E(n.slice.upper) if n.slice.upper else None
                if isinstance(base, Seq) and n.slice.step is None:
                    try:
                        return base.slice(lo, hi, self.facts)
                    except Unlocatable as e:
                        raise Unsupported("slice %s: %s" % (ast.unparse(n), e))
                if isinstance(base, str) and n.slice.step is None and isinstance(lo, (Lin, type(None))) and isinstance(hi, (Lin, type(None))):
                    return base[(int(lo.const()) if lo is not None else None):(int(hi.const()) if hi is not None else None)]
                return mk("slice", base, lo, hi)
            idx = E(n.slice)
            if isinstance(base, (tuple, list)) and isinstance(idx, Lin) and idx.is_const():
                return base[int(idx.const())]
            if isinstance(base, dict) and idx in base:
                return base[idx]
            if isinstance(base, Seq):
                try:
                    return base.item(idx, self.facts)
                except Unlocatable:
                    return mk("item", base, idx)
            return mk("item", base, idx)
        if isinstance(n, ast.Call):
            return self.call(n, env, mod, inst, owner)
        if isinstance(n, (ast.ListComp, ast.GeneratorExp)) and len(n.generators) == 1 and not n.generators[0].ifs:
            g = n.generators[0]
            it = E(g.iter)
            elems = self.elements(it)
            if elems is not None:
                out = []
                for x in elems:
                    e2 = dict(env)
                    self.assign(g.target, x, e2, mod, inst, owner)
                    out.append(self.ev(n.elt, e2, mod, inst, owner))
                return out
        if isinstance(n, (ast.ListComp, ast.GeneratorExp)) and len(n.generators) == 1 and not n.generators[0].ifs:
            g = n.generators[0]
            try:
                e2 = dict(env)
                self.assign(g.target, Sym("elem"), e2, mod, inst, owner)
                saved = dict(self.oracle)
                v = self.ev(n.elt, e2, mod, inst, owner)
                if isinstance(v, bool):
                    return mk("gen-const", v, ast.unparse(n.generators[0].iter))
            except (NeedOracle, Unsupported, RaisesError):
                pass
        if isinstance(n, (ast.ListComp, ast.GeneratorExp)):
            return mk("comp", ast.unparse(n), tuple(sorted((k, _k(v)) for k, v in env.items() if k in {x.id for x in ast.walk(n) if isinstance(x, ast.Name)})))
        if isinstance(n, ast.JoinedStr):
            return mk("str", ast.unparse(n))
        if isinstance(n, ast.Starred):
            return E(n.value)
        raise Unsupported("expression %s" % type(n).__name__)

    def compare(self, op, a, b, n):
        t = type(op)
        if t in (ast.Is, ast.IsNot):
            same = (a is b) or (a is None and b is None) or (isinstance(a, bool) and isinstance(b, bool) and a == b)
            if (a is None) != (b is None):
                same = False
            return same == (t is ast.Is)
        if isinstance(a, Lin) and isinstance(b, Lin):
            d = a - b
            s = self.facts.sign(d)
            tab = {ast.GtE: {"+": True, "0": True, ">=0": True, "-": False}, ast.Gt: {"+": True, "0": False, "-": False, "<=0": False},
                   ast.LtE: {"-": True, "0": True, "<=0": True, "+": False}, ast.Lt: {"-": True, "0": False, "+": False, ">=0": False},
                   ast.Eq: {"0": True, "+": False, "-": False}, ast.NotEq: {"0": False, "+": True, "-": True}}
            if t in tab and s in tab[t]:
                return tab[t][s]
            return self.decide("cmp:%s:%r" % (t.__name__, d))
        if t in (ast.Eq, ast.NotEq):
            if isinstance(a, Seq) and isinstance(b, Seq):
                if a.same(b, self.facts):
                    return t is ast.Eq
                return self.decide("eq:%s==%s" % tuple(sorted([repr(a), repr(b)]))) == (t is ast.Eq)
            if isinstance(a, (Sym, Inst)) or isinstance(b, (Sym, Inst)):
                if isinstance(a, Sym) and isinstance(b, Sym) and a == b:
                    return t is ast.Eq
                return self.decide("eq:%s==%s" % tuple(sorted([repr(a), repr(b)]))) == (t is ast.Eq)
            try:
                return (a == b) == (t is ast.Eq)
            except Exception:
                pass
        if t in (ast.In, ast.NotIn) and isinstance(b, (dict, set, frozenset, tuple, list)) and len(b) == 0:
            return t is ast.NotIn
        if t in (ast.In, ast.NotIn):
            if isinstance(b, (tuple, list, dict, str)) and not isinstance(a, (Sym, Inst)):
                try:
                    return (a in b) == (t is ast.In)
                except Exception:
                    pass
            return self.decide("in:%r in %r" % (a, b)) == (t is ast.In)
        return self.decide("cmp:%s:%r:%r" % (t.__name__, a, b))

    def binop(self, op, l, r, n):
        t = type(op)
        if t is ast.Pow and isinstance(l, Seq):
            if isinstance(r, Lin):
                return type_pow(l, r)
            raise RaisesError("TypeError: Ty.__pow__ expects an int, got %r" % (r,))
        if t is ast.MatMult:
            if isinstance(l, Seq) and isinstance(r, Seq):
                return l + r
            return mk("tensor", l, r)
        if t in (ast.RShift, ast.LShift):
            return mk("then", l, r) if t is ast.RShift else mk("then", r, l)
        if isinstance(l, Lin) and isinstance(r, Lin):
            try:
                if t is ast.Add:
                    return l + r
                if t is ast.Sub:
                    return l - r
                if t is ast.Mult:
                    return l * r
                if t is ast.Div:
                    return l / r
            except TypeError:
                return mk(t.__name__, l, r)
        if t is ast.Add:
            if isinstance(l, str) and isinstance(r, str):
                return l + r
            if isinstance(l, (tuple, list)) and isinstance(r, type(l)):
                return l + r
            if isinstance(l, (str, Sym)) and isinstance(r, (str, Sym)):
                return mk("cat", l, r)
        if t is ast.Mult:
            if isinstance(l, Lin) and isinstance(r, (tuple, list)):
                l, r = r, l
            if isinstance(l, (tuple, list)) and isinstance(r, Lin):
                return mk("rep", tuple(l), r)
            if isinstance(l, (Sym, Lin)) and isinstance(r, (tuple, list)) or isinstance(r, (Sym,)) and isinstance(l, (tuple, list)):
                return mk("rep", l, r)
        return mk(t.__name__, l, r)

    # ------------------------------------------------------------------ attributes
    def getattr(self, base, attr, n, mod):
        if base is None:
            raise RaisesError("AttributeError: 'NoneType' object has no attribute %r" % attr)
        if isinstance(base, Inst):
            if attr in base.attrs:
                return base.attrs[attr]
            r = self.m.lookup(base.cls, attr)
            if r is None:
                return mk("attr", Sym("inst:" + base.cls.q), attr)
            owner, fn, kind = r
            if kind == "property":
                return self.run_function(owner, fn, [base], {}, inst=base)
            if kind == "late":
                return self.global_name(fn[1], fn[2])
            if isinstance(fn, ast.FunctionDef):
                return Bound(base, owner, fn, kind)
            return mk("attr", Sym("inst:" + base.cls.q), attr)
        if isinstance(base, ClassRef):
            r = self.m.lookup(base.cls, attr)
            if r and isinstance(r[1], ast.FunctionDef):
                return Bound(None, r[0], r[1], r[2])
            if r and r[2] == "late":
                return self.global_name(r[1][1], r[1][2])
            return mk("attr", Sym("class:" + base.cls.q), attr)
        if isinstance(base, Seq):
            if attr in ("l", "r"):
                return getattr(base, attr)
            if attr == "objects":
                return base
            return mk("attr", Sym("type:%r" % base), attr)
        if isinstance(base, tuple) and len(base) == 2 and base[0] == "module":
            return self.global_name(base[1], attr)
        if isinstance(base, (set, frozenset)) and attr in ("union",):
            return ("setmethod", base, attr)
        if isinstance(base, dict) and attr in ("get", "items", "values", "keys"):
            return ("dictmethod", base, attr)
        if isinstance(base, str) and attr in ("format", "join", "replace"):
            return ("strmethod", base, attr)
        if isinstance(base, Sym):
            if attr == "conjugate":
                return ("symmethod", base, "conj")
            return mk("attr", base, attr)
        if isinstance(base, (list, tuple)) and attr in ("flatten", "index", "count"):
            return ("symmethod", mk("seq", tuple(base)), attr)
        if isinstance(base, (int, float, complex)) and attr == "conjugate":
            return ("symmethod", base, "conj")
        if isinstance(base, Lin) and attr == "conjugate":
            return ("symmethod", base, "conj")
        return mk("attr", base if isinstance(base, Sym) else Sym(repr(base)), attr)

    # ------------------------------------------------------------------ calls
    def args_of(self, n, env, mod, inst, owner):
        args, kw = [], {}
        for a in n.args:
            if isinstance(a, ast.Starred):
                v = self.ev(a.value, env, mod, inst, owner)
                if isinstance(v, (tuple, list)):
                    args += list(v)
                else:
                    args.append(("star", v))
            else:
                args.append(self.ev(a, env, mod, inst, owner))
        for k in n.keywords:
            v = self.ev(k.value, env, mod, inst, owner)
            if k.arg is None:
                if isinstance(v, dict):
                    kw.update(v)
                else:
                    raise Unsupported("**%r" % (v,))
            else:
                kw[k.arg] = v
        return args, kw

    def call(self, n, env, mod, inst, owner):
        f = n.func
        # super().method(...)
        if isinstance(f, ast.Attribute) and isinstance(f.value, ast.Call) and ast.unparse(f.value.func) == "super":
            if inst is None or owner is None:
                raise Unsupported("super() outside a method")
            r = self.m.lookup(inst.cls, f.attr, after=owner)
            args, kw = self.args_of(n, env, mod, inst, owner)
            if r is None or not isinstance(r[1], ast.FunctionDef):
                if f.attr == "__init__":
                    return None
                return mk("supercall", f.attr)
            if r[2] == "property":
                raise Unsupported("super().<property>")
            return self.run_function(r[0], r[1], [inst] + args, kw, inst=inst)
        fv = self.ev(f, env, mod, inst, owner)
        args, kw = self.args_of(n, env, mod, inst, owner)
        return self.apply(fv, args, kw, n, mod, inst)

    def apply(self, fv, args, kw, n, mod, inst):
        if isinstance(fv, ClassRef):
            return self.construct(fv.cls, args, kw)
        if isinstance(fv, Bound):
            if fv.fn.name == "__init__" and fv.inst is None:
                # Base.__init__(self, ...)
                target = args[0]
                return self.run_function(fv.owner, fv.fn, args, kw, inst=target if isinstance(target, Inst) else None)
            if fv.kind == "static":
                return self.run_function(fv.owner, fv.fn, args, kw, inst=None, static=True)
            if fv.inst is None:
                return self.run_function(fv.owner, fv.fn, args, kw, inst=args[0] if args and isinstance(args[0], Inst) else None)
            return self.run_function(fv.owner, fv.fn, [fv.inst] + args, kw, inst=fv.inst)
        if isinstance(fv, LocalFn):
            self.depth += 1
            if self.depth > 40:
                raise Unsupported("recursion too deep")
            try:
                e2 = dict(fv.env)
                names = [a.arg for a in fv.node.args.args]
                for nm, v in zip(names, args):
                    e2[nm] = v
                e2.update(kw)
                r = self.block(fv.node.body, e2, fv.mod, inst, fv.owner)
                return r[1] if r else None
            finally:
                self.depth -= 1
        if isinstance(fv, Lam):
            e2 = dict(fv.env)
            names = [a.arg for a in fv.node.args.args]
            for nm, v in zip(names, args):
                e2[nm] = v
            if fv.node.args.vararg:
                e2[fv.node.args.vararg.arg] = tuple(args[len(names):])
            return self.ev(fv.node.body, e2, mod, inst, fv.owner)
        if isinstance(fv, tuple) and fv and fv[0] == "builtin":
            return self.builtin(fv[1], args, kw, n, mod, inst)
        if isinstance(fv, tuple) and fv and fv[0] == "dictmethod":
            _, d, meth = fv
            if meth == "get":
                return d.get(args[0], args[1] if len(args) > 1 else None)
            return mk("dict." + meth, tuple(sorted((k, _k(v)) for k, v in d.items())))
        if isinstance(fv, tuple) and fv and fv[0] == "setmethod":
            _, base, meth = fv
            if all(isinstance(a, (dict, set, frozenset)) and len(a) == 0 for a in args) and len(base) == 0:
                return set()
            return mk("set.union", tuple(_k(a) for a in args))
        if isinstance(fv, tuple) and fv and fv[0] == "strmethod":
            return mk("str." + fv[2], fv[1], tuple(args))
        if isinstance(fv, tuple) and fv and fv[0] == "symmethod":
            _, base, meth = fv
            if meth == "conj":
                if isinstance(base, Lin):
                    return base
                if isinstance(base, (int, float)):
                    return base
                if isinstance(base, complex):
                    return base.conjugate()
                return mk("conj", base)
            return mk(meth, base, tuple(args))
        if isinstance(fv, tuple) and fv and fv[0] == "function":
            q = fv[1]
            name = q.rsplit(".", 1)[1]
            if name in ("rsubs",):
                return mk("rsubs", args[0], tuple(args[1:]))
            fn = self.m.functions[q]
            # module-level helper: run it when it is small and pure, else keep opaque
            if self.depth < 6 and len(list(ast.walk(fn))) < 120:
                try:
                    return self.run_plain(q.rsplit(".", 1)[0], fn, args, kw)
                except Unsupported:
                    pass
            return mk("call:" + name, tuple(args), tuple(sorted((k, _k(v)) for k, v in kw.items())))
        if isinstance(fv, Sym):
            res = mk("call", fv, tuple(args), tuple(sorted((k, _k(v)) for k, v in kw.items())))
            # numpy idempotence: array(array(x).reshape(s)).reshape(s) == array(x).reshape(s)
            if fv.tag == "attr" and fv.args[1] == "reshape" and isinstance(fv.args[0], Sym) and fv.args[0].tag == "call":
                inner = fv.args[0]
                f0 = inner.args[0]
                if isinstance(f0, Sym) and f0.tag == "attr" and f0.args[1] == "array" and len(inner.args[1]) == 1:
                    x = inner.args[1][0]
                    if isinstance(x, Sym) and x.tag == "call" and isinstance(x.args[0], Sym) and x.args[0].tag == "attr" and x.args[0].args[1] == "reshape" \
                            and _k(x.args[1]) == _k(tuple(args)):
                        return x
            return res
        raise Unsupported("call of %r" % (fv,))

    def builtin(self, name, args, kw, n, mod, inst):
        if name == "isinstance":
            v, k = args
            ks = k if isinstance(k, tuple) and not (len(k) == 2 and k[0] == "builtin") else (k,)
            for kk in ks:
                if kk == ("builtin", "int"):
                    if isinstance(v, Lin):
                        return True
                    if isinstance(v, Sym):
                        return self.decide("isint:%r" % (v,))
                elif kk == ("builtin", "str"):
                    if isinstance(v, str):
                        return True
                elif isinstance(kk, ClassRef):
                    if isinstance(v, Inst) and kk.cls in self.m.mro(v.cls):
                        return True
                    if isinstance(v, Sym) and v.tag.startswith("ob:"):
                        k2 = next((c for c in self.m.classes.values() if c.name == v.tag[3:] and self.m.cls("discopy.cat.Ob") in self.m.mro(c)), None)
                        if k2 is not None and kk.cls in self.m.mro(k2):
                            return True
                        continue
                    if isinstance(v, Seq) and (self.ty in self.m.mro(kk.cls) or kk.cls.q == "discopy.cat.Ob"):
                        return True
                    if isinstance(v, Sym) and v.tag.startswith("param:"):
                        if self.decide("isinstance:%r:%s" % (v, kk.cls.q)):
                            return True
                elif isinstance(kk, tuple) and kk and kk[0] == "builtin" and kk[1] in ("float", "complex", "list", "tuple", "dict", "bool"):
                    if kk[1] in ("list", "tuple") and isinstance(v, (list, tuple)):
                        return True
                    if isinstance(v, Sym):
                        if self.decide("isinstance:%r:%s" % (v, kk[1])):
                            return True
                elif isinstance(kk, Sym):
                    # a class from outside the package (collections.abc.Mapping / Iterable / Callable, ...): data parameters are
                    # modelled as scalar symbolic expressions, which are none of these (assumption recorded in the evidence)
                    continue
                else:
                    raise Unsupported("isinstance(%r, %r)" % (v, kk))
            return False
        if name == "len":
            v = args[0]
            if isinstance(v, Seq):
                return v.length
            if isinstance(v, (tuple, list, str)):
                if any(isinstance(x, tuple) and x and x[0] == "star" for x in v):
                    return Lin.var("len(%r)" % (v,))
                return Lin.of(len(v))
            if isinstance(v, Sym):
                return Lin.var("len(%r)" % (v,))
            if isinstance(v, Inst):
                r = self.m.lookup(v.cls, "__len__")
                if r and isinstance(r[1], ast.FunctionDef):
                    out = self.run_function(r[0], r[1], [v], {}, inst=v)
                    return out if isinstance(out, Lin) else Lin.var("len(%r)" % (out,))
            raise Unsupported("len(%r)" % (v,))
        if name == "type":
            v = args[0]
            if isinstance(v, Inst):
                return ClassRef(v.cls)
            return mk("type", v)
        if name in ("repr", "str", "format"):
            return mk(name, *args)
        if name in ("list", "tuple"):
            v = args[0] if args else ()
            if isinstance(v, (list, tuple)):
                return list(v) if name == "list" else tuple(v)
            return v
        if name == "dict":
            d = dict(args[0]) if args and isinstance(args[0], dict) else {}
            d.update(kw)
            return d
        if name == "getattr":
            if isinstance(args[1], str):
                try:
                    v = self.getattr(args[0], args[1], n, mod)
                    if isinstance(v, Sym) and v.tag == "attr" and len(args) > 2:
                        return args[2]
                    return v
                except Unsupported:
                    if len(args) > 2:
                        return args[2]
                    raise
            return mk("getattr", *args)
        if name == "hasattr":
            if isinstance(args[0], Inst) and isinstance(args[1], str):
                return args[1] in args[0].attrs or self.m.lookup(args[0].cls, args[1]) is not None
            if isinstance(args[0], Sym):
                if args[1] in ("free_symbols", "subs", "diff") and _numeric_constant(args[0]):
                    return False            # numpy.zeros / ones / eye of symbolic shape: an array of numbers
                if args[1] in ("free_symbols", "subs", "diff", "conjugate"):
                    return True
                if args[1] in ("shape", "_apply"):
                    return False
                return self.decide("hasattr:%r:%s" % (args[0], args[1]))
            return False
        if name == "set" and not args:
            return set()
        if name == "map" and len(args) == 2 and isinstance(args[1], (list, tuple)) and not any(isinstance(x, tuple) and x and x[0] == "star" for x in args[1]):
            return [self.apply(args[0], [x], {}, n, mod, inst) for x in args[1]]
        if name in ("all", "any") and args and isinstance(args[0], Sym) and args[0].tag == "gen-const":
            b = args[0].args[0]
            if name == "any" and b is False:
                return False
            if name == "all" and b is True:
                return True
        if name in ("all", "any") and args and isinstance(args[0], (list, tuple)) and not any(isinstance(x, tuple) and x and x[0] == "star" for x in args[0]):
            vals = [self.truth(x) for x in args[0]]
            return all(vals) if name == "all" else any(vals)
        if name in ("int", "float", "complex", "abs", "sum", "all", "any", "map", "range", "zip", "enumerate", "set", "bool"):
            if name == "int" and args and isinstance(args[0], Lin):
                return args[0]
            return mk(name, *args)
        if name in ("Exception", "TypeError", "ValueError", "NotImplementedError"):
            return mk("exc:" + name)
        raise Unsupported("builtin %s" % name)

    # ------------------------------------------------------------------ functions and constructors
    def bind(self, fn, args, kw, what):
        a = fn.args
        names = [x.arg for x in a.args]
        env = {}
        if len(args) > len(names) and not a.vararg:
            raise RaisesError("TypeError: %s takes %d positional arguments but %d were given" % (what, len(names), len(args)))
        for nm, v in zip(names, args):
            env[nm] = v
        extra = {}
        kwonly = [x.arg for x in a.kwonlyargs]
        for k, v in kw.items():
            if k in env:
                raise RaisesError("TypeError: %s got multiple values for argument %r" % (what, k))
            if k in names or k in kwonly:
                env[k] = v
            elif a.kwarg:
                extra[k] = v
            else:
                raise RaisesError("TypeError: %s got an unexpected keyword argument %r" % (what, k))
        defaults = dict(zip(names[len(names) - len(a.defaults):], a.defaults))
        mod = None
        for nm in names:
            if nm not in env:
                if nm in defaults:
                    env[nm] = ("default", defaults[nm])
                else:
                    raise RaisesError("TypeError: %s missing required argument %r" % (what, nm))
        for x, d in zip(a.kwonlyargs, a.kw_defaults):
            if x.arg not in env:
                if d is None:
                    raise RaisesError("TypeError: %s missing keyword-only argument %r" % (what, x.arg))
                env[x.arg] = ("default", d)
        if a.kwarg:
            env[a.kwarg.arg] = extra
        if a.vararg:
            env[a.vararg.arg] = tuple(args[len(names):])
        return env

    def run_function(self, owner, fn, args, kw, inst=None, static=False):
        self.depth += 1
        if self.depth > 40:
            raise Unsupported("recursion too deep")
        try:
            env = self.bind(fn, args, kw, "%s.%s" % (owner.q, fn.name))
            for k, v in list(env.items()):
                if isinstance(v, tuple) and len(v) == 2 and v[0] == "default":
                    env[k] = self.ev(v[1], {}, owner.mod)
            r = self.block(fn.body, env, owner.mod, inst, owner)
            return r[1] if r else None
        finally:
            self.depth -= 1

    def run_plain(self, mod, fn, args, kw):
        self.depth += 1
        try:
            class _O:
                pass
            o = _O()
            o.q, o.mod = mod + "." + fn.name, mod
            env = self.bind(ast.FunctionDef(name=fn.name, args=_shift(fn.args), body=fn.body, decorator_list=[]), [None] + list(args), kw, o.q)
            for k, v in list(env.items()):
                if isinstance(v, tuple) and len(v) == 2 and v[0] == "default":
                    env[k] = self.ev(v[1], {}, mod)
            r = self.block(fn.body, env, mod, None, None)
            return r[1] if r else None
        finally:
            self.depth -= 1

    def construct(self, cls, args, kw):
        if self.ty in self.m.mro(cls):
            return self.make_type(cls, args, kw)
        if cls.q == "discopy.cat.Ob" or self.m.cls("discopy.cat.Ob") in self.m.mro(cls):
            return mk("ob:" + cls.name, *args)
        self.n_inst = getattr(self, "n_inst", 0) + 1
        inst = Inst(cls, self.n_inst)
        r = self.m.lookup(cls, "__init__")
        if r is None or not isinstance(r[1], ast.FunctionDef):
            return inst
        self.run_function(r[0], r[1], [inst] + list(args), kw, inst=inst)
        return inst

    def make_type(self, cls, args, kw):
        name = cls.name
        if name == "PRO" or (args and name in ("PRO",)):
            n = args[0] if args else Lin.of(0)
            if isinstance(n, Seq):
                return n
            return Seq([Rep(Lin.of(n), 1)]) if isinstance(n, Lin) else Seq.atom(Atom("PRO(%r)" % (n,)))
        parts = []
        for a in args:
            if isinstance(a, Seq):
                parts += list(a.parts)
            elif isinstance(a, tuple) and a and a[0] == "star":
                parts.append(Seg(Atom("%s(*%r)" % (name, a[1]))))
            else:
                parts.append(Item(_k(a) if not isinstance(a, (str, Sym)) else a))
        return Seq(parts)

    # ------------------------------------------------------------------ statements
    def block(self, body, env, mod, inst, owner):
        for st in body:
            if isinstance(st, ast.Expr):
                if isinstance(st.value, ast.Constant):
                    continue
                self.ev(st.value, env, mod, inst, owner)
            elif isinstance(st, ast.Assign):
                v = self.ev(st.value, env, mod, inst, owner)
                for t in st.targets:
                    self.assign(t, v, env, mod, inst, owner)
            elif isinstance(st, ast.AugAssign):
                cur = self.ev(st.target, env, mod, inst, owner)
                v = self.binop(st.op, cur, self.ev(st.value, env, mod, inst, owner), st)
                self.assign(st.target, v, env, mod, inst, owner)
            elif isinstance(st, ast.If):
                t = self.truth(self.ev(st.test, env, mod, inst, owner), st.test)
                r = self.block(st.body if t else st.orelse, env, mod, inst, owner)
                if r is not None:
                    return r
            elif isinstance(st, ast.Return):
                return ("return", self.ev(st.value, env, mod, inst, owner) if st.value is not None else None)
            elif isinstance(st, ast.Raise):
                raise RaisesError(ast.unparse(st)[:100])
            elif isinstance(st, ast.FunctionDef):
                env[st.name] = Lam(ast.Lambda(args=st.args, body=_body_expr(st)), env, owner) if _body_expr(st) is not None else LocalFn(st, env, owner, mod)
            elif isinstance(st, (ast.Import, ast.ImportFrom, ast.Pass)):
                if isinstance(st, ast.ImportFrom):
                    for a in st.names:
                        env.setdefault(a.asname or a.name, Sym("import:" + (st.module or "") + "." + a.name))
                continue
            elif isinstance(st, ast.For):
                # loops in constructors only decorate (drawing attributes); executed once on an opaque element when the iterable is symbolic
                it = self.ev(st.iter, env, mod, inst, owner)
                if isinstance(it, (list, tuple)):
                    for x in it:
                        self.assign(st.target, x, env, mod, inst, owner)
                        self.block(st.body, env, mod, inst, owner)
                elif isinstance(it, Sym) and it.tag == "dict.items":
                    continue
                else:
                    self.notes.append("loop over %r skipped" % (it,))
            elif isinstance(st, ast.Try):
                r = self.block(st.body, env, mod, inst, owner)
                if r is not None:
                    return r
            else:
                raise Unsupported("statement %s" % type(st).__name__)
        return None

    def assign(self, t, v, env, mod, inst, owner):
        if isinstance(t, ast.Name):
            env[t.id] = v
        elif isinstance(t, (ast.Tuple, ast.List)):
            if isinstance(v, (tuple, list)) and len(v) == len(t.elts):
                for a, b in zip(t.elts, v):
                    self.assign(a, b, env, mod, inst, owner)
            else:
                for i, a in enumerate(t.elts):
                    self.assign(a, mk("item", v, i), env, mod, inst, owner)
        elif isinstance(t, ast.Attribute):
            base = self.ev(t.value, env, mod, inst, owner)
            if isinstance(base, Inst):
                base.attrs[t.attr] = v
            # stores on opaque values are ignored
        elif isinstance(t, ast.Subscript):
            pass
        else:
            raise Unsupported("assignment target %s" % ast.unparse(t))


def _shift(a):
    """arguments object with a dummy first parameter (so that bind's self-slot logic is shared)"""
    import copy
    b = copy.deepcopy(a)
    b.args = [ast.arg(arg="__self__")] + list(b.args)
    return b


def _body_expr(fn):
    body = [s for s in fn.body if not (isinstance(s, ast.Expr) and isinstance(s.value, ast.Constant))]
    if len(body) == 1 and isinstance(body[0], ast.Return) and body[0].value is not None:
        return body[0].value
    return None


# ---------------------------------------------------------------------------------------------------------------
def explore(model, fn, max_runs=400, facts=None):
    """run fn(sim) under every oracle assignment the run asks for; returns [(oracle, result-or-exception)]"""
    results = []
    work = [{}]
    seen = set()
    while work:
        oracle = work.pop()
        key = tuple(sorted(oracle.items()))
        if key in seen:
            continue
        seen.add(key)
        if len(seen) > max_runs:
            raise Unsupported("too many case splits (%d)" % len(seen))
        sim = Sim(model, oracle, facts)
        try:
            res = fn(sim)
            results.append((oracle, res, sim))
        except NeedOracle as e:
            for v in (True, False):
                o2 = dict(oracle)
                o2[e.key] = v
                work.append(o2)
        except RaisesError as e:
            results.append((oracle, e, sim))
    return results
