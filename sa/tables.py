"""Engine E: whitelisted constant folding of literal tables and closed-form array expressions lifted from the AST.

This is partial evaluation of *literals* (module-level gate tables, the bodies of `array` properties, conversion constants) in a
fixed numeric vocabulary (numpy sqrt/exp/sin/cos/pi/array/eye/zeros, + - * / **, list/tuple literals, .reshape); no discopy class is
instantiated and no discopy function is called.  Closed forms are functions of one phase φ; identities between trigonometric
polynomials of degree <= d are decided by agreement on more than 2d+1 sample points (identity theorem)."""
import ast
import cmath
import math
import numpy as np


class NotFoldable(Exception):
    pass


class NumMod:
    """stands for numpy / Tensor.np / self.modules (numeric evaluation)"""
    pi = math.pi

    @staticmethod
    def sqrt(x):
        return np.sqrt(x)

    @staticmethod
    def exp(x):
        return np.exp(x)

    @staticmethod
    def sin(x):
        return np.sin(x)

    @staticmethod
    def cos(x):
        return np.cos(x)

    @staticmethod
    def array(x, dtype=None):
        return np.array(x, dtype=complex)

    @staticmethod
    def eye(n):
        return np.eye(n, dtype=complex)

    @staticmethod
    def zeros(shape, dtype=None):
        return np.zeros(shape, dtype=dtype or float)          # numpy's own default: complex values written into it later lose their imaginary part


MODS = {"numpy": NumMod, "Tensor.np": NumMod, "self.modules": NumMod, "np": NumMod, "math": NumMod}


class Fold(ast.NodeVisitor):
    def __init__(self, env):
        self.env = dict(MODS)
        self.env.update(env)

    def visit_Constant(self, n):
        return n.value

    def visit_Name(self, n):
        if n.id in self.env:
            return self.env[n.id]
        raise NotFoldable("name %s" % n.id)

    def visit_Attribute(self, n):
        d = ast.unparse(n)
        if d in self.env:
            return self.env[d]
        base = self.visit(n.value)
        if base is NumMod or isinstance(base, np.ndarray) and n.attr in ("reshape", "T", "flatten", "conjugate", "conj", "transpose"):
            return getattr(base, n.attr)
        if isinstance(base, dict) and n.attr in base:
            return base[n.attr]
        raise NotFoldable("attribute %s" % d)

    def visit_List(self, n):
        return [self.visit(e) for e in n.elts]

    def visit_Tuple(self, n):
        return tuple(self.visit(e) for e in n.elts)

    def visit_UnaryOp(self, n):
        v = self.visit(n.operand)
        if isinstance(n.op, ast.USub):
            return -v
        if isinstance(n.op, ast.UAdd):
            return +v
        raise NotFoldable(ast.unparse(n))

    def visit_BinOp(self, n):
        l, r = self.visit(n.left), self.visit(n.right)
        t = type(n.op)
        if t is ast.Add:
            return l + r
        if t is ast.Sub:
            return l - r
        if t is ast.Mult:
            return l * r
        if t is ast.Div:
            return l / r
        if t is ast.Pow:
            return l ** r
        raise NotFoldable(ast.unparse(n))

    def visit_Call(self, n):
        f = self.visit(n.func)
        if not callable(f):
            raise NotFoldable("call of %s" % ast.unparse(n.func))
        return f(*[self.visit(a) for a in n.args], **{k.arg: self.visit(k.value) for k in n.keywords if k.arg})

    def generic_visit(self, n):
        raise NotFoldable("%s: %s" % (type(n).__name__, ast.unparse(n)[:60]))


def fold(expr, env=None):
    return Fold(env or {}).visit(expr)


def run_body(fn, env):
    """straight-line body of an `array` property: assignments then a return"""
    env = dict(env)
    for st in fn.body:
        if isinstance(st, ast.Expr) and isinstance(st.value, ast.Constant):
            continue
        if isinstance(st, ast.Assign):
            val = fold(st.value, env)
            t = st.targets[0]
            if isinstance(t, ast.Tuple):
                for a, v in zip(t.elts, val):
                    env[a.id] = v
            else:
                env[t.id] = val
        elif isinstance(st, ast.Return):
            return fold(st.value, env)
        else:
            raise NotFoldable("statement %s" % type(st).__name__)
    raise NotFoldable("no return")


def as_matrix(a):
    """an array stored [in..., out...] as the matrix M[out, in]"""
    a = np.array(a, dtype=complex)
    n = int(round(math.log2(a.size))) // 2 if a.size > 1 else 0
    return a.reshape(2 ** n, 2 ** n).T


# --------------------------------------------------------------------------------------------- reference: tket gate definitions
X_ = np.array([[0, 1], [1, 0]], dtype=complex)
Y_ = np.array([[0, -1j], [1j, 0]], dtype=complex)
Z_ = np.array([[1, 0], [0, -1]], dtype=complex)
H_ = np.array([[1, 1], [1, -1]], dtype=complex) / math.sqrt(2)
P0, P1 = np.diag([1, 0]).astype(complex), np.diag([0, 1]).astype(complex)


def rot(G, phi):
    """exp(-i π φ G) for an involutive G (phases counted in full turns: tket's half-turn angle is 2φ)"""
    return math.cos(math.pi * phi) * np.eye(len(G)) - 1j * math.sin(math.pi * phi) * G


def ctrl(U):
    return np.kron(P0, np.eye(len(U))) + np.kron(P1, U)


REF_CONST = {"H": H_, "S": np.diag([1, 1j]), "T": np.diag([1, cmath.exp(1j * math.pi / 4)]), "X": X_, "Y": Y_, "Z": Z_,
             "CZ": np.diag([1, 1, 1, -1]).astype(complex), "CX": ctrl(X_), "SWAP": np.array([[1, 0, 0, 0], [0, 0, 1, 0], [0, 1, 0, 0], [0, 0, 0, 1]], dtype=complex)}
REF_ROT = {"Rx": lambda p: rot(X_, p), "Ry": lambda p: rot(Y_, p), "Rz": lambda p: rot(Z_, p),
           "CRz": lambda p: ctrl(rot(Z_, p)), "CRx": lambda p: ctrl(rot(X_, p)),
           "CU1": lambda p: np.diag([1, 1, 1, cmath.exp(2j * math.pi * p)])}
SAMPLES = [k / 7.3 for k in range(-6, 7)]          # 13 generic phases (degree of the trigonometric polynomials involved <= 4)


def close(a, b):
    return a.shape == b.shape and np.allclose(a, b, atol=1e-9)


def proportional(a, b):
    """a = k b for one non-zero scalar k"""
    a, b = np.array(a).flatten(), np.array(b).flatten()
    if a.shape != b.shape:
        return False
    i = int(np.argmax(abs(b)))
    if abs(b[i]) < 1e-12:
        return False
    k = a[i] / b[i]
    return abs(k) > 1e-9 and np.allclose(a, k * b, atol=1e-9)
