"""CLI:  python -m sa.check <id> [--tier quick|thorough] [--repo /repo] | --replay <path> | --all"""
import argparse
import importlib
import json
import os
import sys
import time
import traceback

from .core import Ctx, AnalysisError, finish, VERIF
from .model import Model, AnchorError
from . import names

PROPS = ["C%02d" % i for i in range(1, 21)]


def run_one(prop, tier, repo, seed, out_dir=None):
    t0 = time.time()
    try:
        mod = importlib.import_module("sa.rules.%s" % prop.lower())
    except ImportError as e:
        print("ANALYSIS-ERROR property=%s no rule module: %s" % (prop, e))
        return 2
    try:
        model = Model(os.path.join(repo, "discopy"))
        ctx = Ctx(prop, model, tier, seed)
        try:
            mod.check(ctx)
        except (AnalysisError, AnchorError) as e:
            # violations already decided stay valid; without any, the run is analysis-broken
            ctx.broken = str(e)
        ctx.functions |= set(model.touched)  # every function a rule resolved counts as analysed
        names.check_exits(ctx)              # rule X: no exit of an analysed function that the rules have never read
        names.check_new_methods(ctx)        # rule M: no new override of an operation in a class of the anchor files
        try:
            names.check_names(ctx)          # rule N of every property (sa/names.py); an unbound name may be the very reason a rule could not be decided
        except (AnalysisError, AnchorError) as e:
            ctx.broken = ctx.broken or str(e)
        extra = dict(getattr(mod, "EXTRA", None) or {})
        if tier == "thorough" and out_dir is None and os.path.realpath(repo) == "/repo" and not os.environ.get("SA_NO_VALIDATION"):
            extra["checker_validation"] = validate(prop)
        return finish(ctx, t0, explanation=getattr(mod, "EXPLANATION", ""), extra=extra or None,
                      out_dir=out_dir)
    except (AnalysisError, AnchorError) as e:
        print("ANALYSIS-ERROR property=%s %s" % (prop, e))
        return 2
    except SyntaxError as e:
        print("ANALYSIS-ERROR property=%s source does not parse: %s" % (prop, e))
        return 2
    except Exception:
        traceback.print_exc()
        print("ANALYSIS-ERROR property=%s internal error (see traceback)" % prop)
        return 2


def validate(prop):
    """thorough tier: the property's corpus of variants (semantic single edits that must be reported, behaviour-preserving rewrites that must
    not) is run on scratch copies of /repo and the matrix recorded in the evidence; it never changes the verdict on the tree itself"""
    import subprocess
    env = dict(os.environ, SA_NO_VALIDATION="1")
    r = subprocess.run([sys.executable, "-m", "sa.selftest", prop, "-j", str(os.cpu_count() or 4)], cwd=VERIF, capture_output=True, text=True, env=env)
    lines = [l for l in r.stdout.splitlines() if l.startswith(("ok ", "FAIL"))]
    by = {}
    for l in lines:
        parts = l.split("expect=")
        if len(parts) == 2:
            exp = parts[1].split()[0]
            by.setdefault(exp, [0, 0])
            by[exp][0] += 1
            by[exp][1] += l.startswith("ok ")
    unexpected = [l[:140] for l in lines if l.startswith("FAIL")]
    if unexpected:
        print("NOTE: %d variant(s) of the validation corpus of %s did not meet their expectation (recorded in the evidence; the verdict on the tree is not affected)" % (len(unexpected), prop))
    return {"variants": len(lines), "by_expectation": {k: {"variants": v[0], "met": v[1]} for k, v in sorted(by.items())}, "unexpected": unexpected,
            "how": "python -m sa.selftest %s: each variant applied to a scratch copy of /repo, the check run on the copy" % prop}


def main(argv=None):
    ap = argparse.ArgumentParser()
    ap.add_argument("prop", nargs="?")
    ap.add_argument("--tier", default=os.environ.get("VERIF_TIER", "quick"))
    ap.add_argument("--repo", default=os.environ.get("VERIF_REPO", "/repo"))
    ap.add_argument("--out", default=None, help="directory for evidence/ and replay/ (default /verif)")
    ap.add_argument("--replay")
    ap.add_argument("--all", action="store_true")
    a = ap.parse_args(argv)
    seed = int(os.environ.get("VERIF_SEED", "0") or 0)
    if a.replay:
        rec = json.load(open(a.replay))
        print(json.dumps(rec, indent=1))
        print("re-running %s on %s" % (rec["property"], a.repo))
        return run_one(rec["property"], a.tier, a.repo, seed, a.out)
    if a.all:
        rc = 0
        for p in PROPS:
            if os.path.exists(os.path.join(VERIF, "sa", "rules", p.lower() + ".py")):
                rc = max(rc, run_one(p, a.tier, a.repo, seed, a.out))
        return rc
    if not a.prop:
        ap.error("property id required")
    return run_one(a.prop.upper(), a.tier, a.repo, seed, a.out)


if __name__ == "__main__":
    sys.exit(main())
