import sys; sys.path.insert(0, '/tmp/spike')
from sa import c04
def run(src_path, muts, fn):
    src = open(src_path).read()
    for name, (a, b) in muts.items():
        assert a in src, name
        open('/tmp/spike/m.py', 'w').write(src.replace(a, b, 1))
        msgs = []
        try: rc = fn('/tmp/spike/m.py', out=msgs.append)
        except Exception as e: rc = 'EXC %s: %s' % (type(e).__name__, e)
        print('%-40s rc=%s %s' % (name, rc, '; '.join(m for m in msgs if 'VIOLATION' in m or 'ANALYSIS' in m)[:200]))
run('/repo/discopy/monoidal.py', {
 'scan splice uses box.cod len': ("scan = scan[:off] @ box.cod @ scan[off + len(box.dom):]", "scan = scan[:off] @ box.cod @ scan[off + len(box.cod):]"),
 'id_r from off + len(box.cod)': ("id_r = self.ar_factory.id(self(scan[off + len(box.dom):]))", "id_r = self.ar_factory.id(self(scan[off + len(box.cod):]))"),
 'scan not updated with cod': ("scan = scan[:off] @ box.cod @ scan[off + len(box.dom):]", "scan = scan[:off] @ box.dom @ scan[off + len(box.dom):]"),
 'id_l/id_r swapped': ("result = result >> id_l @ self(box) @ id_r", "result = result >> id_r @ self(box) @ id_l"),
 'initial id on cod': ("scan, result = diagram.dom, self.ar_factory.id(self(diagram.dom))", "scan, result = diagram.dom, self.ar_factory.id(self(diagram.cod))"),
 'BENIGN temp': ("id_l = self.ar_factory.id(self(scan[:off]))", "lhs = scan[:off]\n                id_l = self.ar_factory.id(self(lhs))"),
}, c04.check_functor_scan)
run('/repo/discopy/rigid.py', {
 'j off by one': ("j = len(left) - i - 1", "j = len(left) - i"),
 'right[i + 1:] -> right[i:]': ("@ ar_factory.id(right[i + 1:])", "@ ar_factory.id(right[i:])"),
 'cup joins wrong right wire': ("cup = cup_factory(left[j:j + 1], right[i:i + 1])", "cup = cup_factory(left[j:j + 1], right[j:j + 1])"),
 'left[:j] -> left[:i]': ("layer = ar_factory.id(left[:j]) @ cup", "layer = ar_factory.id(left[:i]) @ cup"),
 'BENIGN j via temp': ("j = len(left) - i - 1", "n_left = len(left)\n        j = n_left - 1 - i"),
}, c04.check_cups)
