"""C16 — circuits translate to ZX diagrams denoting the same linear map (R16.1–R16.3; engines A, C′, E)."""
import ast
import itertools
import numpy as np
from ..core import AnalysisError
from ..tables import REF_CONST, REF_ROT, SAMPLES, proportional, ctrl, X_, Z_, Y_, H_
from ..zxref import FoldZX, BASE, T, ArityError
from ..objsim import explore, Inst, RaisesError, Unsupported as SimUnsupported, mk
from ..generic import instances
from .. import shape

EXPLANATION = (
    "zx.gate2zx is a table: each branch returns a closed ZX term built from Z/X spiders, Hadamard, identities and scalars. The "
    "terms are lifted from the syntax tree and evaluated in the checker's reference algebra (standard interpretation: Z(m, n, φ) = "
    "|0..0><0..0| + e^{2iπφ}|1..1><1..1|, X = Hadamard-conjugate, leftmost wire most significant), with the phase symbolic over 13 "
    "sample phases (the entries are trigonometric polynomials of low degree, so agreement on the samples is identity), and compared "
    "with the tket reference matrix of the gate class the branch tests: they must be proportional with a non-zero factor and have "
    "the gate's numbers of inputs and outputs. circuit2zx is the rigid functor with ob = {qubit: PRO(1)} and ar = gate2zx, so "
    "composites follow from C04/C09. The dagger of a spider swaps its legs and negates its phase, scalars conjugate, H is "
    "self-adjoint (abstract execution), which in the standard interpretation is the conjugate transpose.")

ZX, GATES = "discopy.quantum.zx", "discopy.quantum.gates"
# the gate class (as named in zx.py) -> reference matrix as a function of the phase
REF = {"Rz": REF_ROT["Rz"], "Rx": REF_ROT["Rx"], "Ry": REF_ROT["Ry"], "CRz": REF_ROT["CRz"], "CRx": REF_ROT["CRx"], "quantum.CU1": REF_ROT["CU1"], "CU1": REF_ROT["CU1"],
       "quantum.H": lambda p: H_, "quantum.Z": lambda p: Z_, "quantum.X": lambda p: X_, "quantum.Y": lambda p: Y_, "CZ": lambda p: REF_CONST["CZ"], "CX": lambda p: REF_CONST["CX"]}


class Stub:
    def __init__(self, **kw):
        self.__dict__.update(kw)


def class_names(test):
    arg = test.args[1]
    return [ast.unparse(e) for e in (arg.elts if isinstance(arg, ast.Tuple) else [arg])]


def eval_branch(body, env):
    e = dict(env)
    for st in body:
        if isinstance(st, ast.Assign):
            val = FoldZX(e).visit(st.value)
            t = st.targets[0]
            if isinstance(t, ast.Tuple):
                for a, v in zip(t.elts, val):
                    e[a.id] = v
            else:
                e[t.id] = val
        elif isinstance(st, ast.Return):
            return FoldZX(e).visit(st.value)
        elif isinstance(st, ast.If):
            if FoldZX(e).visit(st.test):
                r = eval_branch(st.body, e)
                if r is not None:
                    return r
        elif isinstance(st, ast.Raise):
            raise NotImplementedError("branch raises")
    return None


def check_table(ctx):
    m = ctx.model
    fn = m.func(ZX + ".gate2zx")
    ctx.analysed(ZX + ".gate2zx")
    boxp = fn.args.args[0].arg
    seen = set()
    for st in fn.body:
        if isinstance(st, ast.If) and isinstance(st.test, ast.Call) and ast.unparse(st.test.func) == "isinstance":
            for cname in class_names(st.test):
                seen.add(cname)
                cons = "%s.gate2zx:%s" % (ZX, cname)
                isi = lambda b, c, cname=cname: (c == cname) if not isinstance(c, tuple) else (cname in c)
                names = {n: n for n in set(class_names(st.test)) | {"Rz", "Rx", "Bra", "Ket"}}
                if cname in ("Bra", "Ket"):
                    bad = None
                    for bits in [b for k in range(4) for b in itertools.product([0, 1], repeat=k)]:
                        env = dict(BASE, **names)
                        env.update({boxp: Stub(bitstring=tuple(bits)), "isinstance": isi})
                        try:
                            term = eval_branch(st.body, env)
                        except (ArityError, IndexError) as e:
                            bad = bad or "%s%s: ill-formed term: %s: %s" % (cname, bits, type(e).__name__, e)
                            continue
                        except (KeyError, TypeError) as e:
                            raise AnalysisError("gate2zx branch %s outside the foldable vocabulary: %s" % (cname, e))
                        k = len(bits)
                        vec = np.zeros(2 ** k)
                        vec[int("".join(map(str, bits)) or "0", 2)] = 1
                        ref = vec.reshape(1, 2 ** k) if cname == "Bra" else vec.reshape(2 ** k, 1)
                        if not (isinstance(term, T) and (term.m, term.n) == ((k, 0) if cname == "Bra" else (0, k)) and proportional(term.M, ref)):
                            bad = bad or "%s%s -> %s" % (cname, bits, np.round(term.M, 3).tolist() if isinstance(term, T) else term)
                    ctx.ob("R16.1", cons, bad is None, found=bad or "basis %s of every bitstring (0 to 3 qubits enumerated)" % ("effect" if cname == "Bra" else "state"),
                           required="proportional to the basis vector of the bitstring, one wire per bit", mod=ZX, node=st, sig="entry-" + cname)
                elif cname in REF:
                    bad = None
                    for p in SAMPLES:
                        env = dict(BASE, **names)
                        env.update({boxp: Stub(phase=p, data=p), "isinstance": isi})
                        try:
                            term = eval_branch(st.body, env)
                        except ArityError as e:
                            bad = "ill-formed term: %s" % e
                            break
                        except (KeyError, TypeError) as e:
                            raise AnalysisError("gate2zx branch %s outside the foldable vocabulary: %s" % (cname, e))
                        ref = REF[cname](p)
                        nq = int(np.log2(len(ref)))
                        if not (isinstance(term, T) and (term.m, term.n) == (nq, nq)):
                            bad = "term has %s inputs and %s outputs, the gate %d and %d" % (getattr(term, "m", "?"), getattr(term, "n", "?"), nq, nq)
                            break
                        if not proportional(term.M, ref):
                            bad = "at φ = %s the term denotes %s, the gate is %s" % (round(p, 3), np.round(term.M, 3).tolist(), np.round(ref, 3).tolist())
                            break
                    ctx.ob("R16.1", cons, bad is None, found=bad or "proportional to the gate on %d phases" % len(SAMPLES),
                           required="denotes the gate's matrix up to one non-zero scalar, same arity", mod=ZX, node=st, sig="entry-" + cname)
                elif cname == "GatesScalar":
                    body_src = ast.unparse(ast.Module(body=st.body, type_ignores=[]))
                    ok = len(st.body) == 2 and isinstance(st.body[0], ast.If) and ast.unparse(st.body[0].test) == "%s.is_mixed" % boxp and not st.body[0].orelse and len(st.body[0].body) == 1 \
                        and ast.unparse(st.body[0].body[0]) == "raise NotImplementedError" and ast.unparse(st.body[-1]) == "return scalar(%s.data)" % boxp
                    ctx.ob("R16.1", cons, ok, found=body_src[:120], required="pure scalars go to scalar(data); mixed scalars are refused", mod=ZX, node=st, sig="entry-scalar")
                else:
                    raise AnalysisError("gate2zx tests class %s, for which the checker has no reference matrix" % cname)
        elif isinstance(st, ast.If):
            # every case of gate2zx is selected by the class of the gate: a negated or otherwise different test changes which gates reach the cases below it
            t = st.test
            if isinstance(t, ast.UnaryOp) and isinstance(t.op, ast.Not) and isinstance(t.operand, ast.Call) and ast.unparse(t.operand.func) == "isinstance":
                ctx.ob("R16.1", "%s.gate2zx:%s" % (ZX, ",".join(class_names(t.operand))), False, found=ast.unparse(t), required="the case is taken by the gates of that class (and only them)", mod=ZX, node=st,
                       sig="entry-negated")
            else:           # remembered, not raised: the coverage and lookup obligations below may still establish a violation
                ctx.broken = ctx.broken or "gate2zx: the case `if %s` is not selected by the class of the gate; cannot decide which gates reach it" % ast.unparse(t)[:60]
        elif isinstance(st, ast.Assign) and isinstance(st.value, ast.Dict):
            try:
                d = FoldZX(dict(BASE)).visit(st.value)
            except KeyError as e:
                raise AnalysisError("gate2zx table outside the foldable vocabulary: %s" % e)
            for k, thunk in d.items():
                seen.add(k)
                ctx.need(k in REF, "gate2zx maps %s, for which the checker has no reference matrix" % k)
                try:
                    t = thunk()
                    ref = REF[k](0)
                    nq = int(np.log2(len(ref)))
                    ok = isinstance(t, T) and (t.m, t.n) == (nq, nq) and proportional(t.M, ref)
                    found = np.round(t.M, 3).tolist()
                except ArityError as e:
                    ok, found = False, "ill-formed term: %s" % e
                except (KeyError, TypeError) as e:
                    raise AnalysisError("gate2zx entry %s outside the foldable vocabulary: %s" % (k, e))
                ctx.ob("R16.1", "%s.gate2zx:%s" % (ZX, k), ok, found=found, required="proportional to %s" % np.round(REF[k](0), 3).tolist(), mod=ZX, node=st, sig="entry-" + k)
    want = {"Bra", "Ket", "Rz", "Rx", "CRz", "CRx", "quantum.CU1", "GatesScalar", "quantum.H", "quantum.Z", "quantum.X", "quantum.Y", "CZ", "CX"}
    ctx.ob("R16.1", ZX + ".gate2zx:coverage", want <= seen, found=sorted(seen), required="entries for " + ", ".join(sorted(want)), mod=ZX, node=fn, sig="coverage", trivial=True)
    last = fn.body[-1]
    ctx.ob("R16.1", ZX + ".gate2zx:lookup", isinstance(last, ast.Return) and ast.unparse(last.value) == "standard_gates[%s]" % boxp, found=ast.unparse(last)[:60],
           required="other gates are looked up in the table (KeyError for unsupported gates)", mod=ZX, node=last, sig="lookup", trivial=True)


def check_functor(ctx):
    m = ctx.model
    v = m.module_assigns[ZX].get("circuit2zx")
    ctx.need(v is not None, "circuit2zx not found")
    shape.match(ctx, "R16.2", ZX + ".circuit2zx", v, "Functor(ob={qubit: PRO(1)}, ar=gate2zx, ob_factory=PRO, ar_factory=Diagram)", {}, mod=ZX, node=v, sig="functor",
                required="the rigid functor sending a qubit to one wire and each gate through gate2zx, into ZX diagrams")
    f = m.resolve_class(ZX, "Functor")
    ctx.ob("R16.2", ZX + ".circuit2zx:functor-class", f is not None and f.q == "discopy.rigid.Functor", found=f.q if f else None, required="discopy.rigid.Functor (C04)", mod=ZX, node=v,
           sig="functor-class", trivial=True)


def check_daggers(ctx):
    m = ctx.model
    for cname, how in (("Z", "neg"), ("X", "neg"), ("Y", "neg"), ("Scalar", "conj")):
        c = m.cls("%s.%s" % (ZX, cname))
        r = m.lookup(c, "dagger")
        bad, cases = None, 0
        try:
            for label, build in instances(m, c):
                def run(sim, build=build):
                    x = build(sim)
                    return x, sim.apply(sim.getattr(x, "dagger", None, c.mod), [], {}, None, c.mod, x)
                for oracle, res, sim in explore(m, run):
                    if isinstance(res, RaisesError):
                        continue
                    x, y = res
                    cases += 1
                    want = mk(how, x.attrs.get("_data"))
                    if not (isinstance(y, Inst) and y.cls is x.cls and y.attrs.get("_data") == want):
                        bad = "dagger has data %r" % (y.attrs.get("_data") if isinstance(y, Inst) else y)
                    elif how == "neg" and not (y.attrs.get("_dom").same(x.attrs.get("_cod"), sim.facts) and y.attrs.get("_cod").same(x.attrs.get("_dom"), sim.facts)):
                        bad = "legs not swapped"
        except SimUnsupported as e:
            raise AnalysisError("%s.dagger outside the recognised idioms: %s" % (c.q, e))
        ctx.need(cases > 0, "no generic instance of %s" % c.q)
        ctx.ob("R16.3", c.q + ".dagger", bad is None, found=bad or ("legs swapped, phase negated" if how == "neg" else "conjugated"),
               required="spiders: swap legs and negate the phase; scalars: conjugate", mod=r[0].mod, node=r[1], sig="dagger-" + cname)
        ctx.analysed(c.q + ".dagger")
    fn = m.func(ZX + ".Had.dagger")
    r = fn.body[-1]
    ctx.ob("R16.3", ZX + ".Had.dagger", isinstance(r, ast.Return) and ast.unparse(r.value) == "self", found=ast.unparse(r), required="H is self-adjoint", mod=ZX, node=fn, sig="dagger-H")


def check_generators(ctx):
    """R16.5: the generators the table is written with are built the way the reference algebra reads them: Z(m, n) has m inputs, n outputs and phase 0 unless given"""
    m = ctx.model
    sp = m.func(ZX + ".Spider.__init__")
    ctx.analysed(ZX + ".Spider.__init__", ZX + ".Spider.phase", ZX + ".Had.__init__", ZX + ".Scalar.__init__")
    a = [x.arg for x in sp.args.args]
    ctx.need(len(a) >= 4, "Spider.__init__ takes fewer than three arguments")
    N = {a[1]: "n_legs_in", a[2]: "n_legs_out", a[3]: "phase"}
    typ = shape.values_of(sp.body, ["dom", "cod"])
    shape.match(ctx, "R16.5", ZX + ".Spider.__init__:type", typ, "(PRO(n_legs_in), PRO(n_legs_out))", N, mod=ZX, node=sp, sig="spider-type", required="inputs first: dom = PRO(n_legs_in), cod = PRO(n_legs_out)")
    sup = next((c for c in ast.walk(sp) if isinstance(c, ast.Call) and ast.unparse(c.func) == "super().__init__"), None)
    shape.match(ctx, "R16.5", ZX + ".Spider.__init__:data", sup, "super().__init__(name, dom, cod, data=phase)", N, mod=ZX, node=sp, sig="spider-data", required="the phase is the data of the box")
    ph = m.func(ZX + ".Spider.phase")
    shape.match(ctx, "R16.5", ZX + ".Spider.phase", ret_expr(ph.body), "self.data", {}, mod=ZX, node=ph, sig="spider-phase")
    for cname in ("Z", "X", "Y"):
        fn = m.func("%s.%s.__init__" % (ZX, cname))
        ctx.analysed("%s.%s.__init__" % (ZX, cname))
        a = [x.arg for x in fn.args.args]
        d = dict(zip(a[len(a) - len(fn.args.defaults):], fn.args.defaults))
        ok = len(a) == 4 and isinstance(d.get(a[3]), ast.Constant) and d[a[3]].value == 0 and type(d[a[3]].value) in (int, float) and a[1] not in d and a[2] not in d
        ctx.ob("R16.5", "%s.%s.__init__:signature" % (ZX, cname), ok, found=ast.unparse(fn.args), required="(n_legs_in, n_legs_out, phase=0): a spider written without phase has phase 0", mod=ZX, node=fn, sig="signature-" + cname)
        if len(a) == 4:
            sup = next((c for c in ast.walk(fn) if isinstance(c, ast.Call) and ast.unparse(c.func) == "super().__init__"), None)
            shape.match(ctx, "R16.5", "%s.%s.__init__:super" % (ZX, cname), sup, ["super().__init__(n_legs_in, n_legs_out, phase, name='%s')" % cname, "super().__init__(n_legs_in, n_legs_out, phase=phase, name='%s')" % cname],
                        {a[1]: "n_legs_in", a[2]: "n_legs_out", a[3]: "phase"}, mod=ZX, node=fn, sig="super-" + cname, required="legs and phase passed on in this order, named %s" % cname)
    hd = m.func(ZX + ".Had.__init__")
    sup = next((c for c in ast.walk(hd) if isinstance(c, ast.Call) and ast.unparse(c.func) == "super().__init__"), None)
    shape.match(ctx, "R16.5", ZX + ".Had.__init__", sup, "super().__init__('H', PRO(1), PRO(1))", {}, mod=ZX, node=hd, sig="had", required="one wire in, one wire out")
    sc = m.func(ZX + ".Scalar.__init__")
    sup = next((c for c in ast.walk(sc) if isinstance(c, ast.Call) and ast.unparse(c.func) == "super().__init__"), None)
    shape.match(ctx, "R16.5", ZX + ".Scalar.__init__", sup, "super().__init__('scalar', PRO(0), PRO(0), data=data)", {sc.args.args[1].arg: "data"}, mod=ZX, node=sc, sig="scalar", required="no wires, the number as data")


def ret_expr(body):
    for st in body:
        if isinstance(st, ast.Return):
            return st.value
    return None


def check(ctx):
    ctx.rule("R16.5", "generators: Z / X / Y(m, n, phase=0) have m input and n output wires and the given phase as data; H is 1 -> 1; a scalar has no wires")
    ctx.attempt(check_generators, ctx)
    ctx.floor("R16.5", 11)
    ctx.rule("R16.1", "every gate2zx entry, as a closed ZX term in the reference algebra, is proportional to the reference matrix of the gate it is keyed by, with the same arity")
    ctx.rule("R16.2", "circuit2zx is the rigid functor qubit -> one wire, gate -> gate2zx(gate), into zx.Diagram")
    ctx.rule("R16.3", "dagger of ZX generators: spiders swap legs and negate the phase, scalars conjugate, H is fixed")
    ctx.attempt(check_table, ctx)
    ctx.attempt(check_functor, ctx)
    ctx.attempt(check_daggers, ctx)
    ctx.rule("R16.4", "gate2zx finds a gate in its table by equality and hash: equal gates (e.g. the result of H.dagger()) hash equal (C03)")
    m = ctx.model
    for c in sorted(m.classes.values(), key=lambda c: c.q):
        if c.mod not in ("discopy.quantum.gates", "discopy.quantum.circuit", ZX) or "__repr__" not in c.methods or "__hash__" in c.methods:
            continue
        h = m.lookup(c, "__hash__")
        if not (h and isinstance(h[1], ast.FunctionDef) and "repr" in ast.unparse(h[1])):
            continue
        rf = c.methods["__repr__"][0]
        sr = rf.args.args[0].arg
        ident = [ast.unparse(n) for n in ast.walk(rf) if isinstance(n, ast.Compare) and any(isinstance(o, (ast.Is, ast.IsNot)) for o in n.ops)
                 and any(isinstance(x, ast.Name) and x.id == sr for x in ast.walk(n)) and not all(isinstance(k, ast.Constant) for k in n.comparators)]
        ctx.ob("R16.4", c.q + ".__repr__:no-identity", not ident, found=ident or "the repr (of which the inherited hash is the hash) depends on values only", required="the hash of a gate is the hash of its repr: the repr "
               "must not depend on which object it is (`self is gate`), or an equal gate built afresh (H.dagger()) is not found in the table", mod=c.mod, node=rf, sig="repr-identity", trivial=True)
    ctx.depend("R16.4", "C03", "gates are looked up in the translation table by == and hash: a fresh but equal gate must be found", rules={"R03.1", "R03.2"},
               constructs=["discopy.quantum.gates.QuantumGate", "discopy.quantum.circuit.Box", "discopy.rigid.Box", "discopy.cat.Box", "discopy.monoidal.Box"], mod="discopy.quantum.gates")
    try:
        ctx.depend("R16.2", "C04", "circuit2zx is a functor over the FUNCTION gate2zx: each gate must be handed to it as it is, every time (a memo keyed by a printed form would merge rotations whose phases print alike)",
                   rules={"R04.7"}, mod="discopy.cat")
    except AnalysisError:
        if not any(not o.ok for o in ctx.obs):
            raise
    ctx.floor("R16.1", 14)
    ctx.floor("R16.3", 5)
    ctx.not_decided += ["composite circuits (follow from C04 functoriality and C09)", "the single overall scalar is not tracked"]
