"""Prototype R04.2 (functor scan-splice, idiom T4) and R04.5 (cups index chain, idiom T3)."""
import ast, sys
from .lin import Lin, Facts
from .words import Seq, Seg, Item, Atom, Unlocatable
from .beval import Evaluator, Obj, Box, Closure, Unsupported, Undecided


def W(*atoms):
    return Seq([Seg(a) for a in atoms])


class Hom:
    """a monoid homomorphism on words: atom a -> atom F(a) (same slicing structure)."""
    def __init__(self, name="F"):
        self.name, self.memo = name, {}

    def atom(self, a):
        if id(a) not in self.memo:
            self.memo[id(a)] = Atom("%s(%s)" % (self.name, a.name))
        return self.memo[id(a)]

    def __call__(self, w):
        if isinstance(w, Obj) and w.kind == "Box":
            return TD(self(w.f["dom"]), self(w.f["cod"]))      # assumption: the user's image of a box is well-typed
        out = []
        for p in w.parts:
            if not isinstance(p, Seg) or not p.is_full() or p.rev or p.z:
                raise Unsupported("functor applied to a partial segment %r" % (p,))
            out.append(Seg(self.atom(p.atom)))
        return Seq(out)


def TD(dom, cod):
    return Obj("TDiag", dom=dom, cod=cod)


class Ev(Evaluator):
    def tensor(self, l, r, n=None):
        if isinstance(l, Obj) and l.kind == "TDiag" and isinstance(r, Obj) and r.kind == "TDiag":
            return TD(l.f["dom"] + r.f["dom"], l.f["cod"] + r.f["cod"])
        return super().tensor(l, r, n)

    def then(self, a, b, n=None):
        if isinstance(a, Obj) and a.kind == "TDiag":
            self.oblige("compose", a.f["cod"], b.f["dom"], n)
            return TD(a.f["dom"], b.f["cod"])
        return super().then(a, b, n)

    def e_Call(self, n, env):
        f = self.ev(n.func, env)
        if isinstance(f, Obj) and "call" in f.f:
            return f.f["call"](*[self.ev(a, env) for a in n.args])
        return super().e_Call(n, env)


def check_functor_scan(path="/repo/discopy/monoidal.py", out=print):
    mod = ast.parse(open(path).read())
    cls = next(n for n in mod.body if isinstance(n, ast.ClassDef) and n.name == "Functor")
    fn = next(n for n in cls.body if isinstance(n, ast.FunctionDef) and n.name == "__call__")
    self_, dparam = [a.arg for a in fn.args.args][:2]
    # the branch handling a general Diagram: the `if isinstance(<d>, Diagram)` whose body contains a for-loop over zip(d.boxes, d.offsets)
    branch = None
    for st in fn.body:
        if isinstance(st, ast.If) and any(isinstance(s, ast.For) for s in st.body):
            branch = st
    if branch is None:
        out("ANALYSIS-ERROR: no scanning loop in monoidal.Functor.__call__"); return 2
    loop = next(s for s in branch.body if isinstance(s, ast.For))
    k = branch.body.index(loop)
    pre, post = branch.body[:k], branch.body[k + 1:]
    if "zip(%s.boxes, %s.offsets)" % (dparam, dparam) != ast.unparse(loop.iter):
        out("ANALYSIS-ERROR: loop iterates %s, expected zip(d.boxes, d.offsets)" % ast.unparse(loop.iter)); return 2
    # generic diagram: rows Row0=dom ... RowN=cod ; generic iteration: row_k = L d R
    Row0, RowN, L, R, d, c = (Atom(x) for x in "Row0 RowN L R d c".split())
    F = Hom()
    functor = Obj("Functor", call=F, ar_factory=Obj("Factory", id=Closure(lambda t: TD(t, t))))
    diagram = Obj("Diagram", dom=W(Row0), cod=W(RowN), boxes=Seq.atom(Atom("boxes")), offsets=Seq.atom(Atom("offsets")))
    ev = Ev(Facts(), "monoidal.Functor.__call__")
    env = {self_: functor, dparam: diagram}
    r = ev.run(pre, env)
    fails = []
    scan_vars = [v for v, val in env.items() if isinstance(val, Seq) and val == W(Row0)]
    res_vars = [v for v, val in env.items() if isinstance(val, Obj) and val.kind == "TDiag"]
    if len(scan_vars) != 1 or len(res_vars) != 1:
        out("ANALYSIS-ERROR: cannot identify the scan/result variables (%r, %r)" % (scan_vars, res_vars)); return 2
    scan, res = scan_vars[0], res_vars[0]
    if env[res].f["dom"] != F(W(Row0)) or env[res].f["cod"] != F(W(Row0)):
        fails.append("R04.2 initial result is not id(F(dom)): %r" % env[res])
    # generic iteration
    box = Box("box_k", W(d), W(c))
    env2 = dict(env); env2[scan] = W(L, d, R); env2[res] = TD(F(W(Row0)), F(W(L, d, R)))
    ev.bind(loop.target, (box, W(L).length), env2)
    try:
        ev.run(loop.body, env2)
    except (Unlocatable, Unsupported, Undecided) as e:
        fails.append("R04.2 loop body line %d: %s: %s" % (loop.lineno, type(e).__name__, e))
    else:
        if env2[scan] != W(L, c, R):
            fails.append("R04.2 scan after the step is %r, spec %r" % (env2[scan], W(L, c, R)))
        if env2[res].f["cod"] != F(W(L, c, R)) or env2[res].f["dom"] != F(W(Row0)):
            fails.append("R04.2 result after the step has type %r -> %r, spec F(Row0) -> %r" % (env2[res].f["dom"], env2[res].f["cod"], F(W(L, c, R))))
        fails += ["R04.2 whiskered layer does not compose: %r" % o for o in ev.obligations if not o.ok]
    # exit: returns result
    env3 = dict(env); env3[res] = TD(F(W(Row0)), F(W(RowN)))
    r = ev.run(post, env3)
    if not r or r[0] != "return" or r[1] is not env3[res]:
        fails.append("R04.2 the scanning branch does not return the accumulated result")
    for f in fails:
        out("VIOLATION-CANDIDATE " + f)
    if not fails:
        out("  R04.2 ok: scan=%s result=%s; invariant result.cod = F(scan) preserved; %d side conditions proved" % (scan, res, len(ev.obligations)))
    return 1 if fails else 0


def check_cups(path="/repo/discopy/rigid.py", out=print):
    """R04.5: fold of >> in rigid.cups: cod(layer_i) == dom(layer_{i+1}), first dom == left @ right, last cod == empty."""
    mod = ast.parse(open(path).read())
    fn = next(n for n in mod.body if isinstance(n, ast.FunctionDef) and n.name == "cups")
    loop = next(s for s in fn.body if isinstance(s, ast.For) and isinstance(s.iter, ast.Call) and ast.unparse(s.iter.func) == "range")
    k = fn.body.index(loop)
    LEFT, RIGHT = Atom("left"), Atom("right")
    n = LEFT.length
    fails = []

    def run_iteration(i, facts):
        ev = Ev(facts, "rigid.cups")
        ev.classes.update(Ty=Closure(lambda *a: Seq()))
        factory = Obj("Factory", id=Closure(lambda t: TD(t, t)))
        cupf = Closure(lambda l, r: TD(l + r, Seq()))
        env = {"left": Seq.atom(LEFT), "right": Seq.atom(RIGHT), "ar_factory": factory, "cup_factory": cupf, "reverse": False,
               "result": TD(Seq.atom(LEFT) + Seq.atom(RIGHT), Lin)}
        # evaluate only the statements defining the layer (everything before the accumulation)
        ev.bind(loop.target, i, env)
        layer = None
        for st in loop.body:
            if isinstance(st, ast.Assign) and isinstance(st.value, ast.IfExp):   # result = result << layer if reverse else result >> layer
                break
            ev.run([st], env)
        layer_var = [v for v, val in env.items() if isinstance(val, Obj) and val.kind == "TDiag" and v != "result"]
        return ev, env, env[layer_var[-1]]
    i = Lin.var("i")
    # |left| == |right| is implied by adjointness (guard before the loop); add as facts
    base = Facts().with_eq(LEFT.length, RIGHT.length)
    try:
        ev, env, lay_i = run_iteration(i, base.extend(i, n - i - 2))
        ev2, env2, lay_j = run_iteration(i + 1, base.extend(i, n - i - 2))
        if lay_i.f["cod"] != lay_j.f["dom"]:
            fails.append("R04.5 cod(layer_i) = %r but dom(layer_{i+1}) = %r" % (lay_i.f["cod"], lay_j.f["dom"]))
        ev0, env0, lay_0 = run_iteration(Lin.of(0), base.extend(n - 1))
        if lay_0.f["dom"] != Seq.atom(LEFT) + Seq.atom(RIGHT):
            fails.append("R04.5 dom(layer_0) = %r, spec left @ right" % (lay_0.f["dom"],))
        evn, envn, lay_n = run_iteration(n - 1, base.extend(n - 1))
        if lay_n.f["cod"] != Seq():
            fails.append("R04.5 cod(layer_last) = %r, spec empty" % (lay_n.f["cod"],))
        # the cup joins left[j] with right[i], j = n - i - 1
        cup = [v for v in env.values() if isinstance(v, Obj) and v.kind == "TDiag" and v is not lay_i and v.f["cod"] == Seq() and v.f["dom"].length == 2]
        want = Seq.atom(LEFT).slice(n - i - 1, n - i, ev.facts) + Seq.atom(RIGHT).slice(i, i + 1, ev.facts)
        if not cup or cup[0].f["dom"] != want:
            fails.append("R04.5 cup joins %r, spec %r" % (cup[0].f["dom"] if cup else None, want))
    except (Unlocatable, Unsupported, Undecided) as e:
        fails.append("R04.5 rigid.cups loop line %d: %s: %s" % (loop.lineno, type(e).__name__, e))
    for f in fails:
        out("VIOLATION-CANDIDATE " + f)
    if not fails:
        out("  R04.5 ok: layer_i : %r -> %r ; chain composes from left@right to empty" % (lay_i.f["dom"], lay_i.f["cod"]))
    return 1 if fails else 0


if __name__ == "__main__":
    rc = check_functor_scan() | check_cups()
    sys.exit(rc)
