"""C02 — diagrams obey the strict dagger-monoidal and sum laws as equalities (R02.1–R02.4; engines A, B, C′)."""
import ast
from ..lin import Lin, Facts
from ..words import Seq, Seg, Item, MapSeg, Atom
from ..beval import Obj
from ..core import AnalysisError
from ..objsim import explore, Inst, RaisesError, Unsupported as SimUnsupported, Sym
from ..generic import instances, same_value, KEY
from .. import shape
from . import c01

EXPLANATION = (
    "`==` on diagrams compares (dom, cod, boxes, offsets) (C03), so laws between returned values are equalities between these four "
    "fields. (R02.1) The functional summaries of then and tensor are extracted by abstract evaluation of their source on generic "
    "diagrams and must equal the free strict-monoidal algebra: then = (a.dom, b.cod, a.boxes⧺b.boxes, a.offsets⧺b.offsets), tensor = "
    "(a.dom·b.dom, a.cod·b.cod, a.boxes⧺b.boxes, a.offsets⧺[o+|a.cod|]); dagger, slicing and identities are reduced to the "
    "constructions verified in C01 plus the per-layer and per-box delegation rules. Associativity, units, whiskering, "
    "anti-multiplicativity and involutivity of dagger, and [:k] >> [k:] = id follow from these summaries by list algebra (R02.2, "
    "derived, listed in the evidence). (R02.3) Sum.then / Sum.tensor / Sum.dagger / __add__ distribute term-wise with `self` "
    "outermost, promote non-sums, and use the typed empty sum as unit. (R02.4) For every concrete box class of the package, a "
    "generic instance is constructed abstractly (engine C′) for every combination of its finite parameters, its dagger is executed "
    "abstractly, and the result must bind against the constructor, have dom/cod swapped, and dagger back to an object with the same "
    "name, types, data, dagger flag and mixedness.")

CAT, MON, RIG = "discopy.cat", "discopy.monoidal", "discopy.rigid"
ABSTRACT = {"discopy.quantum.gates.Parametrized": "abstract base of parametrised gates (its own constructor signature differs from its subclasses')",
            "discopy.quantum.gates.Rotation": "abstract base of the rotation gates (rebuilds with type(self)(phase); only the concrete subclasses have that signature)",
            "discopy.quantum.zx.Spider": "abstract spider (documented as such): the concrete spiders Z, X, Y fix the name",
            "discopy.monoidal.Layer": "internal; only its overridden [::-1] is used by the library (checked by R02.1)"}
NO_DAGGER = ("discopy.cartesian", "discopy.biclosed", "discopy.quantum.cqmap")


def ret_expr(body):
    for st in body:
        if isinstance(st, ast.Return):
            return st.value
    return None


def check_summaries(ctx):
    m = ctx.model
    sub = c01.Ctx("C01", m, ctx.tier) if hasattr(c01, "Ctx") else None
    from ..core import Ctx
    sub = Ctx("C01", m, ctx.tier)
    sub.summaries = {}
    # the algebra reads lists through the normalising properties: the raw fields are tuples after slicing / dagger
    raw_hit = set()
    for q in (MON + ".Diagram.then", MON + ".Diagram.tensor", CAT + ".Arrow.then", MON + ".Diagram.dagger" if (MON + ".Diagram.dagger") in m.functions else CAT + ".Arrow.dagger"):
        try:
            fn = m.func(q)
        except Exception:
            continue
        raw = sorted({ast.unparse(x) for x in c01.own_nodes(fn) if isinstance(x, ast.Attribute) and x.attr in ("_boxes", "_offsets") and isinstance(x.ctx, ast.Load)})
        ctx.ob("R02.1", q + ":reads-lists", not raw, found=raw or "boxes / offsets read through their properties", required="`boxes` / `offsets` (lists), not the raw fields: after slicing or dagger "
               "the raw fields are tuples and list + tuple raises TypeError", mod=q.rsplit(".", 2)[0], node=fn, sig="raw-fields", trivial=True)
        if raw:
            raw_hit.add(q)
    for which in ("then", "tensor"):
        q = MON + ".Diagram." + which
        if q in raw_hit:
            continue
        fn = m.func(q)
        ctx.analysed(q)
        site = next((c for c in c01.own_nodes(fn) if isinstance(c, ast.Call) and ast.unparse(c.func) == "Diagram"), None)
        ctx.need(site is not None, "%s does not construct a Diagram" % q)
        probs, pattern = c01.h_mon_then_tensor(sub, MON, "Diagram." + which, fn, site, "diagram")
        ctx.ob("R02.1", q + ":well-typed", not probs, found=probs or pattern, required="RI1-RI4 (C01)", mod=MON, node=site, sig="ri")
        if which not in sub.summaries:
            continue
        res, a, b, ev = sub.summaries[which]
        A = lambda g, f: Seq.atom(getattr(g, f))
        if which == "then":
            want = {"dom": a.DOM, "cod": b.COD, "boxes": A(a, "BOX") + A(b, "BOX"), "offsets": A(a, "OFF") + A(b, "OFF")}
            for k, w in want.items():
                ctx.ob("R02.1", "%s:%s" % (q, k), res.f[k] == w, found=res.f[k], required=w, mod=MON, node=site, sig="then-" + k)
        else:
            want = {"dom": a.DOM + b.DOM, "cod": a.COD + b.COD, "boxes": A(a, "BOX") + A(b, "BOX")}
            for k, w in want.items():
                ctx.ob("R02.1", "%s:%s" % (q, k), res.f[k] == w, found=res.f[k], required=w, mod=MON, node=site, sig="tensor-" + k)
            off = res.f["offsets"]
            shift = None
            if len(off.parts) == 2 and isinstance(off.parts[1], MapSeg):
                shift = off.parts[1].fn(Lin.var("o")) - Lin.var("o")
            ok = len(off.parts) == 2 and off.parts[0] == Seg(a.OFF) and shift == a.COD.length and isinstance(off.parts[1], MapSeg) and off.parts[1].seg == Seg(b.OFF)
            ctx.ob("R02.1", q + ":offsets", ok, found=off, required="a.offsets ⧺ [o + |a.cod| for o in b.offsets]  (whiskering: a @ b = a @ id(b.dom) >> id(a.cod) @ b)", mod=MON,
                   node=site, sig="tensor-offsets")
    # cat.Arrow.then: concatenation (guard in C01/R01.3)
    fn = m.func(CAT + ".Arrow.then")
    ctx.analysed(CAT + ".Arrow.then")
    site = next((c for c in c01.own_nodes(fn) if isinstance(c, ast.Call) and ast.unparse(c.func) == "Arrow"), None)
    probs, pat = c01.h_cat_then(sub, CAT, "Arrow.then", fn, site, "arrow") if site is not None else (["no construction"], "?")
    ctx.ob("R02.1", CAT + ".Arrow.then:summary", not probs, found=probs or "(self.dom, other.cod, self.boxes + other.boxes)", required="guarded concatenation", mod=CAT,
           node=site or fn, sig="cat-then")
    # n-ary then / tensor fold left-to-right
    for q, spec in ((CAT + ".Arrow.then", "self.then(others[0]).then(*others[1:])"), (MON + ".Diagram.tensor", "self.tensor(other).tensor(*rest)")):
        fn = m.func(q)
        va = fn.args.vararg.arg if fn.args.vararg else "others"
        folds = [s for s in fn.body if isinstance(s, ast.If) and isinstance(s.body[-1], ast.Return) and ".%s(" % q.rsplit(".", 1)[1] in ast.unparse(s.body[-1])
                 and "sum" not in ast.unparse(s.body[-1])]
        names = {fn.args.args[0].arg: "self", va: "others" if "then" in q else "rest"}
        if len(fn.args.args) > 1:
            names[fn.args.args[1].arg] = "other"
        shape.match(ctx, "R02.1", q + ":n-ary", folds[0].body[-1].value if folds else None, spec, names, mod=q.rsplit(".", 2)[0], node=fn, sig="nary",
                    required="several arguments are folded left to right")
    # dagger / slicing delegation
    fn = m.func(CAT + ".Arrow.dagger")
    shape.match(ctx, "R02.1", CAT + ".Arrow.dagger", ret_expr(fn.body), "self[::-1]", {}, mod=CAT, node=fn, sig="dagger-slice")
    fn = m.func(CAT + ".Box.__getitem__")
    first = fn.body[0]
    ok = isinstance(first, ast.If) and ast.unparse(first.test) == "key == slice(None, None, -1)" and ast.unparse(first.body[-1]) == "return self.dagger()"
    ctx.ob("R02.1", CAT + ".Box.__getitem__", ok, found=ast.unparse(first)[:80], required="box[::-1] is box.dagger()", mod=CAT, node=fn, sig="box-getitem")
    fn = m.func(MON + ".Layer.__getitem__")
    first = fn.body[0]
    r = first.body[-1].value if isinstance(first, ast.If) and isinstance(first.body[-1], ast.Return) else None
    ok = isinstance(first, ast.If) and ast.unparse(first.test) == "key == slice(None, None, -1)"
    ctx.ob("R02.1", MON + ".Layer.__getitem__:test", ok, found=ast.unparse(first.test) if isinstance(first, ast.If) else None, required="key == slice(None, None, -1)", mod=MON, node=fn,
           sig="layer-getitem-test", trivial=True)
    shape.match(ctx, "R02.1", MON + ".Layer.__getitem__:dagger", r, "Layer(self._left, self._box[::-1], self._right)", {}, mod=MON, node=fn, sig="layer-dagger",
                required="the dagger of a layer keeps the whiskers and daggers the box (so offsets are kept and boxes daggered)")
    # the two cat.Arrow.__getitem__ sites and the monoidal one (C01 handlers: contiguous sub-list / dagger of one value / derived from layers)
    for mod, q2, h in ((CAT, "Arrow.__getitem__", c01.h_cat_getitem), (MON, "Diagram.__getitem__", c01.h_mon_getitem)):
        fn = m.func(mod + "." + q2)
        for site in [c for c in c01.own_nodes(fn) if isinstance(c, ast.Call) and ast.unparse(c.func) in ("Arrow", "Diagram")]:
            probs, pat = h(sub, mod, q2, fn, site, "arrow")
            ctx.ob("R02.1", "%s.%s:%s" % (mod, q2, pat), not probs, found=probs or pat, required="slice typed by the rows at its ends; reversed slice = dagger of the forward slice",
                   mod=mod, node=site, sig="getitem-" + pat)
    check_halves(ctx)
    # identities
    for q in (CAT + ".Arrow.id", MON + ".Diagram.id", RIG + ".Diagram.id"):
        c = m.cls(q.rsplit(".", 1)[0])
        r = m.lookup(c, "id")
        ok = False
        found = None
        if r and r[2] == "late":
            k = m.resolve_class(r[1][1], r[1][2])
            found = k.q if k else r[1]
            ok = k is not None and k.name == "Id" and k.mod == c.mod
        elif r and isinstance(r[1], ast.FunctionDef):
            found = ast.unparse(ret_expr(r[1].body))
            ok = found in ("Id(dom)",)
        ctx.ob("R02.1", q, ok, found=found, required="the identity class of the same category (empty boxes: C01 identity pattern)", mod=c.mod, node=c.node, sig="id")
    ctx.derived = [
        "(a >> b) >> c == a >> (b >> c), id >> a == a == a >> id          (lists concatenate associatively, [] is neutral)",
        "(a @ b) @ c == a @ (b @ c), id() @ a == a == a @ id()             (offset shifts add: |a.cod| + |b.cod| = |(a@b).cod|)",
        "a @ b == a @ id(b.dom) >> id(a.cod) @ b                             (tensor offsets: a's unchanged, b's shifted by |a.cod|)",
        "(a >> b)[::-1] == b[::-1] >> a[::-1], a[::-1][::-1] == a, id[::-1] == id   (reversal of lists; box daggers involutive by R02.4)",
        "a[:k] >> a[k:] == a                                                 (slices typed by the rows at their ends)",
    ]


def check_sums(ctx):
    m = ctx.model
    q = CAT + ".Sum.then"
    fn = m.func(q)
    ctx.analysed(q, CAT + ".Sum.dagger", CAT + ".Sum.__add__", MON + ".Sum.tensor")
    N = {fn.args.args[0].arg: "self"}

    def assigned(fn, name):
        for s in fn.body:
            if isinstance(s, ast.Assign) and ast.unparse(s.targets[0]) == name:
                return s.value
        raise AnalysisError("%s: no assignment to `%s` (the rule anchors on that local); cannot decide" % (fn.name, name))
    shape.match(ctx, "R02.3", q + ":promotes", assigned(fn, "other"), "others[0] if isinstance(others[0], Sum) else Sum(list(others))", N, mod=CAT, node=fn, sig="then-promote",
                required="a non-sum argument is promoted to a one-term sum")
    shape.match(ctx, "R02.3", q + ":unit", assigned(fn, "unit"), "Sum([], self.dom, other.cod)", N, mod=CAT, node=fn, sig="then-unit", required="empty sum typed self.dom -> other.cod")
    shape.match(ctx, "R02.3", q + ":terms", assigned(fn, "terms"), "[f.then(g) for f in self.terms for g in other.terms]", N, mod=CAT, node=fn, sig="then-terms",
                required="pairwise composites, self's terms outermost (left-major order)")
    shape.match(ctx, "R02.3", q + ":returns", ret_expr(fn.body[-1:]), "self.upgrade(sum(terms, unit))", N, mod=CAT, node=fn, sig="then-returns")
    fn = m.func(MON + ".Sum.tensor")
    shape.match(ctx, "R02.3", MON + ".Sum.tensor:promotes", assigned(fn, "other"), ["others[0] if isinstance(others[0], Sum) else Sum(others)", "others[0] if isinstance(others[0], Sum) else Sum(list(others))"],
                N, mod=MON, node=fn, sig="tensor-promote")
    shape.match(ctx, "R02.3", MON + ".Sum.tensor:unit", assigned(fn, "unit"), "Sum([], self.dom @ other.dom, self.cod @ other.cod)", N, mod=MON, node=fn, sig="tensor-unit")
    shape.match(ctx, "R02.3", MON + ".Sum.tensor:terms", assigned(fn, "terms"), "[f.tensor(g) for f in self.terms for g in other.terms]", N, mod=MON, node=fn, sig="tensor-terms",
                required="pairwise tensors, self's terms outermost (the order Sum.then uses, so functors commute with @)")
    shape.match(ctx, "R02.3", MON + ".Sum.tensor:returns", ret_expr(fn.body[-1:]), "self.upgrade(sum(terms, unit))", N, mod=MON, node=fn, sig="tensor-returns")
    fn = m.func(CAT + ".Sum.dagger")
    shape.match(ctx, "R02.3", CAT + ".Sum.dagger:unit", assigned(fn, "unit"), "Sum([], self.cod, self.dom)", N, mod=CAT, node=fn, sig="dagger-unit")
    shape.match(ctx, "R02.3", CAT + ".Sum.dagger:terms", ret_expr(fn.body[-1:]), "self.upgrade(sum([f.dagger() for f in self.terms], unit))", N, mod=CAT, node=fn, sig="dagger-terms",
                required="term-wise dagger, in order")
    # the results above go through `upgrade`: every sum class rebuilds the same terms with the same type
    sumc = m.cls(CAT + ".Sum")
    nup = 0
    for k in sorted(m.subclasses(sumc), key=lambda c: c.q):
        if "upgrade" not in k.methods:
            continue
        uf = k.methods["upgrade"][0]
        old = uf.args.args[0].arg
        rets = [r for r in ast.walk(uf) if isinstance(r, ast.Return)]
        for r in rets:
            nup += 1
            shape.match(ctx, "R02.3", k.q + ".upgrade", r.value, ["old", "%s(old.terms, old.dom, old.cod)" % k.name, "%s(old.terms, dom=old.dom, cod=old.cod)" % k.name], {old: "old"}, mod=k.mod, node=r, sig="sum-upgrade",
                        required="the same terms with the same domain and codomain, as a sum of this class")
    ctx.need(nup >= 3, "fewer than 3 Sum.upgrade methods found (%d)" % nup)
    fn = m.func(CAT + ".Sum.__add__")
    shape.match(ctx, "R02.3", CAT + ".Sum.__add__", ret_expr(fn.body[-1:]), "self.sum(self.terms + other.terms, self.dom, self.cod)", N, mod=CAT, node=fn, sig="add",
                required="terms are concatenated in order, types kept")
    shape.match(ctx, "R02.3", CAT + ".Sum.__add__:promotes", assigned(fn, "other"), "other if isinstance(other, Sum) else Sum([other])", N, mod=CAT, node=fn, sig="add-promote")
    # arrows promote themselves when meeting a sum
    for q, spec, nm in ((CAT + ".Arrow.then", "self.sum([self]).then(other)", "other"), (MON + ".Diagram.tensor", "self.sum([self]).tensor(other)", "other")):
        fn = m.func(q)
        br = [s for s in fn.body if isinstance(s, ast.If) and ast.unparse(s.test) == "isinstance(other, Sum)"]
        shape.match(ctx, "R02.3", q + ":meets-sum", ret_expr(br[0].body) if br else None, spec, {}, mod=q.rsplit(".", 2)[0], node=fn, sig="meets-sum")
    fn = m.func(CAT + ".Arrow.__add__")
    shape.match(ctx, "R02.3", CAT + ".Arrow.__add__", ret_expr(fn.body), "self.sum([self]) + other", {}, mod=CAT, node=fn, sig="arrow-add")
    # Sum.__init__: every term has the sum's type
    fn = m.func(CAT + ".Sum.__init__")
    loop = next((s for s in fn.body if isinstance(s, ast.For)), None)
    ok = loop is not None and any(isinstance(s, ast.If) and ast.unparse(s.test) == "(arrow.dom, arrow.cod) != (dom, cod)" and "AxiomError" in ast.unparse(s.body[-1]) for s in loop.body)
    ctx.ob("R02.3", CAT + ".Sum.__init__:typed-terms", ok, found=ast.unparse(loop)[:100] if loop else None, required="every term is checked against (dom, cod) with AxiomError", mod=CAT, node=fn,
           sig="sum-typed")
    emp = [s for s in fn.body if isinstance(s, ast.If) and ast.unparse(s.test) in ("not terms", "terms")]
    empty_branch = (emp[0].body if ast.unparse(emp[0].test) == "not terms" else emp[0].orelse) if emp else []
    ok = any(isinstance(x, ast.If) and shape.key(x.test) == shape.key(shape.parse("dom is None or cod is None")) and isinstance(x.body[-1], ast.Raise) and "ValueError" in ast.unparse(x.body[-1])
             for x in empty_branch)
    ctx.ob("R02.3", CAT + ".Sum.__init__:empty-needs-types", ok, found=[ast.unparse(x)[:80] for x in empty_branch] or None, required="the empty sum must be given its types (ValueError otherwise)", mod=CAT, node=fn,
           sig="sum-empty")


def run_dagger(m, cls, build):
    def run(sim):
        x = build(sim)
        y = sim.apply(sim.getattr(x, "dagger", None, cls.mod), [], {}, None, cls.mod, x)
        z = None
        if isinstance(y, Inst):
            z = sim.apply(sim.getattr(y, "dagger", None, y.cls.mod), [], {}, None, y.cls.mod, y)
        return x, y, z
    return run


def check_daggers(ctx, modules=None, rule="R02.4", kinds=None):
    m = ctx.model
    n_cls = 0
    for c in m.concrete_boxes():
        if modules is not None and c.mod not in modules:
            continue
        if c.mod in NO_DAGGER or c.mod.startswith("discopy.grammar"):
            continue
        if m.cls(CAT + ".Sum") in m.mro(c):
            continue            # sums: R02.3
        if c.q in ABSTRACT:
            ctx.ob(rule, c.q + ".dagger", True, found="excluded: " + ABSTRACT[c.q], required="(not a concrete class)", mod=c.mod, node=c.node, trivial=True)
            continue
        r = m.lookup(c, "dagger")
        if r is None:
            continue
        ctx.analysed(c.q + ".dagger")
        n_cls += 1
        cases, bad = 0, {}
        try:
            for label, build in instances(m, c):
                # construct first: a generic instance whose own constructor raises is not an instance
                def only_build(sim, build=build):
                    return build(sim)
                for oracle, res, sim in explore(m, run_dagger(m, c, build)):
                    if isinstance(res, RaisesError):
                        # did the constructor of the instance itself raise, or the rebuild?
                        try:
                            from ..objsim import Sim
                            s2 = Sim(m, oracle)
                            build(s2)
                        except RaisesError:
                            continue
                        except Exception:
                            continue
                        bad.setdefault("raises", (label, oracle, res.what))
                        cases += 1
                        continue
                    x, y, z = res
                    cases += 1
                    if not isinstance(y, Inst):
                        bad.setdefault("not-a-box", (label, oracle, repr(y)[:80]))
                        continue
                    if not same_value(sim, y.attrs.get("_dom"), x.attrs.get("_cod")) or not same_value(sim, y.attrs.get("_cod"), x.attrs.get("_dom")):
                        bad.setdefault("types", (label, oracle, "dagger typed %r -> %r, box typed %r -> %r" % (y.attrs.get("_dom"), y.attrs.get("_cod"), x.attrs.get("_dom"), x.attrs.get("_cod"))))
                    xd, yd = x.attrs.get("_dagger"), y.attrs.get("_dagger")
                    flag_style = isinstance(r[1], ast.FunctionDef) and "_dagger" in ast.unparse(r[1])
                    if flag_style and y.cls is x.cls and isinstance(xd, bool) and same_value(sim, x.attrs.get("_name"), y.attrs.get("_name")) \
                            and same_value(sim, x.attrs.get("_data"), y.attrs.get("_data")) and yd is not (not xd):
                        bad.setdefault("flag", (label, oracle, "the dagger has the same name and data and the same dagger flag %r: it is indistinguishable from the box" % (yd,)))
                    if isinstance(z, Inst):
                        for a in KEY:
                            if a in x.attrs or a in z.attrs:
                                if not same_value(sim, x.attrs.get(a), z.attrs.get(a)):
                                    bad.setdefault("involution:" + a, (label, oracle, "x.%s = %r but x.dagger().dagger().%s = %r" % (a, x.attrs.get(a), a, z.attrs.get(a))))
                    else:
                        bad.setdefault("involution-raises", (label, oracle, repr(z)[:80]))
        except SimUnsupported as e:
            raise AnalysisError("%s.dagger outside the recognised idioms: %s" % (c.q, e))
        if cases == 0:
            raise AnalysisError("%s: no generic instance could be constructed" % c.q)
        if kinds is not None:
            bad = {k: v for k, v in bad.items() if k.split(":")[0] in kinds}
        if bad:
            for what, (label, oracle, msg) in sorted(bad.items()):
                ctx.ob(rule, "%s.dagger:%s" % (c.q, what), False, found=msg, required="binds, swaps dom/cod, and is involutive on name/dom/cod/data/dagger flag/mixedness", mod=r[0].mod,
                       node=r[1] if isinstance(r[1], ast.AST) else c.node, sig="dagger-" + what.split(":")[0] + (":" + what.split(":")[1] if ":" in what else ""),
                       note="generic instance [%s]%s; dagger defined in %s" % (label, (" under " + ", ".join("%s=%s" % (k[:50], v) for k, v in oracle.items())) if oracle else "", r[0].q))
        else:
            ctx.ob(rule, c.q + ".dagger", True, found="%d generic cases" % cases, required="binds, swaps dom/cod, involutive", mod=r[0].mod, node=r[1] if isinstance(r[1], ast.AST) else c.node)
    return n_cls


def check_halves(ctx):
    """R02.5: arrow[:i] >> arrow[i:] == arrow for every depth i (also negative and out of range): cat.Arrow.__getitem__ is folded on arrows of 0 to 3 boxes whose
    objects are o0 .. on, with the key a real slice object; what it returns is read as (dom, cod, number of boxes)"""
    from ..fold import fold as ffold, CannotFold, Stub, bind
    m = ctx.model
    fn = m.func(CAT + ".Arrow.__getitem__")
    self_, key = fn.args.args[0].arg, fn.args.args[1].arg

    class Raised(Exception):
        pass

    def run(body, env):
        for st in body:
            if isinstance(st, ast.Expr) and isinstance(st.value, ast.Constant):
                continue
            if isinstance(st, ast.If):
                r = run(st.body if ffold(st.test, env) else st.orelse, env)
                if r is not None:
                    return r
            elif isinstance(st, ast.Assign) and len(st.targets) == 1:
                bind(st.targets[0], ffold(st.value, env), env)
            elif isinstance(st, ast.Return):
                return ("ret", ffold(st.value, env))
            elif isinstance(st, ast.Raise):
                raise Raised(ast.unparse(st))
            else:
                raise CannotFold("statement %s" % ast.unparse(st)[:40])
        return None
    bad, cases = [], 0
    try:
        for n in range(0, 4):
            obs = ["o%d" % k for k in range(n + 1)]
            boxes = [Stub(dom=obs[k], cod=obs[k + 1], idx=k) for k in range(n)]

            def arrow(d, c, bs, **kw):
                return ("arrow", d, c, len(bs))
            for i in range(-5, 6):
                halves = []
                for sl in (slice(None, i), slice(i, None)):
                    env = {self_: Stub(dom=obs[0], cod=obs[n], boxes=boxes, upgrade=lambda x: x), key: sl, "isinstance": isinstance, "slice": slice, "len": lambda x: n if isinstance(x, Stub) else len(x),
                           "Arrow": arrow, "Id": lambda o: ("arrow", o, o, 0), "max": max, "min": min}
                    try:
                        r = run(fn.body, env)
                    except Raised as e:
                        r = ("raised", str(e))
                    except (IndexError, TypeError, AttributeError, ValueError) as e:
                        r = ("raised", type(e).__name__)
                    halves.append(r[1] if r and r[0] == "ret" else r)
                cases += 1
                a, b = halves
                want = "(o0 -> x, k boxes), (x -> o%d, %d - k boxes)" % (n, n)
                ok = isinstance(a, tuple) and isinstance(b, tuple) and a[0] == b[0] == "arrow" and a[1] == obs[0] and a[2] == b[1] and b[2] == obs[n] and a[3] + b[3] == n \
                    and a[3] == len(boxes[:i]) and (a[3] == 0 or a[2] == boxes[:i][-1].cod)
                if not ok:
                    bad.append("%d boxes, i = %d: arrow[:i] = %s, arrow[i:] = %s" % (n, i, a, b))
    except CannotFold as e:
        raise AnalysisError("cat.Arrow.__getitem__ cannot be folded: %s" % e)
    ctx.ob("R02.5", CAT + ".Arrow.__getitem__:halves", not bad, found=bad[:3] or "%d pairs of halves compose back (arrows of 0 to 3 boxes, depths -5 .. 5)" % cases,
           required="arrow[:i] ends where arrow[i:] starts, the first starts at dom, the second ends at cod, together they have all the boxes (empty halves are identities on the right object)",
           mod=CAT, node=fn, sig="halves")


def check(ctx):
    ctx.rule("R02.5", "slicing at any depth gives two halves that compose back: empty halves are the identity on the object at that depth (bounded fold of cat.Arrow.__getitem__)")
    ctx.rule("R02.1", "summaries of then / tensor / dagger / slicing / id extracted from source equal the free strict-monoidal algebra on (dom, cod, boxes, offsets)")
    ctx.rule("R02.3", "sums: term-wise then/tensor/dagger with self outermost, promotion of non-sums, typed empty unit, concatenating +")
    ctx.rule("R02.4", "dagger per box class: the rebuild binds, swaps dom/cod and is involutive (abstract construction of generic instances)")
    ctx.attempt(check_summaries, ctx)
    ctx.attempt(check_sums, ctx)
    n = check_daggers(ctx)
    ctx.floor("R02.1", 20)
    ctx.floor("R02.3", 16)
    ctx.floor("R02.4", 35)
    ctx.notes += getattr(ctx, "derived", [])
    ctx.not_decided += ["laws are derived from the summaries by list algebra (R02.2), not re-executed"]
    ctx.assumptions += ["constructor parameters documented as `int or type` are types when they are not ints"]


EXTRA = {"derived_laws_R02.2": [
    "(a >> b) >> c == a >> (b >> c); id(a.dom) >> a == a == a >> id(a.cod)",
    "(a @ b) @ c == a @ (b @ c); id() @ a == a == a @ id()",
    "a @ b == a @ id(b.dom) >> id(a.cod) @ b",
    "(a >> b)[::-1] == b[::-1] >> a[::-1]; a[::-1][::-1] == a; id(x)[::-1] == id(x)",
    "a[:k] >> a[k:] == a",
    "(s + t) >> u == s >> u + t >> u; (s + t) @ u == s @ u + t @ u; (s + t)[::-1] == s[::-1] + t[::-1]; s + 0 == s"]}
