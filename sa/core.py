"""Runner core: obligations, verdicts, evidence, known findings.

Exit codes (DESIGN §1): 0 every obligation discharged (KNOWN-FINDING lines allowed),
1 at least one VIOLATION not listed in known_findings.json, 2 ANALYSIS-ERROR.
"""
import ast
import hashlib
import json
import os
import time

VERIF = os.path.dirname(os.path.dirname(os.path.abspath(__file__)))


class AnalysisError(Exception):
    """The analysis cannot give a verdict (anchor vanished, idiom outside the recognised set, floor not met)."""


def norm_dump(node):
    """position-free normal form of a syntax node (used for digests, never for deciding)."""
    if isinstance(node, (list, tuple)):
        return "[" + ",".join(norm_dump(n) for n in node) + "]"
    if isinstance(node, ast.AST):
        return ast.dump(node, annotate_fields=False, include_attributes=False)
    return repr(node)


def digest(*parts):
    h = hashlib.sha256()
    for p in parts:
        h.update((p if isinstance(p, str) else norm_dump(p)).encode())
        h.update(b"\0")
    return h.hexdigest()[:12]


class Ob:
    """One obligation: a rule applied to one construct."""
    __slots__ = ("rule", "construct", "ok", "found", "required", "where", "sig", "note", "trivial")

    def __init__(self, rule, construct, ok, found, required, where, sig, note, trivial):
        self.rule, self.construct, self.ok = rule, construct, bool(ok)
        self.found, self.required, self.where = found, required, where
        self.sig, self.note, self.trivial = sig, note, trivial

    def key(self):
        return "%s|%s|%s" % (self.rule, self.construct, self.sig)

    def as_dict(self):
        d = {"rule": self.rule, "construct": self.construct, "ok": self.ok, "where": self.where}
        if self.found is not None:
            d["found"] = str(self.found)[:400]
        if self.required is not None:
            d["required"] = str(self.required)[:400]
        if self.note:
            d["note"] = self.note[:400]
        if self.sig:
            d["sig"] = self.sig
        return d


class Ctx:
    def __init__(self, prop, model, tier="quick", seed=0):
        self.prop, self.model, self.tier, self.seed = prop, model, tier, seed
        self.obs = []
        self.functions = set()
        self.notes = []
        self.rules = {}          # rule id -> one-line statement of the rule
        self.not_decided = []
        self.assumptions = []
        self.floor_failures = []
        self.broken = None       # AnalysisError met after some obligations were already decided

    # -- registering ------------------------------------------------------
    def rule(self, rid, text):
        self.rules[rid] = text

    def analysed(self, *qualnames):
        self.functions.update(qualnames)

    def where(self, mod=None, node=None, path=None):
        if path is None and mod is not None:
            path = self.model.path_of(mod)
        line = getattr(node, "lineno", None)
        if path is None:
            return "?"
        p = os.path.relpath(path, os.path.dirname(self.model.root))
        return "%s:%s" % (p, line if line is not None else "?")

    def ob(self, rule, construct, ok, found=None, required=None, mod=None, node=None, sig=None, note="", trivial=False,
           where=None):
        """record an obligation.  `sig` identifies *what* failed in normalised words (no line numbers)."""
        if where is None:
            where = self.where(mod, node)
        if sig is None:
            sig = digest(str(found), str(required)) if not ok else ""
        o = Ob(rule, construct, ok, found, required, where, sig, note, trivial)
        self.obs.append(o)
        return bool(ok)

    def floor(self, rule, minimum):
        n = sum(1 for o in self.obs if o.rule == rule or o.rule.startswith(rule + "."))
        if n < minimum:
            self.floor_failures.append("rule %s matched %d instances, confirmed floor is %d (a rule may not pass vacuously)"
                                       % (rule, n, minimum))
        return n

    def attempt(self, fn, *args, **kw):
        """run one group of rules; if it cannot be decided (AnalysisError / vanished anchor) remember why and go on with the other groups: a violation
        another group can still establish must not be lost behind an analysis error (violations take precedence)"""
        from .model import AnchorError
        try:
            return fn(*args, **kw)
        except (AnalysisError, AnchorError) as e:
            if self.broken is None:
                self.broken = str(e)
            return None

    def need(self, cond, msg):
        if not cond:
            raise AnalysisError(msg)

    def depend(self, rule, prop, what, rules=None, mod=None, node=None, constructs=None):
        """an obligation of this property that is decided by (some rules of) another property's check: run it on the same model and
        require those obligations discharged.  Known findings of the other property stay its own (they are not violations there)."""
        import importlib
        cache = self.__dict__.setdefault("_dep_cache", {})
        if prop not in cache:
            dep = importlib.import_module("sa.rules." + prop.lower())
            sub = Ctx(prop, self.model, self.tier)
            try:
                dep.check(sub)
            except AnalysisError as e:
                sub._dep_error = str(e)
            cache[prop] = sub
        sub = cache[prop]
        known = [k for k in load_known() if k.get("status") == "known" and k["property"] == prop]
        sel = [o for o in sub.obs if (rules is None or o.rule in rules) and (constructs is None or any(c in o.construct for c in constructs))]
        bad = [o for o in sel if not o.ok and is_known(o, known) is None]
        err = getattr(sub, "_dep_error", None) or sub.broken or (sub.floor_failures[0] if sub.floor_failures else None)
        if err and not bad:
            raise AnalysisError("dependency %s of %s could not be analysed: %s" % (prop, self.prop, err))
        if not sel:
            raise AnalysisError("dependency %s %s of %s selected no obligation" % (prop, rules or "", self.prop))
        self.ob(rule, "%s:dependency%s" % (prop, ("[" + ",".join(sorted(rules)) + "]") if rules else ""), not bad, found=["%s %s: %s" % (o.rule, o.construct, str(o.found)[:100]) for o in bad][:3] or
                "%d obligations of %s discharged" % (len(sel), prop), required=what, mod=mod, node=node, sig="dep-%s:%s" % (prop, ",".join(sorted({o.rule for o in bad}))))
        return sub


def load_known():
    p = os.path.join(VERIF, "known_findings.json")
    if not os.path.exists(p):
        return []
    return json.load(open(p))["findings"]


def is_known(o, entries):
    """a failing obligation is a listed finding when rule, construct and signature agree AND what was found is what the entry recorded
    (`found_digest`): another defect at the same construct is a new violation, not the known one"""
    for k in entries:
        if k["key"] == o.key() and ("found_digest" not in k or k["found_digest"] == digest(str(o.found))):
            return k
    return None


def finish(ctx, t0, level="other", explanation="", trusted=None, extra=None, out_dir=None):
    """print the report, write evidence and replay files, return the exit code"""
    known = [k for k in load_known() if k["property"] == ctx.prop and k.get("status") == "known"]
    known_keys = {}
    bad = [o for o in ctx.obs if not o.ok]
    new, seen_known = [], []
    for o in bad:
        k = is_known(o, known)
        if k is not None:
            known_keys[o.key()] = k
            seen_known.append(o)
        else:
            new.append(o)
    out_dir = out_dir or VERIF
    rdir = os.path.join(out_dir, "replay", ctx.prop)
    for o in seen_known:
        print("KNOWN-FINDING: property=%s %s %s at %s: %s" % (ctx.prop, o.rule, o.construct, o.where,
                                                             known_keys[o.key()].get("what", o.note)))
    if new:
        os.makedirs(rdir, exist_ok=True)
    for o in new:
        path = os.path.join(rdir, "%s.json" % digest(o.key()))
        with open(path, "w") as f:
            json.dump({"property": ctx.prop, "key": o.key(), **o.as_dict(),
                       "rule_text": ctx.rules.get(o.rule, "")}, f, indent=1)
        print("  %s %s at %s" % (o.rule, o.construct, o.where))
        print("      rule     : %s" % ctx.rules.get(o.rule, ""))
        if o.found is not None:
            print("      found    : %s" % (str(o.found)[:600],))
        if o.required is not None:
            print("      required : %s" % (str(o.required)[:600],))
        if o.note:
            print("      note     : %s" % o.note[:600])
        print("VIOLATION property=%s replay=%s" % (ctx.prop, path))
    nontriv = {o.key() + "|" + o.where for o in ctx.obs if not o.trivial}
    samples = [o.as_dict() for o in ctx.obs[:3]] + [o.as_dict() for o in ctx.obs if not o.ok][:5]
    per_rule = {}
    for o in ctx.obs:
        r = per_rule.setdefault(o.rule, [0, 0])
        r[0] += 1
        r[1] += o.ok
    cov = {
        "explanation": explanation,
        "obligations": len(ctx.obs),
        "discharged": sum(o.ok for o in ctx.obs),
        "known_findings_reported": len(seen_known),
        "evaluations": len(ctx.obs),
        "distinct_nontrivial": len(nontriv),
        "rule": "one evaluation = one rule instance (rule x construct) decided from the syntax tree of /repo; "
                "non-trivial = deciding it needed resolution, normalisation or abstract evaluation beyond presence of the anchor; "
                "distinct = different (rule, construct, location)",
        "rule_instances": {r: {"instances": v[0], "discharged": v[1]} for r, v in sorted(per_rule.items())},
        "rules": ctx.rules,
        "functions_analysed": sorted(ctx.functions),
        "samples": samples,
        "not_decided": ctx.not_decided,
        "files_sha256": {os.path.relpath(p, os.path.dirname(ctx.model.root)): h for p, h in sorted(ctx.model.sha.items())},
        "discopy_imported": False,
        "locals_renamed_back": list(getattr(ctx.model, "alpha_applied", []))[:50],
        "normalisations_applied": {k: (len(v) if isinstance(v, list) else v) for k, v in (
            ("noise_statements_removed", getattr(ctx.model, "noise_removed", 0)), ("explaining_variables_inlined", getattr(ctx.model, "temps_inlined", [])),
            ("comparisons_turned_back", getattr(ctx.model, "comparisons_turned", 0)), ("conditional_assignments_merged", getattr(ctx.model, "conditionals_merged", 0)),
            ("index_loops_restored", getattr(ctx.model, "loops_restored", 0)), ("fstrings_rewritten", getattr(ctx.model, "fstrings", 0)),
            ("extracted_helpers_inlined", getattr(ctx.model, "helpers_inlined", [])), ("nested_functions_put_back", getattr(ctx.model, "renested", [])),
            ("hoisted_locals_inlined", getattr(ctx.model, "hoisted_inlined", [])), ("one_armed_conditionals_merged", getattr(ctx.model, "one_armed_merged", 0)),
            ("decision_action_splits_fused", getattr(ctx.model, "flags_fused", 0)), ("parameter_rebindings_inlined", getattr(ctx.model, "param_rebinds_inlined", [])))},
        "checker_cmd": "/venv/bin/python -m sa.check %s --tier %s" % (ctx.prop, ctx.tier),
        "trusted_base": trusted or ["CPython ast module", "the transfer functions of sa/ (Python slice/list semantics, numpy axis semantics)",
                                    "mathematical facts cited in DESIGN.md §9"],
        "exhaustive": True,
    }
    if extra:
        cov.update(extra)
    ev = {"property_id": ctx.prop, "tier": ctx.tier, "seed": ctx.seed, "level": level, "coverage": cov,
          "assumptions": ctx.assumptions, "wall_s": round(time.time() - t0, 3), "violations": len(new)}
    os.makedirs(os.path.join(out_dir, "evidence"), exist_ok=True)
    with open(os.path.join(out_dir, "evidence", "%s.json" % ctx.prop), "w") as f:
        json.dump(ev, f, indent=1, default=str)
    print("%s: %d obligations, %d discharged, %d known findings, %d violations; %d functions analysed; %.2fs"
          % (ctx.prop, len(ctx.obs), cov["discharged"], len(seen_known), len(new), len(ctx.functions), ev["wall_s"]))
    for r, v in sorted(per_rule.items()):
        print("   %-8s %3d/%-3d %s" % (r, v[1], v[0], ctx.rules.get(r, "")[:110]))
    if new:
        for m in ([ctx.broken] if ctx.broken else []) + ctx.floor_failures:
            print("note: analysis incomplete: %s" % m)
        return 1
    if ctx.broken or ctx.floor_failures:
        for m in ([ctx.broken] if ctx.broken else []) + ctx.floor_failures:
            print("ANALYSIS-ERROR property=%s %s" % (ctx.prop, m))
        return 2
    return 0
