"""Source of MANIFEST.json (tools/mkmanifest.py).  pid -> (technique, level text, level note, design ref)"""
TB = ("Trusted: CPython's ast module; the transfer functions of sa/ (Python slice/list semantics); the generic-instance "
      "argument (analysed code is parametric in type contents); cited theorems (DESIGN §9). discopy is never imported or run.")
CHECKS = {
    "C05": ("abstract evaluation of rewriting.interchange on generic instances (words over type atoms, linear offsets) + predicate normal forms + CFG dominance",
            "Decides, for all inputs, the structural clauses of C05 from the syntax tree of rewriting.interchange: branch predicates equal "
            "the interval-disjointness spec, else raises InterchangerError, exchanged layers/offsets/boxes equal the spec on the generic "
            "instance of each configuration and compose with prefix/suffix, index guard dominates indexing, long moves telescope. "
            "Functor-invariance of the result is the interchange law (cited, not re-proved).", TB, "DESIGN.md §4 C05"),
}
NOT_YET = "check not built yet in this round (static rules designed in DESIGN.md §4; will be claimed when the rule module lands)"
NOT_APPLICABLE = {("C%02d" % i): NOT_YET for i in range(1, 21) if ("C%02d" % i) not in CHECKS}
NOTES = ("All checks are static analyses of /repo/discopy's source (python -m sa.check <id>); exit 0 / 1 (VIOLATION) / 2 (ANALYSIS-ERROR). "
         "Known findings: /verif/known_findings.json. Checker validation corpus: python -m sa.selftest.")
