import sys; sys.path.insert(0, '/tmp/spike')
from sa import c10
def run(src_path, muts, fn):
    src = open(src_path).read()
    for name, (a, b) in muts.items():
        assert a in src, name
        open('/tmp/spike/m.py', 'w').write(src.replace(a, b, 1))
        msgs = []
        try: rc = fn('/tmp/spike/m.py', out=msgs.append)
        except Exception as e: rc = 'EXC %s: %s' % (type(e).__name__, e)
        print('%-40s rc=%s %s' % (name, rc, '; '.join(m for m in msgs if 'VIOLATION' in m or 'ANALYSIS' in m)[:220]))
run('/repo/discopy/monoidal.py', {
 'base offsets shifted': ("offsets = range(len(right))", "offsets = range(1, len(right) + 1)"),
 'base swaps right[i+1]': ("swap_factory(left, right[i: i + 1])", "swap_factory(left, right[i + 1: i + 2])"),
 'recursive order reversed': ("return ar_factory.id(left[:1]) @ ar_factory.swap(left[1:], right)\\\n            >> ar_factory.swap(left[:1], right) @ ar_factory.id(left[1:])", "return ar_factory.swap(left[:1], right) @ ar_factory.id(left[1:])\\\n            >> ar_factory.id(left[:1]) @ ar_factory.swap(left[1:], right)"),
 'cod args swapped': ("return ar_factory(left @ right, right @ left, boxes, offsets)", "return ar_factory(left @ right, left @ right, boxes, offsets)"),
 'empty left returns id(left)': ("return ar_factory.id(right)", "return ar_factory.id(left)"),
}, c10.check_swap)
run('/repo/discopy/monoidal.py', {
 'perm update keeps perm[j]': ("perm = perm[:i] + [i] + perm[i:j] + perm[j + 1:]", "perm = perm[:i] + [i] + perm[i:j] + perm[j:]"),
 'inverse convention j = perm[i]': ("j = perm.index(i)", "j = perm[i]"),
 'swap args exchanged': ("ar_factory.swap(diagram.cod[i:j], diagram.cod[j:j + 1])", "ar_factory.swap(diagram.cod[j:j + 1], diagram.cod[i:j])"),
 'id on cod[j:]': ("@ ar_factory.id(diagram.cod[j + 1:])", "@ ar_factory.id(diagram.cod[j:])"),
 'BENIGN temp cod': ("        for i in range(len(dom)):\n            j = perm.index(i)", "        for i in range(len(dom)):\n            j = perm.index(i)\n            wires = diagram.cod"),
}, c10.check_permutation)
