"""Print the markdown lists of fixed / known findings from known_findings.json for DESIGN.md."""
import json, os
VERIF = os.path.dirname(os.path.dirname(os.path.abspath(__file__)))
d = json.load(open(os.path.join(VERIF, "known_findings.json")))["findings"]
print("| prop | commit | rule / construct | what failed (failing input) |")
print("|------|--------|------------------|------------------------------|")
for f in d:
    if f["status"] == "fixed":
        rule, cons = f["key"].split("|")[:2]
        line = f["line"].split(" ", 3)[3] if f["line"].startswith("fixed:") else f["line"]
        print("| %s | `%s` | %s `%s` | %s |" % (f["property"], f["commit"], rule, cons.replace("discopy.", "").replace("|", "\\|"), line.replace("|", "\\|")))
print()
print("| prop | rule / construct | what fails | failing input / call site |")
print("|------|------------------|------------|---------------------------|")
for f in d:
    if f["status"] == "known":
        rule, cons = f["key"].split("|")[:2]
        print("| %s | %s `%s` | %s | %s |" % (f["property"], rule, cons.replace("discopy.", "").replace("|", "\\|"), f["what"].replace("|", "\\|"), f.get("input", "").replace("|", "\\|")))
