"""Prototype R13.2: register-arity effect typing of the to_tk handlers (len(qubits), len(bits) follow the box signature)."""
import ast, sys, itertools
from .lin import Lin, Facts
from .words import Seq, Seg, Item, Rep, MapSeg, Atom, Unlocatable
from .beval import Evaluator, Obj, Closure, Unsupported, Undecided
from .model import Model
from .c07 import inner

_fresh = itertools.count()


class Opaque:
    def __repr__(self):
        return "?"


class EvLen(Evaluator):
    """evaluates only what is needed for list lengths; everything else is opaque"""
    def ev(self, n, env):
        try:
            return super().ev(n, env)
        except (Unsupported, Undecided, Unlocatable, TypeError, KeyError) as e:
            if isinstance(e, Unlocatable) and getattr(self, "strict", False):
                raise
            return Lin.var("?%d" % next(_fresh))           # havoc: the result must not depend on it

    def getattr(self, v, attr, n=None):
        if isinstance(v, Seq) and attr == "count":
            return Closure(lambda kind: sum((p.length for p in v.parts if getattr(p.atom, "kind", None) == kind.f["wires"]), Lin.of(0)))
        return super().getattr(v, attr, n)


def kinded(name, kind, length=None):
    a = Atom(name, length)
    a.kind = kind
    return a


def box_signatures(n):
    """(label, isa, dom word, cod word, extra attrs)  -- from circuit.py / gates.py constructors (engine C provides these in the real rule)"""
    Q = lambda nm: Seq.atom(kinded(nm, "qubit", n)); B = lambda nm: Seq.atom(kinded(nm, "bit", n))
    E = Seq()
    out = [("Ket", ("Ket",), E, Q("k.cod"), {}), ("Bits", ("Bits",), E, B("b.cod"), {"is_dagger": False}),
           ("Bra", ("Bra",), Q("bra.dom"), E, {})]
    for destr in (True, False):
        for over in (True, False):
            dom = Q("m.q") + (B("m.b") if over else E)
            cod = (E if destr else Q("m.q2")) + B("m.b2")
            out.append(("Measure(destructive=%s, override_bits=%s)" % (destr, over), ("Measure",), dom, cod, {"destructive": destr, "override_bits": over}))
    out.append(("Discard(qubits)", ("Discard",), Q("d.dom"), E, {}))
    out.append(("Discard(bits)", ("Discard",), B("d.dom"), E, {}))
    return out


def count(word, kind):
    return sum((p.length for p in word.parts if getattr(p.atom, "kind", None) == kind), Lin.of(0))


def list_len(v):
    return v.length if isinstance(v, Seq) else None


def run_helper(ev, fn, args, env0):
    """execute a helper: straight-line statements; `for` loops are summarised by their effect on list-valued variables"""
    env = dict(env0)
    env.update(zip([a.arg for a in fn.args.args], args))
    return run_block(ev, fn.body, env)


def run_block(ev, body, env):
    for st in body:
        if isinstance(st, ast.For):
            tracked = [v for v, x in env.items() if isinstance(x, Seq) and v in ("bits", "qubits")]
            it = ev.ev(st.iter, env)
            n_iter = it.length if isinstance(it, Seq) else Lin.var("?%d" % next(_fresh))
            assigned = {t.id for s in ast.walk(st) if isinstance(s, ast.Assign) for t in s.targets if isinstance(t, ast.Name)}
            loop_vars = [v for v in tracked if v in assigned]
            for cands in itertools.product((0, 1, -1), repeat=len(loop_vars)):
                j = Lin.var("j")
                e2 = dict(env)
                befores = {}
                for v, cnd in zip(loop_vars, cands):
                    befores[v] = Atom("%s@j" % v, env[v].length + j * cnd)        # hypothesis: grows by cnd per iteration
                    e2[v] = Seq.atom(befores[v])
                if isinstance(st.target, ast.Tuple):
                    ev.bind(st.target, (j, Opaque()), e2)
                else:
                    ev.bind(st.target, j, e2)
                saved = ev.facts
                ev.facts = ev.facts.extend(j, n_iter - j - 1)
                try:
                    run_block(ev, st.body, e2)
                    ok = all(isinstance(e2[v], Seq) and ev.facts.eq(e2[v].length - befores[v].length, c) for v, c in zip(loop_vars, cands))
                except (Unsupported, Undecided, Unlocatable):
                    ok = False
                finally:
                    ev.facts = saved
                if ok:
                    for v, cnd in zip(loop_vars, cands):
                        env[v] = Seq.atom(Atom("%s'" % v, env[v].length + n_iter * cnd))
                    break
            else:
                if loop_vars:
                    raise Unsupported("cannot summarise the effect of the loop at line %d on %s" % (st.lineno, loop_vars))
            continue
        if isinstance(st, ast.If):
            t = ev.ev(st.test, env)
            try:
                branch = st.body if ev.truth(t, st.test) else st.orelse
            except Undecided:
                raise Unsupported("undecided handler test %s" % ast.unparse(st.test))
            r = run_block(ev, branch, env)
            if r is not None:
                return r
            continue
        if isinstance(st, ast.Return):
            return ("return", ev.ev(st.value, env))
        if isinstance(st, ast.Assign):
            v = ev.ev(st.value, env)
            for t in st.targets:
                try:
                    ev.bind(t, v, env)
                except Unsupported:
                    pass
            continue
    return None


def check(out=print, root="/repo/discopy"):
    M = Model(root)
    top = M.func("discopy.quantum.tk.to_tk")
    helpers = {h: inner(top, h) for h in ("prepare_qubits", "prepare_bits", "measure_qubits")}
    loop = next(s for s in top.body if isinstance(s, ast.For) and "layers" in ast.unparse(s.iter))
    fails, oks = [], []
    n = Lin.var("n")
    for label, isa, dom, cod, attrs in box_signatures(n):
        LQ, LB = kinded("LQ", "qubit"), kinded("LB", "bit")
        left = Seq([Seg(LQ), Seg(LB)])
        rq, rb = Lin.var("rq"), Lin.var("rb")
        nq0, nb0 = LQ.length + count(dom, "qubit") + rq, LB.length + count(dom, "bit") + rb
        QL, BL = Atom("qubits", nq0), Atom("bits", nb0)
        facts = Facts([n - 1])
        ev = EvLen(facts, "to_tk[%s]" % label)
        qubit, bit = Obj("kindtag", wires="qubit"), Obj("kindtag", wires="bit")
        box = Obj("Box", dom=dom, cod=cod, isa=isa, bitstring=Seq.atom(Atom("bitstring", n)), **attrs)
        env = {"left": left, "box": box, "_": Opaque(), "qubits": Seq.atom(QL), "bits": Seq.atom(BL), "qubit": qubit, "bit": bit,
               "tk_circ": Opaque(), "Qubit": Closure(lambda *a: Opaque()), "Bit": Closure(lambda *a: Opaque())}
        for nm in ("Ket", "Bits", "Measure", "Bra", "Discard", "Swap", "Scalar", "ClassicalGate", "QuantumGate"):
            env[nm] = Obj("cls", name=nm)
        ev.builtins["isinstance"] = lambda v, c: any(getattr(k, "f", {}).get("name") in v.f.get("isa", ()) for k in (c if isinstance(c, tuple) else (c,))) if isinstance(v, Obj) else False
        ev.builtins["enumerate"] = lambda s: Seq.atom(Atom("enumerate", s.length)) if isinstance(s, Seq) else (_ for _ in ()).throw(Unsupported("enumerate of %r" % (s,)))
        for hname, hfn in helpers.items():
            env[hname] = Closure(lambda *args, hfn=hfn: (lambda r: r[1] if r else None)(run_helper(ev, hfn, args, env)))
        try:
            # the layer-loop's if/elif chain for this box
            chain = [s for s in loop.body if isinstance(s, ast.If)][0]
            cur, taken = chain, None
            while True:
                if ev.truth(ev.ev(cur.test, env), cur.test):
                    taken = cur.body; break
                if len(cur.orelse) == 1 and isinstance(cur.orelse[0], ast.If):
                    cur = cur.orelse[0]
                else:
                    taken = cur.orelse; break
            e2 = dict(env)
            run_block(ev, taken, e2)
            dq, db = e2["qubits"].length - nq0, e2["bits"].length - nb0
            wq, wb = count(cod, "qubit") - count(dom, "qubit"), count(cod, "bit") - count(dom, "bit")
            bad = []
            if not ev.facts.eq(dq, wq):
                bad.append("len(qubits) changes by %r, box signature by %r" % (dq, wq))
            if isa[0] != "Bra" and not ev.facts.eq(db, wb):
                bad.append("len(bits) changes by %r, box signature by %r" % (db, wb))
            if bad:
                fails.append("R13.2 handler for %s: %s" % (label, "; ".join(bad)))
            else:
                oks.append(label)
        except (Unsupported, Undecided, Unlocatable) as e:
            fails.append("R13.2 handler for %s: %s: %s" % (label, type(e).__name__, e))
    for f in fails:
        out("VIOLATION-CANDIDATE " + f)
    out("  R13.2: arity preserved by the handlers of %s" % oks)
    return 1 if fails else 0


if __name__ == "__main__":
    sys.exit(check())
