"""Spike: word algebra + linear forms, evaluate rewriting.interchange branches on a generic instance."""
import ast, sys
from fractions import Fraction

class Lin:
    def __init__(self, terms=None, c=0):
        self.t = {k: v for k, v in (terms or {}).items() if v != 0}; self.c = c
    @staticmethod
    def of(x):
        return x if isinstance(x, Lin) else Lin({}, x)
    @staticmethod
    def var(n): return Lin({n: 1})
    def __add__(s, o):
        o = Lin.of(o); t = dict(s.t)
        for k, v in o.t.items(): t[k] = t.get(k, 0) + v
        return Lin(t, s.c + o.c)
    __radd__ = __add__
    def __neg__(s): return Lin({k: -v for k, v in s.t.items()}, -s.c)
    def __sub__(s, o): return s + (-Lin.of(o))
    def __rsub__(s, o): return Lin.of(o) - s
    def key(s): return (tuple(sorted(s.t.items())), s.c)
    def __eq__(s, o): return isinstance(o, (Lin, int)) and s.key() == Lin.of(o).key()
    def __hash__(s): return hash(s.key())
    def is_const(s): return not s.t
    def nonneg(s, facts=()):
        # all vars are lengths >= 0 : nonneg if all coeffs >=0 and c>=0 ; or minus a fact
        if all(v >= 0 for v in s.t.values()) and s.c >= 0: return True
        for f in facts:
            d = s - f
            if all(v >= 0 for v in d.t.values()) and d.c >= 0: return True
        return False
    def __repr__(s):
        parts = [("%s" % k if v == 1 else "%s*%s" % (v, k)) for k, v in sorted(s.t.items())]
        if s.c or not parts: parts.append(str(s.c))
        return " + ".join(parts)

class Atom:
    def __init__(self, name): self.name = name; self.len = Lin.var("|%s|" % name)
    def __repr__(self): return self.name

class Word:
    """concatenation of atoms (generic free-monoid word)"""
    def __init__(self, atoms=()): self.atoms = tuple(atoms)
    def __matmul__(s, o): return Word(s.atoms + o.atoms)
    def length(s):
        r = Lin()
        for a in s.atoms: r = r + a.len
        return r
    def slice(s, lo, hi, facts=()):
        # lo/hi Lin or None, must align with atom boundaries
        lo = Lin.of(0) if lo is None else Lin.of(lo); hi = s.length() if hi is None else Lin.of(hi)
        pos = Lin(); start = end = None
        bounds = [pos]
        for a in s.atoms:
            pos = pos + a.len; bounds.append(pos)
        for i, b in enumerate(bounds):
            if start is None and b == lo: start = i
            if b == hi: end = i   # last match for hi? take first >= start
        # choose end as first index >= start with bound == hi
        if start is not None:
            end = next((i for i in range(start, len(bounds)) if bounds[i] == hi), None)
        if start is None or end is None:
            raise ValueError("slice bounds %r:%r do not align with %r" % (lo, hi, s))
        return Word(s.atoms[start:end])
    def __eq__(s, o): return isinstance(o, Word) and s.atoms == o.atoms
    def __repr__(s): return " ".join(map(repr, s.atoms)) or "e"

class BoxV:
    def __init__(self, name, dom, cod): self.name, self.dom, self.cod = name, dom, cod
    def __repr__(self): return self.name
class LayerV:
    def __init__(self, left, box, right): self.left, self.box, self.right = left, box, right
    @property
    def dom(self): return self.left @ self.box.dom @ self.right
    @property
    def cod(self): return self.left @ self.box.cod @ self.right
    def __iter__(self): return iter((self.left, self.box, self.right))
    def __repr__(self): return "Layer(%r | %r | %r)" % (self.left, self.box, self.right)

class Ev(ast.NodeVisitor):
    def __init__(self, env, facts): self.env, self.facts = env, facts
    def ev(self, n): return self.visit(n)
    def visit_Name(self, n): return self.env[n.id]
    def visit_Constant(self, n): return n.value
    def visit_Attribute(self, n):
        return getattr(self.ev(n.value), n.attr)
    def visit_BinOp(self, n):
        l, r = self.ev(n.left), self.ev(n.right)
        if isinstance(n.op, ast.MatMult): return l @ r
        if isinstance(n.op, ast.Add): return Lin.of(l) + r if isinstance(l, (Lin, int)) else l + r
        if isinstance(n.op, ast.Sub): return Lin.of(l) - r
        raise NotImplementedError(ast.dump(n))
    def visit_Call(self, n):
        f = n.func
        if isinstance(f, ast.Name) and f.id == "len":
            v = self.ev(n.args[0]); return v.length()
        if isinstance(f, ast.Name) and f.id == "Layer":
            return LayerV(*[self.ev(a) for a in n.args])
        raise NotImplementedError(ast.dump(n))
    def visit_Subscript(self, n):
        v = self.ev(n.value); s = n.slice
        if isinstance(s, ast.Slice):
            lo = self.ev(s.lower) if s.lower else None; hi = self.ev(s.upper) if s.upper else None
            return v.slice(lo, hi, self.facts)
        raise NotImplementedError
    def cond(self, n):
        """return Lin L such that cond  <=>  L >= 0 (only for a >= b)"""
        assert isinstance(n, ast.Compare) and len(n.ops) == 1
        a, b = Lin.of(self.ev(n.left)), Lin.of(self.ev(n.comparators[0]))
        if isinstance(n.ops[0], ast.GtE): return a - b
        if isinstance(n.ops[0], ast.LtE): return b - a
        raise NotImplementedError

def find_branches(fn):
    """locate the if/elif chain whose else raises InterchangerError"""
    for node in ast.walk(fn):
        if isinstance(node, ast.If):
            chain, cur = [], node
            while True:
                chain.append((cur.test, cur.body))
                if len(cur.orelse) == 1 and isinstance(cur.orelse[0], ast.If): cur = cur.orelse[0]
                else: break
            if cur.orelse and isinstance(cur.orelse[0], ast.Raise) and "InterchangerError" in ast.dump(cur.orelse[0]):
                return chain
    raise SystemExit("anchor not found")

src = open("/repo/discopy/rewriting.py").read()
mod = ast.parse(src)
fn = next(n for n in mod.body if isinstance(n, ast.FunctionDef) and n.name == "interchange")
chain = find_branches(fn)

def generic(case):
    P, M, B = Atom("P"), Atom("M"), Atom("B")
    d0, c0, d1, c1 = Atom("dom0"), Atom("cod0"), Atom("dom1"), Atom("cod1")
    b0 = BoxV("box0", Word([d0]), Word([c0])); b1 = BoxV("box1", Word([d1]), Word([c1]))
    if case == "R":   # box0 right of box1 : left0 = P dom1 M ; left1 = P ; right1 = M cod0 B ; right0 = B
        left0, right0 = Word([P, d1, M]), Word([B]); left1, right1 = Word([P]), Word([M, c0, B])
        expect1 = LayerV(Word([P]), b1, Word([M, d0, B]))           # box1 first, on old top row
        expect0 = LayerV(Word([P, c1, M]), b0, Word([B]))
    else:            # box0 left of box1 : left1 = P cod0 M ; left0 = P ; right0 = M dom1 B ; right1 = B
        left0, right0 = Word([P]), Word([M, d1, B]); left1, right1 = Word([P, c0, M]), Word([B])
        expect1 = LayerV(Word([P, d0, M]), b1, Word([B]))
        expect0 = LayerV(Word([P]), b0, Word([M, c1, B]))
    env = dict(left0=left0, box0=b0, right0=right0, left1=left1, box1=b1, right1=right1,
               off0=left0.length(), off1=left1.length(), left=True)
    assert LayerV(left0, b0, right0).cod == LayerV(left1, b1, right1).dom
    return env, expect1, expect0

for test, body in chain:
    # strip `left and` conjunct
    cmp = test.values[-1] if isinstance(test, ast.BoolOp) else test
    results = {}
    for case in "RL":
        env, e1, e0 = generic(case)
        ev = Ev(env, [])
        L = ev.cond(cmp)
        results[case] = L.nonneg()
    case = [c for c, ok in results.items() if ok]
    assert len(case) == 1, results
    case = case[0]
    env, e1, e0 = generic(case)
    ev = Ev(env, [ev.cond(cmp)])
    for st in body:
        assert isinstance(st, ast.Assign)
        val = ev.ev(st.value)
        tgt = st.targets[0].id
        env[tgt] = val
    ok1 = (env["layer1"].left, env["layer1"].right) == (e1.left, e1.right) and env["layer1"].box is e1.box
    ok0 = (env["layer0"].left, env["layer0"].right) == (e0.left, e0.right) and env["layer0"].box is e0.box
    offs_ok = env["off1"] == env["layer1"].left.length() and env["off0"] == env["layer0"].left.length()
    print("branch line", test.lineno, "case", case, "layer1", env["layer1"], "layer0", env["layer0"], "OK" if ok1 and ok0 and offs_ok else "MISMATCH", "| off1 =", env["off1"], "off0 =", env["off0"])
