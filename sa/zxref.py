"""Engine E, ZX part: a reference algebra for closed ZX terms (standard interpretation, phases in full turns) and a folder
that evaluates the constructor expressions of zx.gate2zx in it.  Nothing from discopy is executed."""
import ast
import math
import numpy as np


class T:
    """a linear map with m inputs and n outputs: matrix 2^n x 2^m, leftmost wire most significant"""
    def __init__(self, m, n, M):
        self.m, self.n = m, n
        self.M = np.array(M, dtype=complex).reshape(2 ** n, 2 ** m)

    def __matmul__(self, o):
        return T(self.m + o.m, self.n + o.n, np.kron(self.M, o.M))

    def __rshift__(self, o):
        if self.n != o.m:
            raise ArityError("composition of a term with %d outputs and a term with %d inputs" % (self.n, o.m))
        return T(self.m, o.n, o.M @ self.M)

    def tensor(self, *others):
        r = self
        for o in others:
            r = r @ o
        return r

    def then(self, *others):            # a.then(b, c) is a >> b >> c (monoidal.Diagram.then folds left)
        r = self
        for o in others:
            r = r >> o
        return r


class ArityError(Exception):
    pass


Hm = np.array([[1, 1], [1, -1]], dtype=complex) / math.sqrt(2)


def kronpow(A, k):
    R = np.eye(1, dtype=complex)
    for _ in range(k):
        R = np.kron(R, A)
    return R


def Z(m, n, phase=0):
    M = np.zeros((2 ** n, 2 ** m), dtype=complex)
    M[0, 0] += 1
    M[-1, -1] += np.exp(2j * np.pi * phase)
    return T(m, n, M)


def X(m, n, phase=0):
    z = Z(m, n, phase)
    return T(m, n, kronpow(Hm, n) @ z.M @ kronpow(Hm, m))


def Y(m, n, phase=0):
    raise NotImplementedError("Y spiders are not used by gate2zx")


def Id(n=0):
    return T(n, n, np.eye(2 ** n))


def scalar(c):
    return T(0, 0, [[c]])


H = T(1, 1, Hm)


class FoldZX(ast.NodeVisitor):
    def __init__(self, env):
        self.env = env

    def visit_Constant(self, n):
        return n.value

    def visit_Name(self, n):
        if n.id in self.env:
            return self.env[n.id]
        raise KeyError(n.id)

    def visit_Attribute(self, n):
        d = ast.unparse(n)
        if d in self.env:
            return self.env[d]
        return getattr(self.visit(n.value), n.attr)

    def visit_UnaryOp(self, n):
        v = self.visit(n.operand)
        if isinstance(n.op, ast.USub):
            return -v
        if isinstance(n.op, ast.Not):
            return not v
        raise KeyError(ast.unparse(n))

    def visit_BinOp(self, n):
        l, r = self.visit(n.left), self.visit(n.right)
        t = type(n.op)
        return {ast.Add: lambda: l + r, ast.Sub: lambda: l - r, ast.Mult: lambda: l * r, ast.Div: lambda: l / r, ast.Pow: lambda: l ** r,
                ast.MatMult: lambda: l @ r, ast.RShift: lambda: l >> r, ast.LShift: lambda: r >> l}[t]()

    def visit_Call(self, n):
        f = self.visit(n.func)
        args = []
        for a in n.args:
            if isinstance(a, ast.Starred):
                args += list(self.visit(a.value))
            else:
                args.append(self.visit(a))
        return f(*args, **{k.arg: self.visit(k.value) for k in n.keywords})

    def visit_Subscript(self, n):
        v = self.visit(n.value)
        if isinstance(n.slice, ast.Slice):
            lo, hi, st = (self.visit(x) if x is not None else None for x in (n.slice.lower, n.slice.upper, n.slice.step))
            return v[lo:hi:st]
        return v[self.visit(n.slice)]

    def visit_GeneratorExp(self, n):
        return self.visit_ListComp(n)

    def visit_ListComp(self, n):
        g, = n.generators
        return [FoldZX(dict(self.env, **{g.target.id: v})).visit(n.elt) for v in self.visit(g.iter)]

    def visit_IfExp(self, n):
        return self.visit(n.body) if self.visit(n.test) else self.visit(n.orelse)

    def visit_Tuple(self, n):
        return tuple(self.visit(e) for e in n.elts)

    def visit_Dict(self, n):
        return {ast.unparse(k): (lambda v=v: self.visit(v)) for k, v in zip(n.keys, n.values)}

    def generic_visit(self, n):
        raise KeyError("%s: %s" % (type(n).__name__, ast.unparse(n)[:60]))


class Diagram:
    """the unbound forms Diagram.tensor(first, *rest) / Diagram.id(n)"""
    @staticmethod
    def tensor(*xs):
        if not xs:
            raise ArityError("Diagram.tensor() of no diagrams: the unbound method needs a first operand")
        return xs[0].tensor(*xs[1:])

    id = staticmethod(Id)


BASE = dict(Z=Z, X=X, Y=Y, Id=Id, scalar=scalar, H=H, Had=lambda: H, pow=pow, len=len, pi=math.pi, Diagram=Diagram, reversed=lambda x: list(reversed(x)), list=list, tuple=tuple)
