"""C19 — cartesian diagrams compute the function they draw (rules R19.x) and wire counting shared with C01."""
import ast
from ..lin import Lin, Facts
from ..beval import Unsupported, Undecided

CART = "discopy.cartesian"


class T:
    """a cartesian diagram up to its wire counts (all wires have type 1, so PRO types are their lengths)"""
    def __init__(self, dom, cod):
        self.dom, self.cod = Lin.of(dom), Lin.of(cod)

    def __repr__(self):
        return "%r -> %r" % (self.dom, self.cod)


class CountEval:
    def __init__(self, ctx, mod, facts=None):
        self.ctx, self.m, self.mod = ctx, ctx.model, mod
        self.facts = facts or Facts()
        self.problems = []

    def const_box(self, name):
        v = self.m.module_assigns.get(self.mod, {}).get(name)
        if isinstance(v, ast.Call) and self.m.resolve_class(self.mod, ast.unparse(v.func)) is self.m.cls(CART + ".Box") and len(v.args) >= 3:
            return T(self.ev(v.args[1], {}), self.ev(v.args[2], {}))
        return None

    def ev(self, n, env):
        if isinstance(n, ast.Constant) and isinstance(n.value, int):
            return Lin.of(n.value)
        if isinstance(n, ast.Name):
            if n.id in env:
                return env[n.id]
            b = self.const_box(n.id)
            if b is not None:
                return b
            raise Unsupported("name %s" % n.id)
        if isinstance(n, ast.BinOp):
            l, r = self.ev(n.left, env), self.ev(n.right, env)
            if isinstance(n.op, ast.MatMult):
                return T(l.dom + r.dom, l.cod + r.cod)
            if isinstance(n.op, ast.RShift):
                if not self.facts.eq(l.cod, r.dom):
                    self.problems.append("composition %s: %r wires meet %r wires" % (ast.unparse(n), l.cod, r.dom))
                return T(l.dom, r.cod)
            if isinstance(l, tuple) or isinstance(r, tuple):
                raise Unsupported(ast.unparse(n))
            if isinstance(n.op, ast.Mult) and isinstance(r, list):
                return ("rep", l, r[0])
            if isinstance(n.op, ast.Mult) and isinstance(l, list):
                return ("rep", r, l[0])
            if isinstance(n.op, ast.Add):
                return l + r
            if isinstance(n.op, ast.Sub):
                return l - r
            if isinstance(n.op, ast.Mult):
                return l * r
        if isinstance(n, ast.List) and len(n.elts) == 1:
            return [self.ev(n.elts[0], env)]
        if isinstance(n, ast.Call):
            f = ast.unparse(n.func)
            k = self.m.resolve_class(self.mod, f)
            if k is self.m.cls(CART + ".Id"):
                d = self.ev(n.args[0], env)
                return T(d, d)
            if isinstance(n.func, ast.Attribute) and n.func.attr == "tensor":
                acc = self.ev(n.func.value, env)
                for a in n.args:
                    if isinstance(a, ast.Starred):
                        v = self.ev(a.value, env)
                        if not (isinstance(v, tuple) and v[0] == "rep"):
                            raise Unsupported("starred %s" % ast.unparse(a))
                        _, cnt, b = v
                        if not self.facts.nonneg(cnt):
                            raise Undecided(a, cnt)
                        acc = T(acc.dom + b.dom * cnt, acc.cod + b.cod * cnt)
                    else:
                        b = self.ev(a, env)
                        acc = T(acc.dom + b.dom, acc.cod + b.cod)
                return acc
        raise Unsupported("expression %s" % ast.unparse(n))

    def run(self, body, env, stop):
        for st in body:
            if st is stop or st.lineno >= stop.lineno:
                break
            if isinstance(st, ast.Assign) and isinstance(st.targets[0], ast.Name):
                env[st.targets[0].id] = self.ev(st.value, env)
            elif isinstance(st, ast.For):
                self.loop(st, env)
            elif isinstance(st, ast.Expr) and isinstance(st.value, ast.Constant):
                continue
            else:
                raise Unsupported("statement %s" % ast.unparse(st)[:60])

    def loop(self, st, env):
        if not (isinstance(st.iter, ast.Call) and ast.unparse(st.iter.func) == "range" and isinstance(st.target, ast.Name)):
            raise Unsupported("loop %s" % ast.unparse(st.iter))
        a = [self.ev(x, env) for x in st.iter.args]
        lo, hi = (Lin.of(0), a[0]) if len(a) == 1 else (a[0], a[1])
        i = Lin.var("i@%d" % st.lineno)
        last = st.body[-1]
        if not (isinstance(last, ast.Assign) and isinstance(last.targets[0], ast.Name) and isinstance(last.value, ast.BinOp)
                and isinstance(last.value.left, ast.Name) and last.value.left.id == last.targets[0].id):
            raise Unsupported("loop body does not end with `acc = acc <op> E`")
        acc = last.targets[0].id
        saved = self.facts
        self.facts = self.facts.extend(i - lo, hi - i - 1)
        try:
            e2 = dict(env)
            e2[st.target.id] = i
            for s in st.body[:-1]:
                if not (isinstance(s, ast.Assign) and isinstance(s.targets[0], ast.Name)):
                    raise Unsupported("loop statement %s" % ast.unparse(s)[:60])
                e2[s.targets[0].id] = self.ev(s.value, e2)
            E = self.ev(last.value.right, e2)
            if any(v.startswith("i@") for v in (E.dom.vars() | E.cod.vars())):
                raise Unsupported("per-iteration type %r depends on the loop index" % E)
            cur = env[acc]
            if isinstance(last.value.op, ast.MatMult):          # T1 additive accumulation
                n = hi - lo
                if not saved.nonneg(n):
                    raise Undecided(st.iter, n)
                env[acc] = T(cur.dom + E.dom * n, cur.cod + E.cod * n)
            elif isinstance(last.value.op, ast.RShift):         # type-preserving fold of >>
                if not (self.facts.eq(E.dom, cur.cod) and self.facts.eq(E.cod, cur.cod)):
                    self.problems.append("loop line %d: step typed %r applied to %r wires (must preserve the row)" % (st.lineno, E, cur.cod))
                env[acc] = T(cur.dom, cur.cod)
            else:
                raise Unsupported("loop accumulation %s" % ast.unparse(last))
        finally:
            self.facts = saved


def pro_type_of(ctx, mod, fn, name, before):
    """(dom, cod) wire counts of local `name` just before statement containing `before` in constructor fn"""
    ev = CountEval(ctx, mod)
    env = {a.arg: Lin.var(a.arg) for a in fn.args.args[1:]}
    stop = next(s for s in fn.body if any(x is before for x in ast.walk(s)))
    ev.run(fn.body, env, stop)
    if ev.problems:
        raise Undecided(before)
    ctx.count_problems = ev.problems
    v = env.get(name)
    if not isinstance(v, T):
        raise Unsupported("%s is not a diagram value" % name)
    return (v.dom, v.cod)
