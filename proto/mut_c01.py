import sys; sys.path.insert(0, '/tmp/spike')
from sa import c01
src = open('/repo/discopy/monoidal.py').read()
muts = {
 'tensor: shift by len(self.dom)': ("offsets = self.offsets + [n + len(self.cod) for n in other.offsets]", "offsets = self.offsets + [n + len(self.dom) for n in other.offsets]"),
 'tensor: right without other.dom': ("layers = layers >> Layer(left, box, right @ other.dom)", "layers = layers >> Layer(left, box, right)"),
 'tensor: self.dom @ left': ("layers = layers >> Layer(self.cod @ left, box, right)", "layers = layers >> Layer(self.dom @ left, box, right)"),
 'tensor: cod = self.cod @ other.dom': ("dom, cod = self.dom @ other.dom, self.cod @ other.cod", "dom, cod = self.dom @ other.dom, self.cod @ other.dom"),
 'tensor: boxes reversed': ("boxes = self.boxes + other.boxes\n        offsets = self.offsets + [n", "boxes = other.boxes + self.boxes\n        offsets = self.offsets + [n"),
 'then: offsets reversed': ("self.offsets + other.offsets,", "other.offsets + self.offsets,"),
 'then: cod=self.cod': ("Diagram(self.dom, other.cod,", "Diagram(self.dom, self.cod,"),
 'then: layers=other.layers': ("layers=self.layers >> other.layers))", "layers=other.layers))"),
 'BENIGN tensor temps': ("dom, cod = self.dom @ other.dom, self.cod @ other.cod", "dom = self.dom @ other.dom\n        cod = self.cod @ other.cod"),
}
for name, (a, b) in muts.items():
    assert a in src, name
    open('/tmp/spike/m.py', 'w').write(src.replace(a, b, 1))
    msgs = []
    try: rc = c01.check('/tmp/spike/m.py', out=msgs.append)
    except Exception as e: rc = 'EXC %s: %s' % (type(e).__name__, e)
    v = [m for m in msgs if 'VIOLATION' in m or 'ANALYSIS' in m]
    print('%-36s rc=%s n=%d %s' % (name, rc, len(v), (v[0] if v else '')[:190]))
