"""Print the markdown table of seeded changes (from /verif/seeded/*/meta.json and the first lines of each patch) for DESIGN.md."""
import json, os, glob, re
VERIF = os.path.dirname(os.path.dirname(os.path.abspath(__file__)))
rows = []
for d in sorted(glob.glob(os.path.join(VERIF, "seeded", "*"))):
    if not os.path.isdir(d):
        continue
    m = json.load(open(os.path.join(d, "meta.json")))
    patch = open(os.path.join(d, "patch.diff")).read()
    files = sorted(set(re.findall(r"^\+\+\+ b/(\S+)", patch, re.M)))
    hunks = re.findall(r"^@@ .*?@@ ?(.*)$", patch, re.M)
    where = "; ".join("%s" % f.replace("discopy/", "") for f in files) + (" (" + ", ".join(sorted({h.strip().split("(")[0].replace("def ", "").replace("class ", "") for h in hunks if h.strip()}))[:60] + ")" if any(h.strip() for h in hunks) else "")
    caught = m.get("caught_by", [])
    rep = ""
    reps = m.get("reports", {})
    for p in ([m["property"]] if m["property"] in reps else list(reps)[:1]):
        if reps.get(p):
            rep = reps[p][0].split(" at ")[0]
    needs = (m.get("needs") or "").strip()
    needs = re.sub(r"\s+", " ", needs)[:150]
    rows.append((os.path.basename(d), where, needs, ", ".join(caught) or "—", rep))
print("| seed | file (function) | what it breaks / what is needed | caught by | first report |")
print("|------|-----------------|---------------------------------|-----------|--------------|")
for r in rows:
    print("| %s | %s | %s | %s | %s |" % tuple(x.replace("|", "\\|") for x in r))
