"""C17 — export to and import from pyzx graphs (R17.1–R17.7; engines A, B (symbolic rows), F, shape).  pyzx is never imported."""
import ast
from ..lin import Lin, Facts
from ..words import Seq, Seg, Atom, Unlocatable
from ..beval import Unsupported
from ..core import AnalysisError
from ..cfg import CFG
from .. import shape
from .c07 import inner
from .c13b import LinEv

EXPLANATION = (
    "zx.Diagram.to_pyzx and from_pyzx are analysed from source; pyzx itself is not analysed (its tensor semantics is the reference the property names). "
    "Decided: (R17.1) the conventions of writer and reader agree: phases are doubled on export and halved on import, Z <-> VertexType.Z and every other spider <-> X, "
    "a pending Hadamard <-> EdgeType.HADAMARD at every place an edge is written or read, scalars are multiplied into graph.scalar; (R17.2) the row of "
    "(vertex, flag) pairs of to_pyzx is spliced like the wires of the diagram: a spider consumes [offset, offset+|dom|) and leaves |cod| copies of itself with the flag "
    "cleared, a swap exchanges two entries, H toggles one flag, inputs and outputs are declared in wire order, every output edge carries the pending flag; (R17.3) graphs "
    "with undeclared or shared boundary vertices, vertices that are not Z / X spiders and boxes that are not ZX generators are refused; (R17.4) `move`: in both directions "
    "the bookkeeping of the row is the permutation the returned swaps realise and the moved wire keeps its own label; (R17.5) make_wires_adjacent gathers the sorted inputs "
    "right of the first one; (R17.6) each vertex becomes a spider with one leg per earlier / later neighbour placed at the gathered offset between identities, Hadamards on "
    "the legs whose edge is one; (R17.7) each output is routed from a leg that is not placed yet. Not decided: pyzx's own semantics, non-simple graphs, the scalar on import "
    "(graphs do not carry it back).")

ZX = "discopy.quantum.zx"


def flat_add(e):
    out = []

    def rec(x):
        if isinstance(x, ast.BinOp) and isinstance(x.op, ast.Add):
            rec(x.left)
            rec(x.right)
        else:
            out.append(x)
    rec(e)
    return out


def check_conventions(ctx, to, fr):
    # phases
    spider = next((c for c in ast.walk(to) if isinstance(c, ast.Call) and ast.unparse(c.func) == "graph.add_vertex" and any(k.arg == "phase" for k in c.keywords)), None)
    ctx.need(spider is not None, "to_pyzx adds no vertex with a phase")
    ph = next(k.value for k in spider.keywords if k.arg == "phase")
    expr = ph.body if isinstance(ph, ast.IfExp) else ph
    ev = LinEv()
    try:
        f = ev.ev(expr)
    except Unsupported as e:
        raise AnalysisError("to_pyzx: phase expression outside the recognised idioms: %s" % e)
    ctx.ob("R17.1", ZX + ".Diagram.to_pyzx:phase", f == Lin.var("box.phase") * 2, found="%r" % (f,), required="2 * phase (pyzx counts half turns, discopy full turns)", mod=ZX, node=spider, sig="export-phase")
    if isinstance(ph, ast.IfExp):
        ok = ast.unparse(ph.test) == "box.phase" and isinstance(ph.orelse, ast.Constant) and ph.orelse.value in (None, 0)
        ctx.ob("R17.1", ZX + ".Diagram.to_pyzx:phase-zero", ok, found=ast.unparse(ph), required="only a zero phase is left out", mod=ZX, node=spider, sig="export-phase-zero", trivial=True)
    ty = spider.args[0] if spider.args else None
    ok = isinstance(ty, ast.IfExp) and ast.unparse(ty.test) == "isinstance(box, Z)" and ast.unparse(ty.body) == "VertexType.Z" and ast.unparse(ty.orelse) == "VertexType.X"
    ctx.ob("R17.1", ZX + ".Diagram.to_pyzx:type", ok, found=ast.unparse(ty) if ty is not None else None, required="Z spiders are VertexType.Z, X spiders VertexType.X", mod=ZX, node=spider, sig="export-type")
    n2b = inner(ctx, fr, "node2box")
    ret = next((s for s in n2b.body if isinstance(s, ast.Return)), None)
    ctx.need(ret is not None and isinstance(ret.value, ast.Call) and len(ret.value.args) == 3, "node2box does not return a spider with three arguments")
    c = ret.value
    ok = isinstance(c.func, ast.IfExp) and shape.key(c.func.test) == shape.key(shape.parse("graph.type(node) == VertexType.Z")) and ast.unparse(c.func.body) == "Z" and ast.unparse(c.func.orelse) == "X"
    ctx.ob("R17.1", ZX + ".Diagram.from_pyzx.node2box:type", ok, found=ast.unparse(c.func), required="VertexType.Z vertices are Z spiders, VertexType.X vertices X spiders", mod=ZX, node=ret, sig="import-type")
    try:
        g = LinEv({"graph.phase(node)": Lin.var("p")})
        e = c.args[2]
        # graph.phase(node) * .5  /  graph.phase(node) / 2
        if isinstance(e, ast.BinOp) and ast.unparse(e.left) == "graph.phase(node)" and isinstance(e.right, ast.Constant):
            val = Lin.var("p") * Lin.of(e.right.value) if isinstance(e.op, ast.Mult) else Lin.var("p") / Lin.of(e.right.value) if isinstance(e.op, ast.Div) else None
        elif isinstance(e, ast.BinOp) and ast.unparse(e.right) == "graph.phase(node)" and isinstance(e.left, ast.Constant) and isinstance(e.op, ast.Mult):
            val = Lin.var("p") * Lin.of(e.left.value)
        elif ast.unparse(e) == "graph.phase(node)":
            val = Lin.var("p")
        else:
            val = None
    except TypeError:
        val = None
    if val is None:
        raise AnalysisError("node2box: phase expression `%s` outside the recognised idioms" % ast.unparse(c.args[2]))
    ctx.ob("R17.1", ZX + ".Diagram.from_pyzx.node2box:phase", val == Lin.var("p") / 2, found="%r" % (val,), required="phase / 2 (the inverse of the export)", mod=ZX, node=ret, sig="import-phase")
    ok = [ast.unparse(a) for a in c.args[:2]] == [a.arg for a in n2b.args.args[1:3]]
    ctx.ob("R17.1", ZX + ".Diagram.from_pyzx.node2box:legs", ok, found=[ast.unparse(a) for a in c.args[:2]], required="(legs in, legs out) in this order", mod=ZX, node=ret, sig="import-legs")
    g = [s for s in n2b.body if isinstance(s, ast.If) and isinstance(s.body[-1], ast.Raise)]
    ok = any(shape.key(s.test) == shape.key(shape.parse("graph.type(node) not in {VertexType.Z, VertexType.X}")) for s in g)
    ctx.ob("R17.3", ZX + ".Diagram.from_pyzx.node2box:refuses", ok, found=[ast.unparse(s.test) for s in g], required="vertices that are neither Z nor X spiders are refused", mod=ZX, node=n2b, sig="import-refuses")
    # Hadamard flag <-> EdgeType.HADAMARD
    n = 0
    for fn, q in ((to, "to_pyzx"), (fr, "from_pyzx")):
        for x in ast.walk(fn):
            if isinstance(x, ast.IfExp) and "HADAMARD" in ast.unparse(x):
                n += 1
                src = ast.unparse(x)
                if q == "to_pyzx":
                    ok = ast.unparse(x.test) == "hadamard" and ast.unparse(x.body) == "EdgeType.HADAMARD" and ast.unparse(x.orelse) == "EdgeType.SIMPLE"
                    req = "EdgeType.HADAMARD if the pending flag is set else EdgeType.SIMPLE"
                else:
                    t = x.test
                    ok = isinstance(t, ast.Compare) and isinstance(t.ops[0], ast.Eq) and "EdgeType.HADAMARD" in (ast.unparse(t.left), ast.unparse(t.comparators[0])) and ast.unparse(x.body) == "H" and ast.unparse(x.orelse) == "Id(1)"
                    req = "H if the edge is a Hadamard edge else Id(1)"
                ctx.ob("R17.1", "%s.Diagram.%s:hadamard@%d" % (ZX, q, n), ok, found=src, required=req, mod=ZX, node=x, sig="hadamard:%s:%s" % (q, src[:40]))
    ctx.ob("R17.1", ZX + ".Diagram:hadamard-sites", n >= 4, found="%d places translate between the pending flag / H and EdgeType.HADAMARD" % n, required="every place that writes an edge (spider legs, outputs) or reads one "
           "(gathered legs, outputs) translates Hadamard edges: 4 places", mod=ZX, node=to, sig="hadamard-sites")


def check_to_pyzx(ctx, to):
    """R17.2: the row `scan` of (vertex, flag) pairs follows the wires"""
    loops = [s for s in to.body if isinstance(s, ast.For)]
    lin = next((l for l in loops if ast.unparse(l.iter) == "enumerate(self.dom)"), None)
    lbx = next((l for l in loops if ast.unparse(l.iter).replace(" ", "") == "enumerate(zip(self.boxes,self.offsets))"), None)
    lout = next((l for l in loops if ast.unparse(l.iter) == "enumerate(self.cod)"), None)
    ctx.need(lin is not None and lbx is not None and lout is not None and to.body.index(lin) < to.body.index(lbx) < to.body.index(lout), "to_pyzx has not the three loops inputs / boxes / outputs in this order")
    shape.match_stmts(ctx, "R17.2", ZX + ".Diagram.to_pyzx:inputs", lin.body, ["node, hadamard = (graph.add_vertex(VertexType.BOUNDARY), False)", "scan.append((node, hadamard))", "graph.inputs.append(node)"],
                      mod=ZX, node=lin, sig="inputs", required="one boundary vertex per input wire, declared as input and put on the row (no pending Hadamard), in wire order")
    boxv, offv = (t.id for t in lbx.target.elts[1].elts)
    arms, cur = [], lbx.body[0]
    ctx.need(isinstance(cur, ast.If), "to_pyzx: the box loop is not a case distinction")
    while True:
        arms.append((cur.test, cur.body))
        if len(cur.orelse) == 1 and isinstance(cur.orelse[0], ast.If):
            cur = cur.orelse[0]
        else:
            arms.append((None, cur.orelse))
            break
    by = {}
    for t, body in arms:
        k = "else" if t is None else ast.unparse(t)
        # an arm is recognised by what it does; its test must then be the class test of that kind of box
        src_b = " ".join(ast.unparse(x) for x in body)
        kind = "Spider" if "graph.add_vertex" in src_b else "Swap" if "scan[%s + 1]" % offv in src_b and "graph" not in src_b else "Scalar" if "graph.scalar" in src_b else None
        if t is not None and kind is not None:
            want_t = "isinstance(%s, %s)" % (boxv, kind)
            ctx.ob("R17.2", ZX + ".Diagram.to_pyzx:%s-test" % kind.lower(), k == want_t, found=k, required="%s: the %s arm is taken for %s boxes and only for them (a spider without legs is not a scalar)" % (want_t, kind.lower(), kind),
                   mod=ZX, node=t, sig="arm-test-" + kind)
            k = want_t
        if t is not None and isinstance(t, ast.Compare) and len(t.ops) == 1 and {ast.unparse(t.left), ast.unparse(t.comparators[0])} == {boxv, "H"}:
            ctx.ob("R17.2", ZX + ".Diagram.to_pyzx:hadamard-test", isinstance(t.ops[0], ast.Eq), found=k, required="Hadamard boxes are recognised by equality (`box == H`): every Had() instance is one, not only the module's H",
                   mod=ZX, node=t, sig="hadamard-test")
            k = "%s == H" % boxv
        by[k] = body
    ctx.need({"isinstance(%s, Spider)" % boxv, "isinstance(%s, Swap)" % boxv, "isinstance(%s, Scalar)" % boxv, "%s == H" % boxv, "else"} <= set(by), "to_pyzx: expected arms Spider / Swap / Scalar / H / else, found %s" % sorted(by))
    order = [k for k in by]
    ctx.ob("R17.3", ZX + ".Diagram.to_pyzx:refuses", isinstance(by["else"][-1], ast.Raise) and "TypeError" in ast.unparse(by["else"][-1]), found=ast.unparse(by["else"][-1])[:60], required="boxes that are not ZX generators raise TypeError",
           mod=ZX, node=lbx, sig="export-refuses")
    S = Atom("scan")
    o, d = Lin.var("offset"), Lin.var("|dom|")
    row = Seq.atom(S)
    ev = LinEv({offv: o, "len(%s.dom)" % boxv: d, "len(%s.cod)" % boxv: Lin.var("|cod|")})

    def sl(e, facts):
        if not (isinstance(e, ast.Subscript) and isinstance(e.slice, ast.Slice) and ast.unparse(e.value) == "scan" and e.slice.step is None):
            raise Unsupported("`%s` is not a slice of scan" % ast.unparse(e))
        return row.slice(ev.ev(e.slice.lower) if e.slice.lower is not None else None, ev.ev(e.slice.upper) if e.slice.upper is not None else None, facts)
    # spider
    body = by["isinstance(%s, Spider)" % boxv]
    facts = Facts([o, d, S.length - o - d])
    probs = []
    asg = next((s for s in body if isinstance(s, ast.Assign) and ast.unparse(s.targets[0]) == "scan"), None)
    ctx.need(asg is not None, "to_pyzx: the spider arm does not update the row")
    parts = flat_add(asg.value)
    try:
        if len(parts) != 3:
            probs.append("the row is not prefix + new entries + suffix")
        else:
            if not sl(parts[0], facts).same(row.slice(None, o, facts), facts):
                probs.append("prefix `%s` is not scan[:offset]" % ast.unparse(parts[0]))
            if not sl(parts[2], facts).same(row.slice(o + d, None, facts), facts):
                probs.append("suffix `%s` is not scan[offset + |dom|:]" % ast.unparse(parts[2]))
            if shape.key(parts[1]) not in (shape.key(shape.parse("len(%s.cod) * [(node, False)]" % boxv)), shape.key(shape.parse("[(node, False)] * len(%s.cod)" % boxv))):
                probs.append("the new entries `%s` are not |cod| copies of (node, False)" % ast.unparse(parts[1]))
    except Unlocatable as e:
        probs.append(str(e))
    except Unsupported as e:
        raise AnalysisError("to_pyzx spider arm outside the recognised idioms: %s" % e)
    ctx.ob("R17.2", ZX + ".Diagram.to_pyzx:spider-row", not probs, found="; ".join(probs) or ast.unparse(asg.value), required="the legs consumed are [offset, offset + |dom|); every output leg starts at the new vertex with no pending Hadamard",
           mod=ZX, node=asg, sig="spider-row")
    lp = next((s for s in body if isinstance(s, ast.For)), None)
    ctx.need(lp is not None and ast.unparse(lp.iter) == "enumerate(%s.dom)" % boxv, "to_pyzx: the spider arm has no loop over the input legs")
    iv = lp.target.elts[0].id
    shape.match_stmts(ctx, "R17.2", ZX + ".Diagram.to_pyzx:spider-edges", lp.body, ["source, hadamard = scan[offset + i]", "etype = EdgeType.HADAMARD if hadamard else EdgeType.SIMPLE", "graph.add_edge((source, node), etype)"],
                      {offv: "offset", iv: "i"}, mod=ZX, node=lp, sig="spider-edges", required="one edge per input leg from the vertex at scan[offset + i], typed by its pending flag", exact=True)
    # swap
    body = by["isinstance(%s, Swap)" % boxv]
    asg = next((s for s in body if isinstance(s, ast.Assign) and ast.unparse(s.targets[0]) == "scan"), None)
    ctx.need(asg is not None, "to_pyzx: the swap arm does not update the row")
    parts = flat_add(asg.value)
    probs = []
    facts = Facts([o, S.length - o - 2])
    try:
        if len(parts) != 3:
            probs.append("the row is not prefix + two entries + suffix")
        else:
            if not sl(parts[0], facts).same(row.slice(None, o, facts), facts):
                probs.append("prefix `%s`" % ast.unparse(parts[0]))
            if not sl(parts[2], facts).same(row.slice(o + 2, None, facts), facts):
                probs.append("suffix `%s` is not scan[offset + 2:]" % ast.unparse(parts[2]))
            mid = parts[1]
            if not (isinstance(mid, ast.List) and [ast.unparse(x) for x in mid.elts] == ["scan[%s + 1]" % offv, "scan[%s]" % offv]):
                probs.append("the middle `%s` is not [scan[offset + 1], scan[offset]]" % ast.unparse(mid))
    except Unlocatable as e:
        probs.append(str(e))
    ctx.ob("R17.2", ZX + ".Diagram.to_pyzx:swap-row", not probs, found="; ".join(probs) or ast.unparse(asg.value), required="a swap exchanges the two entries at offset, offset + 1 (flags travel with their wires)", mod=ZX,
           node=asg, sig="swap-row")
    # H
    body = by["%s == H" % boxv]
    shape.match_stmts(ctx, "R17.2", ZX + ".Diagram.to_pyzx:hadamard-row", body, ["node, hadamard = scan[offset]", "scan[offset] = (node, not hadamard)"], {offv: "offset"}, mod=ZX, node=lbx, sig="hadamard-row",
                      required="H toggles the pending flag of the wire at offset", exact=True)
    # Scalar
    body = by["isinstance(%s, Scalar)" % boxv]
    shape.match_stmts(ctx, "R17.1", ZX + ".Diagram.to_pyzx:scalar", body, ["graph.scalar.add_float(box.data)"], {boxv: "box"}, mod=ZX, node=lbx, sig="scalar", required="scalars multiply the scalar of the graph", exact=True)
    ctx.ob("R17.2", ZX + ".Diagram.to_pyzx:arm-order", order.index("isinstance(%s, Spider)" % boxv) < order.index("%s == H" % boxv), found=order, required="spiders are recognised before the comparison with H", mod=ZX, node=lbx,
           sig="arm-order", trivial=True)
    # outputs
    iv = lout.target.elts[0].id
    shape.match_stmts(ctx, "R17.2", ZX + ".Diagram.to_pyzx:outputs", lout.body, ["target = graph.add_vertex(VertexType.BOUNDARY)", "source, hadamard = scan[i]", "etype = EdgeType.HADAMARD if hadamard else EdgeType.SIMPLE",
                      "graph.add_edge((source, target), etype)", "graph.outputs.append(target)"], {iv: "i"}, mod=ZX, node=lout, sig="outputs",
                      required="one boundary vertex per output wire, joined to the vertex at scan[i] by an edge typed by its pending flag, declared as output in wire order")


def check_move(ctx, fr):
    """R17.4: move(scan, source, target) — the bookkeeping is the permutation realised by the swaps; the moved wire keeps its label"""
    mv = inner(ctx, fr, "move")
    scanp, sp, tp = (a.arg for a in mv.args.args[:3])
    chain = mv.body[0]
    ctx.need(isinstance(chain, ast.If), "move is not a case distinction on source / target")
    arms, cur = [], chain
    while True:
        arms.append((cur.test, cur.body))
        if len(cur.orelse) == 1 and isinstance(cur.orelse[0], ast.If):
            cur = cur.orelse[0]
        else:
            arms.append((None, cur.orelse))
            break
    s, t, r = Lin.var("source"), Lin.var("target"), Lin.var("r")
    seen = set()
    for name, facts_l, layout in (
            ("target < source", [t, s - t - 1, r], [("X0", t), ("X1", s - t), ("S", 1), ("X2", r)]),
            ("target > source", [s, t - s - 1, r], [("X0", s), ("S", 1), ("X1", t - s), ("X2", r)]),
            ("target = source", [s, r], [("X0", s), ("S", 1), ("X2", r)])):
        facts = Facts(facts_l)
        atoms = {nm: Atom(nm, Lin.of(ln)) for nm, ln in layout}
        row = Seq([Seg(atoms[nm]) for nm, _ in layout])
        ev = LinEv({sp: s, tp: (s if name == "target = source" else t), "len(%s)" % scanp: row.length})
        taken = None
        for test, body in arms:
            if test is None:
                taken = body
                break
            if not (isinstance(test, ast.Compare) and len(test.ops) == 1):
                raise AnalysisError("move: test `%s` outside the recognised forms" % ast.unparse(test))
            dd = ev.ev(test.comparators[0]) - ev.ev(test.left)
            tt = {ast.Lt: (dd - 1, -dd), ast.LtE: (dd, -dd - 1), ast.Gt: (-dd - 1, dd), ast.GtE: (-dd, dd - 1)}.get(type(test.ops[0]))
            if tt is None:
                raise AnalysisError("move: test `%s` outside the recognised forms" % ast.unparse(test))
            if facts.nonneg(tt[0]):
                taken = body
                break
            if not facts.nonneg(tt[1]):
                raise AnalysisError("move: `%s` is not decided in the case %s" % (ast.unparse(test), name))
        seen.add(id(taken))
        sw = next((x for x in taken if isinstance(x, ast.Assign) and ast.unparse(x.targets[0]) == "swaps"), None)
        sc = next((x for x in taken if isinstance(x, ast.Assign) and ast.unparse(x.targets[0]) == scanp), None)
        ctx.need(sw is not None, "move [%s]: no swaps are built" % name)
        probs = []
        try:
            # diagram side
            factors = []

            def flat_mm(e):
                if isinstance(e, ast.BinOp) and isinstance(e.op, ast.MatMult):
                    flat_mm(e.left)
                    flat_mm(e.right)
                else:
                    factors.append(e)
            flat_mm(sw.value)
            pos, new_row, ok_shape = Lin.of(0), Seq(), True
            for f in factors:
                if isinstance(f, ast.Call) and ast.unparse(f.func) == "Id" and len(f.args) == 1:
                    w = ev.ev(f.args[0])
                    new_row = new_row + row.slice(pos, pos + w, facts)
                    pos = pos + w
                elif isinstance(f, ast.Call) and ast.unparse(f.func).endswith(".swap") and len(f.args) == 2:
                    l, rr = ev.ev(f.args[0]), ev.ev(f.args[1])
                    new_row = new_row + row.slice(pos + l, pos + l + rr, facts) + row.slice(pos, pos + l, facts)
                    pos = pos + l + rr
                else:
                    raise Unsupported("factor `%s`" % ast.unparse(f))
            if not facts.eq(pos, row.length):
                probs.append("the swaps have %r wires, the row %r" % (pos, row.length))
            # bookkeeping side
            if sc is None:
                book = row
            else:
                book = Seq()
                for p in flat_add(sc.value):
                    if isinstance(p, ast.List) and len(p.elts) == 1:
                        el = p.elts[0]
                        if isinstance(el, ast.Subscript) and ast.unparse(el.value) == scanp and not isinstance(el.slice, ast.Slice):
                            k = ev.ev(el.slice)
                            book = book + row.slice(k, k + 1, facts)
                        else:
                            probs.append("the moved wire is relabelled `%s`, which is not an entry of the row (the wire that moves is %s[%s])" % (ast.unparse(el), scanp, sp))
                            book = book + Seq.atom(Atom("?" + ast.unparse(el), Lin.of(1)))
                    elif isinstance(p, ast.Subscript) and isinstance(p.slice, ast.Slice) and ast.unparse(p.value) == scanp:
                        book = book + row.slice(ev.ev(p.slice.lower) if p.slice.lower is not None else None, ev.ev(p.slice.upper) if p.slice.upper is not None else None, facts)
                    else:
                        raise Unsupported("row part `%s`" % ast.unparse(p))
            if not probs and not book.same(new_row, facts):
                probs.append("the row is recorded as %r, the swaps produce %r" % (book, new_row))
            if not probs:
                at = new_row.slice(ev.ev(ast.Name(id=tp)), ev.ev(ast.Name(id=tp)) + 1, facts)
                if at != Seq.atom(atoms["S"]):
                    probs.append("the moved wire ends at the wrong place: position target holds %r" % (at,))
        except Unlocatable as e:
            probs.append(str(e))
        except Unsupported as e:
            raise AnalysisError("move [%s] outside the recognised idioms: %s" % (name, e))
        ctx.ob("R17.4", "%s.Diagram.from_pyzx.move[%s]" % (ZX, name), not probs, found="; ".join(probs) or "row %r" % (new_row,), required="the wire at `source` ends at `target`, the others keep their order; the recorded row is what the swaps do",
               mod=ZX, node=sw, sig="move:%s:%s" % (name, probs[0][:40] if probs else ""))
    ret = mv.body[-1]
    ctx.ob("R17.4", ZX + ".Diagram.from_pyzx.move:result", isinstance(ret, ast.Return) and ast.unparse(ret.value) == "(%s, swaps)" % scanp, found=ast.unparse(ret), required="returns the new row and the swaps", mod=ZX, node=ret,
           sig="move-result")


def check_import(ctx, fr):
    mwa = inner(ctx, fr, "make_wires_adjacent")
    # R17.5
    lp = next((s for s in mwa.body if isinstance(s, ast.For)), None)
    ctx.need(lp is not None and isinstance(lp.target, ast.Tuple), "make_wires_adjacent has no loop over the inputs")
    liv = lp.target.elts[0].id
    shape.match_stmts(ctx, "R17.5", ZX + ".Diagram.from_pyzx.make_wires_adjacent:first", [s for s in mwa.body if isinstance(s, ast.Assign)], ["offset = scan.index(inputs[0])"], mod=ZX, node=mwa, sig="gather-first",
                      required="gathering starts at the position of the first (leftmost) input")
    if ast.unparse(lp.iter) == "enumerate(inputs[1:], start=1)" and len(lp.target.elts) == 2 and isinstance(lp.target.elts[1], ast.Name):
        # the same walk with the index starting at 1 and the element read directly: k-th input = inputs[k], placed at offset + k
        ctx.ob("R17.5", ZX + ".Diagram.from_pyzx.make_wires_adjacent:others", True, found=ast.unparse(lp.iter), required="every other input, in order", mod=ZX, node=lp, trivial=True)
        shape.match_stmts(ctx, "R17.5", ZX + ".Diagram.from_pyzx.make_wires_adjacent", lp.body, ["source, target = (scan.index(wire), offset + i)", "scan, swaps = move(scan, source, target)", "diagram = diagram >> swaps"],
                          {liv: "i", lp.target.elts[1].id: "wire"}, mod=ZX, node=lp, sig="gather", required="the k-th input is moved right after the (k-1)-th; the swaps are composed onto the diagram", exact=True)
        return _check_import_rest(ctx, fr, mwa)
    ctx.ob("R17.5", ZX + ".Diagram.from_pyzx.make_wires_adjacent:others", ast.unparse(lp.iter) == "enumerate(inputs[1:])", found=ast.unparse(lp.iter), required="every other input, in order", mod=ZX, node=lp, sig="gather-iter", trivial=True)
    shape.match_stmts(ctx, "R17.5", ZX + ".Diagram.from_pyzx.make_wires_adjacent", lp.body, ["source, target = (scan.index(inputs[i + 1]), offset + i + 1)", "scan, swaps = move(scan, source, target)", "diagram = diagram >> swaps"],
                      {liv: "i"}, mod=ZX, node=lp, sig="gather", required="the k-th input is moved right after the (k-1)-th; the swaps are composed onto the diagram", exact=True)
    return _check_import_rest(ctx, fr, mwa)


def _check_import_rest(ctx, fr, mwa):
    first = mwa.body[0]
    ok = isinstance(first, ast.If) and ast.unparse(first.test) == "not inputs" and ast.unparse(first.body[-1]) == "return (scan, diagram, len(scan))"
    ctx.ob("R17.5", ZX + ".Diagram.from_pyzx.make_wires_adjacent:no-inputs", ok, found=ast.unparse(first)[:80], required="a spider without inputs is placed at the right end of the row", mod=ZX, node=first, sig="gather-empty")
    # main loop
    loop = next((s for s in fr.body if isinstance(s, ast.For) and isinstance(s.target, ast.Name) and "graph.vertices()" in ast.unparse(s.iter)), None)
    ctx.need(loop is not None, "from_pyzx has no loop over the inner vertices")
    nodev = loop.target.id
    ok = shape.key(loop.iter) == shape.key(shape.parse("[v for v in graph.vertices() if v not in graph.inputs + graph.outputs]"))
    ctx.ob("R17.6", ZX + ".Diagram.from_pyzx:inner-vertices", ok, found=ast.unparse(loop.iter), required="every vertex that is not a declared boundary, in vertex order", mod=ZX, node=loop, sig="inner-vertices")
    inplace = [ast.unparse(x)[:70] for x in ast.walk(fr) if isinstance(x, (ast.Assign, ast.AugAssign, ast.Delete)) and
               any(isinstance(t, ast.Subscript) and ast.unparse(t.value) == "scan" for t in (x.targets if not isinstance(x, ast.AugAssign) else [x.target]))] + \
        [ast.unparse(c)[:70] for c in ast.walk(fr) if isinstance(c, ast.Call) and isinstance(c.func, ast.Attribute) and ast.unparse(c.func.value) == "scan"
         and c.func.attr in ("insert", "pop", "append", "remove", "extend", "sort", "reverse", "clear")]
    ctx.ob("R17.6", ZX + ".Diagram.from_pyzx:row-not-aliased", not inplace, found=inplace or "the row is only re-bound to new lists", required="`scan` starts as graph.inputs itself: it is never changed in place "
           "(the graph handed in must stay usable)", mod=ZX, node=loop, sig="scan-inplace", trivial=True)
    if inplace:
        return
    body = {ast.unparse(s.targets[0]): s for s in loop.body if isinstance(s, ast.Assign)}
    ctx.need({"inputs", "outputs", "hadamards", "box", "diagram", "scan"} <= set(body), "from_pyzx: the vertex loop does not bind inputs / outputs / hadamards / box / diagram / scan")
    shape.match(ctx, "R17.6", ZX + ".Diagram.from_pyzx:inputs", body["inputs"].value, "[v for v in graph.neighbors(node) if v < node and v not in graph.outputs or v in graph.inputs]", {nodev: "node"}, mod=ZX, node=body["inputs"],
                sig="vertex-inputs", required="legs in: earlier neighbours and declared inputs")
    shape.match(ctx, "R17.6", ZX + ".Diagram.from_pyzx:outputs", body["outputs"].value, "[v for v in graph.neighbors(node) if v > node and v not in graph.inputs or v in graph.outputs]", {nodev: "node"}, mod=ZX, node=body["outputs"],
                sig="vertex-outputs", required="legs out: later neighbours and declared outputs")
    srt = [s for s in loop.body if isinstance(s, ast.Expr) and ast.unparse(s.value) == "inputs.sort(key=scan.index)"]
    ok = len(srt) == 1 and loop.body.index(srt[0]) < loop.body.index(next(s for s in loop.body if isinstance(s, ast.Assign) and "make_wires_adjacent" in ast.unparse(s.value)))
    ctx.ob("R17.5", ZX + ".Diagram.from_pyzx:inputs-sorted", ok, found=[ast.unparse(s) for s in srt], required="the inputs are sorted by their position in the row before they are gathered (so every move is to the left)", mod=ZX,
           node=loop, sig="inputs-sorted")
    callst = next(s for s in loop.body if isinstance(s, ast.Assign) and "make_wires_adjacent" in ast.unparse(s.value))
    shape.match_stmts(ctx, "R17.5", ZX + ".Diagram.from_pyzx:gather-call", [callst], ["scan, diagram, offset = make_wires_adjacent(scan, diagram, inputs)"], mod=ZX, node=callst, sig="gather-call", exact=True,
                      required="the row and the diagram go in and come back in the order the helper takes and returns them")
    mwa_ = inner(ctx, fr, "make_wires_adjacent")
    ctx.ob("R17.5", ZX + ".Diagram.from_pyzx.make_wires_adjacent:signature", [a.arg for a in mwa_.args.args] == ["scan", "diagram", "inputs"], found=[a.arg for a in mwa_.args.args], required="(scan, diagram, inputs)",
           mod=ZX, node=mwa_, sig="gather-signature", trivial=True)
    for r_ in [r_ for r_ in ast.walk(mwa_) if isinstance(r_, ast.Return)]:
        shape.match(ctx, "R17.5", ZX + ".Diagram.from_pyzx.make_wires_adjacent:returns", r_.value, ["(scan, diagram, offset)", "(scan, diagram, len(scan))"], {}, mod=ZX, node=r_, sig="gather-returns",
                    required="(row, diagram, offset of the gathered legs)")
    mv_ = inner(ctx, fr, "move")
    ctx.ob("R17.4", ZX + ".Diagram.from_pyzx.move:signature", [a.arg for a in mv_.args.args] == ["scan", "source", "target"], found=[a.arg for a in mv_.args.args], required="(scan, source, target)", mod=ZX, node=mv_,
           sig="move-signature", trivial=True)
    for r_ in [r_ for r_ in ast.walk(mv_) if isinstance(r_, ast.Return)]:
        shape.match(ctx, "R17.4", ZX + ".Diagram.from_pyzx.move:returns", r_.value, "(scan, swaps)", {}, mod=ZX, node=r_, sig="move-returns", required="(row, swaps), the order in which the callers unpack them")
    shape.match(ctx, "R17.6", ZX + ".Diagram.from_pyzx:hadamards", body["hadamards"].value, "Id(0).tensor(*[H if graph.edge_type((i, node)) == EdgeType.HADAMARD else Id(1) for i in scan[offset:offset + len(inputs)]])",
                {nodev: "node"}, mod=ZX, node=body["hadamards"], sig="vertex-hadamards", required="a Hadamard on each gathered leg whose edge to the vertex is a Hadamard edge")
    shape.match(ctx, "R17.6", ZX + ".Diagram.from_pyzx:box", body["box"].value, "node2box(node, len(inputs), len(outputs))", {nodev: "node"}, mod=ZX, node=body["box"], sig="vertex-box")
    shape.match(ctx, "R17.6", ZX + ".Diagram.from_pyzx:layer", body["diagram"].value, "diagram >> Id(offset) @ (hadamards >> box) @ Id(len(diagram.cod) - offset - len(inputs))", {}, mod=ZX, node=body["diagram"], sig="vertex-layer",
                required="the spider is whiskered at the gathered offset")
    shape.match(ctx, "R17.6", ZX + ".Diagram.from_pyzx:row", body["scan"].value, "scan[:offset] + len(outputs) * [node] + scan[offset + len(inputs):]", {nodev: "node"}, mod=ZX, node=body["scan"], sig="vertex-row",
                required="the gathered legs are replaced by the output legs of the new spider")
    # outputs loop (R17.7)
    lo = next((s for s in fr.body if isinstance(s, ast.For) and ast.unparse(s.iter) == "enumerate(graph.outputs)"), None)
    ctx.need(lo is not None, "from_pyzx has no loop over the outputs")
    tv = lo.target.elts[0].id
    mvc = next((c for c in ast.walk(lo) if isinstance(c, ast.Call) and ast.unparse(c.func) == "move"), None)
    ctx.need(mvc is not None and len(mvc.args) == 3, "from_pyzx: outputs are not routed with move")
    src = mvc.args[1]
    nbv = next((ast.unparse(s.targets[0].elts[0]) for s in lo.body if isinstance(s, ast.Assign) and isinstance(s.targets[0], ast.Tuple) and len(s.targets[0].elts) == 1 and "neighbors" in ast.unparse(s.value)), "node")
    mvst = next((s for s in lo.body if isinstance(s, ast.Assign) and s.value is mvc), None)
    ok = isinstance(src, ast.Call) and ast.unparse(src.func) == "scan.index" and len(src.args) == 2 and ast.unparse(src.args[1]) == tv and ast.unparse(mvc.args[2]) == tv \
        and ast.unparse(src.args[0]) == nbv and ast.unparse(mvc.args[0]) == "scan" and mvst is not None and ast.unparse(mvst.targets[0]) in ("(scan, swaps)", "scan, swaps")
    ctx.ob("R17.7", ZX + ".Diagram.from_pyzx:output-leg", ok, found=ast.unparse(mvc), required="the leg is searched among the positions >= target (scan.index(node, target)): the positions before are outputs already placed, "
           "possibly legs of the same spider", mod=ZX, node=mvc, sig="output-leg")
    body = [ast.unparse(s) for s in lo.body]
    ok = "node, = graph.neighbors(output)" in body or "(node,) = graph.neighbors(output)" in body
    ctx.ob("R17.7", ZX + ".Diagram.from_pyzx:output-neighbour", ok, found=body[:2], required="an output boundary has exactly one neighbour", mod=ZX, node=lo, sig="output-neighbour")
    ov_ = lo.target.elts[1].id
    shape.match_stmts(ctx, "R17.7", ZX + ".Diagram.from_pyzx:output-edge", [s for s in lo.body if isinstance(s, ast.Assign) and ast.unparse(s.targets[0]) in ("etype", "hadamard")],
                      ["etype = graph.edge_type((node, output))", "hadamard = H if etype == EdgeType.HADAMARD else Id(1)"], {ov_: "output"}, mod=ZX, node=lo, sig="output-edge", exact=True,
                      required="the Hadamard applied at an output is that of the edge from its own neighbour to it")
    dg = next((s for s in lo.body if isinstance(s, ast.Assign) and ast.unparse(s.targets[0]) == "diagram"), None)
    ctx.need(dg is not None, "from_pyzx: the output loop does not extend the diagram")
    shape.match(ctx, "R17.7", ZX + ".Diagram.from_pyzx:output-layer", dg.value, "diagram >> swaps >> Id(target) @ hadamard @ Id(len(scan) - target - 1)", {tv: "target"}, mod=ZX, node=dg, sig="output-layer",
                required="the leg is moved to its output position, then the Hadamard of its edge is applied there")
    rr = [r_ for r_ in fr.body if isinstance(r_, ast.Return)]
    shape.match(ctx, "R17.7", ZX + ".Diagram.from_pyzx:result", rr[-1].value if rr else None, "diagram", {}, mod=ZX, node=fr, sig="from-pyzx-result", required="the diagram built is the one returned")
    # refusals (R17.3)
    g = CFG(fr)
    start = next(s for s in fr.body if isinstance(s, ast.Assign) and "Id(len(graph.inputs))" in ast.unparse(s.value))
    guards = [(ast.unparse(st.test), how) for st, lab, how in g.raising_guards_before(start) if lab == "T"]
    names = {s.targets[0].id: s.value for s in fr.body if isinstance(s, ast.Assign) and isinstance(s.targets[0], ast.Name)}
    ok1 = any(t == "missing_boundary" and "ValueError" in how for t, how in guards) and "missing_boundary" in names and \
        shape.key(names["missing_boundary"]) == shape.key(shape.parse("any((graph.type(node) == VertexType.BOUNDARY and node not in graph.inputs + graph.outputs for node in graph.vertices()))"))
    ok2 = any(t == "duplicate_boundary" and "ValueError" in how for t, how in guards) and "duplicate_boundary" in names and \
        shape.key(names["duplicate_boundary"]) == shape.key(shape.parse("set(graph.inputs).intersection(graph.outputs)"))
    ctx.ob("R17.3", ZX + ".Diagram.from_pyzx:missing-boundary", ok1, found=guards, required="a boundary vertex that is neither input nor output raises ValueError before anything is built", mod=ZX, node=start, sig="missing-boundary")
    ctx.ob("R17.3", ZX + ".Diagram.from_pyzx:shared-boundary", ok2, found=guards, required="a vertex declared both input and output raises ValueError", mod=ZX, node=start, sig="shared-boundary")
    st0 = shape.values_of(fr.body[:fr.body.index(loop)], ["diagram", "scan"])
    shape.match(ctx, "R17.6", ZX + ".Diagram.from_pyzx:start", st0, "(Id(len(graph.inputs)), graph.inputs)", {}, mod=ZX, node=start, sig="start", required="the row starts as the declared inputs, in order")


def check(ctx):
    ctx.rule("R17.1", "conventions agree: phases doubled / halved, Z <-> VertexType.Z, pending Hadamard <-> EdgeType.HADAMARD wherever an edge is written or read, scalars into graph.scalar")
    ctx.rule("R17.2", "to_pyzx: the row of (vertex, flag) pairs is spliced like the wires; inputs and outputs declared in wire order")
    ctx.rule("R17.3", "refusals: undeclared / shared boundaries, non-spider vertices, non-ZX boxes")
    ctx.rule("R17.4", "from_pyzx.move: the recorded row is the permutation the swaps realise; the moved wire keeps its label and ends at target")
    ctx.rule("R17.5", "from_pyzx.make_wires_adjacent gathers the sorted inputs right of the first one")
    ctx.rule("R17.6", "from_pyzx: one spider per inner vertex with legs for earlier / later neighbours, whiskered at the gathered offset, Hadamards from the edge types")
    ctx.rule("R17.7", "from_pyzx: each output is routed from a leg that is not placed yet")
    m = ctx.model
    to, fr = m.func(ZX + ".Diagram.to_pyzx"), m.func(ZX + ".Diagram.from_pyzx")
    ctx.analysed(ZX + ".Diagram.to_pyzx", ZX + ".Diagram.from_pyzx", ZX + ".Diagram.from_pyzx.move", ZX + ".Diagram.from_pyzx.make_wires_adjacent", ZX + ".Diagram.from_pyzx.node2box")
    ctx.attempt(check_conventions, ctx, to, fr)
    ctx.attempt(check_to_pyzx, ctx, to)
    ctx.attempt(check_move, ctx, fr)
    ctx.attempt(check_import, ctx, fr)
    ctx.rule("R17.8", "the swaps from_pyzx routes wires with are the requested permutations (C10, including the zx override of Diagram.swap)")
    ctx.depend("R17.8", "C10", "from_pyzx moves wires with Diagram.swap(k, 1) / swap(1, k): the block of k wires and the single wire are exchanged as requested", mod="discopy.quantum.zx")
    ctx.rule("R17.9", "the generators read by to_pyzx and built by from_pyzx (legs, phase as data, default phase 0) are the ones of C16 R16.5")
    ctx.depend("R17.9", "C16", "to_pyzx reads box.phase and the numbers of legs, from_pyzx builds Z(m, n, phase) / X(m, n, phase): the constructors must mean what both sides assume", rules={"R16.5"}, mod="discopy.quantum.zx")
    ctx.floor("R17.1", 12)
    ctx.floor("R17.2", 11)
    ctx.floor("R17.3", 4)
    ctx.floor("R17.4", 4)
    ctx.floor("R17.5", 5)
    ctx.floor("R17.6", 9)
    ctx.floor("R17.7", 3)
    ctx.not_decided += ["pyzx's tensor semantics (the reference of the property)", "graphs with parallel edges", "the scalar on import"]
