"""C14 — substituting parameters commutes with evaluation (R14.1–R14.3; engines A, C′)."""
import ast
from ..core import AnalysisError
from ..objsim import explore, Inst, RaisesError, Unsupported as SimUnsupported, Sym, Sim, Lam
from ..generic import instances, same_value, KEY
from .. import shape
from .c02 import ABSTRACT

EXPLANATION = (
    "For every concrete box class that can be reached by Diagram.subs / Diagram.lambdify, a generic instance is constructed "
    "abstractly for every combination of its finite constructor parameters (data is a symbolic term), `subs(var, expr)` and "
    "`lambdify(var)(val)` — as resolved along the MRO, i.e. including the inherited generic rebuilds — are executed abstractly, and "
    "on every path the result must either be the box itself (no free symbol) or bind against the constructor of the class, keep "
    "name, dom, cod, dagger flag and mixedness, and carry data that is rsubs / the lambdified function applied to the old data. "
    "This is reconstruction completeness: the rebuild forgets nothing the evaluation depends on, so eval ∘ subs = subs ∘ eval "
    "follows for expression-valued arrays. Also decided: free_symbols is computed from the same `data` the arrays are computed "
    "from and is the union over boxes; diagram-level subs/lambdify rebuild layer by layer with the same whiskers. Not decided: "
    "numeric behaviour of sympy/numpy (e.g. numpy ufuncs applied to sympy numbers).")

CAT, MON, GATES = "discopy.cat", "discopy.monoidal", "discopy.quantum.gates"
SCOPE = ("discopy.cat", "discopy.monoidal", "discopy.rigid", "discopy.tensor", "discopy.quantum.circuit", "discopy.quantum.gates", "discopy.quantum.zx",
         "discopy.grammar.cfg", "discopy.grammar.pregroup", "discopy.grammar.ccg")


def ret_expr(body):
    for st in body:
        if isinstance(st, ast.Return):
            return st.value
    return None


def contains(term, sub):
    if isinstance(term, Sym):
        if term == sub:
            return True
        return any(contains(a, sub) for a in term.args)
    if isinstance(term, (tuple, list)):
        return any(contains(a, sub) for a in term)
    if isinstance(term, dict):
        return any(contains(a, sub) for a in term.values())
    return term is sub or (not isinstance(sub, Sym) and type(term) == type(sub) and term == sub)


def applied(term, what):
    """does the term apply rsubs / sympy.lambdify somewhere?"""
    if isinstance(term, Sym):
        if what == "subs" and term.tag == "rsubs":
            return True
        if what == "lambdify" and term.tag == "call" and "lambdify" in repr(term.args[0]):
            return True
        return any(applied(a, what) for a in term.args)
    if isinstance(term, (tuple, list)):
        return any(applied(a, what) for a in term)
    return False


def lambdify_calls(term, out=None):
    """the positional argument tuples of every sympy.lambdify call inside the term"""
    out = [] if out is None else out
    if isinstance(term, Sym):
        if term.tag == "call" and "lambdify" in repr(term.args[0]) and not (isinstance(term.args[0], Sym) and term.args[0].tag == "call") and len(term.args) >= 2 and isinstance(term.args[1], tuple):
            out.append(term.args[1])
        for a in term.args:
            lambdify_calls(a, out)
    elif isinstance(term, (tuple, list)):
        for a in term:
            lambdify_calls(a, out)
    return out


SEMANTIC_MEMBERS = ("array", "grad", "eval", "function", "__call__")      # dagger overrides are C02's subject


def run_method(m, cls, build, meth):
    def run(sim):
        x = build(sim)
        f = sim.getattr(x, meth, None, cls.mod)
        if meth == "subs":
            y = sim.apply(f, [Sym("var"), Sym("expr")], {}, None, cls.mod, x)
        else:
            g = sim.apply(f, [Sym("var")], {}, None, cls.mod, x)
            y = sim.apply(g, [Sym("val")], {}, None, cls.mod, x) if isinstance(g, Lam) else g
        return x, y
    return run


def check_rebuilds(ctx):
    m = ctx.model
    n_cls = 0
    for c in m.concrete_boxes():
        if c.mod not in SCOPE:
            continue
        if m.cls(CAT + ".Sum") in m.mro(c):
            continue
        if c.q in ABSTRACT:
            continue
        owner_init = m.lookup(c, "__init__")
        takes_dagger = False
        if owner_init and isinstance(owner_init[1], ast.FunctionDef):
            a = owner_init[1].args
            takes_dagger = "_dagger" in [x.arg for x in a.args + a.kwonlyargs] or a.kwarg is not None
        for meth in ("subs", "lambdify"):
            r = m.lookup(c, meth)
            if r is None or not isinstance(r[1], ast.FunctionDef):
                continue
            ctx.analysed("%s.%s" % (c.q, meth))
            cases, rebuilt, bad = 0, 0, {}
            try:
                for label, build in instances(m, c):
                    for oracle, res, sim in explore(m, run_method(m, c, build, meth)):
                        if isinstance(res, RaisesError):
                            try:
                                build(Sim(m, oracle))
                            except Exception:
                                continue
                            cases += 1
                            bad.setdefault("raises", (label, oracle, res.what))
                            continue
                        x, y = res
                        cases += 1
                        if y is x:
                            continue
                        if not isinstance(y, Inst):
                            bad.setdefault("not-a-box", (label, oracle, repr(y)[:100]))
                            continue
                        rebuilt += 1
                        if not (y.cls is x.cls or y.cls in m.mro(x.cls)):
                            bad.setdefault("class", (label, oracle, "rebuilt as %s" % y.cls.q))
                        elif y.cls is not x.cls:
                            # rebuilt as a base class: sound only if the subclass does not redefine what the value means
                            diff = [nm for nm in SEMANTIC_MEMBERS if (m.lookup(x.cls, nm) or (None, None))[1] is not (m.lookup(y.cls, nm) or (None, None))[1]]
                            if diff:
                                bad.setdefault("class", (label, oracle, "rebuilt as the base class %s, which does not share %s with %s" % (y.cls.q, ", ".join(diff), x.cls.q)))
                        for a in KEY:
                            if a == "_data" or (a == "_dagger" and not takes_dagger):
                                continue        # a dagger flag computed from the data follows the new data
                            if (a in x.attrs or a in y.attrs) and not same_value(sim, x.attrs.get(a), y.attrs.get(a)):
                                bad.setdefault("keeps:" + a, (label, oracle, "%s was %r, rebuilt with %r" % (a, x.attrs.get(a), y.attrs.get(a))))
                        # every other attribute the constructor was GIVEN (an opaque parameter: a function, a flag, a name) is a non-numeric attribute of the box: kept as it is
                        for a, xv in sorted(x.attrs.items()):
                            if a in KEY or a in ("_data", "_free_symbols") or a.startswith(("draw", "_draw")) or a in ("color", "shape", "tikzstyle_name"):
                                continue
                            if isinstance(xv, Sym) and not xv.args and xv.tag.startswith("param:") and xv.tag != "param:data" and not contains(xd_ := x.attrs.get("_data"), xv):
                                if not same_value(sim, xv, y.attrs.get(a)):
                                    bad.setdefault("keeps:" + a, (label, oracle, "%s was the constructor argument %s, rebuilt with %r" % (a, xv.tag[6:], y.attrs.get(a))))
                        xd, yd = x.attrs.get("_data"), y.attrs.get("_data")
                        if xd is not None and not (contains(yd, xd) and applied(yd, meth)):
                            bad.setdefault("data", (label, oracle, "data was %r, rebuilt with %r" % (xd, yd)))
                        elif xd is not None and meth == "lambdify":
                            for pos in lambdify_calls(yd):          # sympy.lambdify(symbols, expression): the symbols first
                                if len(pos) >= 2 and contains(pos[0], xd) and not contains(pos[1], xd):
                                    bad.setdefault("data", (label, oracle, "lambdify called with the data where the symbols belong: %r" % (pos[:2],)))
            except SimUnsupported as e:
                raise AnalysisError("%s.%s outside the recognised idioms: %s" % (c.q, meth, e))
            if cases == 0:
                raise AnalysisError("%s: no generic instance could be constructed" % c.q)
            n_cls += 1
            cname = "%s.%s" % (c.q, meth)
            if bad:
                for what, (label, oracle, msg) in sorted(bad.items()):
                    ctx.ob("R14.1", cname + ":" + what, False, found=msg, required="binds; keeps name, dom, cod, dagger flag, mixedness; data = rsubs/lambdified old data",
                           mod=r[0].mod, node=r[1], sig=what.split(":")[0] + (":" + what.split(":")[1] if ":" in what else ""),
                           note="generic instance [%s]%s; %s defined in %s" % (label, (" under " + ", ".join("%s=%s" % (k[:50], v) for k, v in oracle.items())) if oracle else "", meth, r[0].q))
            else:
                ctx.ob("R14.1", cname, True, found="%d generic cases, %d rebuilds" % (cases, rebuilt), required="reconstruction complete", mod=r[0].mod, node=r[1],
                       trivial=rebuilt == 0)
    return n_cls


def check_free_symbols(ctx):
    m = ctx.model
    fn = m.func(CAT + ".Box.__init__")
    ctx.analysed(CAT + ".Box.__init__", CAT + ".Arrow.free_symbols")
    rec = next((s for s in fn.body if isinstance(s, ast.FunctionDef)), None)
    ctx.need(rec is not None, "cat.Box.__init__ has no inner free-symbol function")
    src = [ast.unparse(s) for s in ast.walk(rec) if isinstance(s, ast.Return)]
    leaf = any(s == "return data.free_symbols if hasattr(data, 'free_symbols') else {}" for s in src)
    recu = any(s == "return set().union(*map(%s, data))" % rec.name for s in src)
    ctx.ob("R14.2", CAT + ".Box.__init__:free-symbols-leaf", leaf, found=src, required="a leaf contributes data.free_symbols when it has any", mod=CAT, node=rec, sig="fs-leaf")
    ctx.ob("R14.2", CAT + ".Box.__init__:free-symbols-recursive", recu, found=src, required="containers contribute the union over their elements", mod=CAT, node=rec, sig="fs-rec")
    # the recursion descends into every Iterable: a non-empty string iterates to strings for ever, so strings must be leaves
    guarded = False
    for st in ast.walk(rec):
        if isinstance(st, ast.If):
            mentions_str = any(isinstance(c, ast.Call) and ast.unparse(c.func) == "isinstance" and len(c.args) == 2 and
                               any(ast.unparse(e) in ("str", "bytes") for e in (c.args[1].elts if isinstance(c.args[1], ast.Tuple) else [c.args[1]])) for c in ast.walk(st.test))
            rec_inside = any(isinstance(c, ast.Name) and c.id == rec.name for b in st.body for c in ast.walk(b))
            returns_first = st.body and isinstance(st.body[-1], ast.Return) and not rec_inside
            if mentions_str and (rec_inside or returns_first):
                guarded = True
    ctx.ob("R14.2", CAT + ".Box.__init__:free-symbols-strings", guarded, found="strings are leaves" if guarded else "the recursion descends into every Iterable, strings included",
           required="strings are not descended into (each character of a string is again a non-empty string: the recursion would not end)", mod=CAT, node=rec, sig="fs-str")
    maps = [s for s in rec.body if isinstance(s, ast.If) and "Mapping" in ast.unparse(s.test)]
    ctx.ob("R14.2", CAT + ".Box.__init__:free-symbols-mappings", bool(maps) and ast.unparse(maps[0].body[0]) == "data = data.values()", found=[ast.unparse(s)[:60] for s in maps],
           required="mappings contribute their values", mod=CAT, node=rec, sig="fs-map")
    # the same `data` feeds _free_symbols and _data
    stores = {}
    for s in fn.body:
        if isinstance(s, ast.Assign):
            if isinstance(s.targets[0], ast.Tuple) and isinstance(s.value, ast.Tuple):
                for t, v in zip(s.targets[0].elts, s.value.elts):
                    stores[ast.unparse(t)] = ast.unparse(v)
            else:
                stores[ast.unparse(s.targets[0])] = ast.unparse(s.value)
    ok = stores.get("self._free_symbols") == "%s(data)" % rec.name and stores.get("self._data") == "data" and stores.get("data") == "params.get('data', None)"
    ctx.ob("R14.2", CAT + ".Box.__init__:same-data", ok, found={k: v for k, v in stores.items() if "data" in k or "free" in k}, required="_free_symbols and _data come from the same `data`",
           mod=CAT, node=fn, sig="fs-same-data")
    fs = m.func(CAT + ".Arrow.free_symbols")
    shape.match(ctx, "R14.2", CAT + ".Arrow.free_symbols", ret_expr(fs.body), "{x for box in self.boxes for x in box.free_symbols}", {}, mod=CAT, node=fs, sig="fs-union",
                required="the free symbols of a diagram are the union over its boxes")
    pm = m.func(GATES + ".Parametrized.modules")
    ctx.analysed(GATES + ".Parametrized.modules")
    ifs = [s for s in pm.body if isinstance(s, ast.If)]
    rest_ = (ifs[0].orelse or pm.body[pm.body.index(ifs[0]) + 1:]) if ifs else []          # the model has no else after a branch that returns: the guard is the shorter branch
    tst = ast.unparse(ifs[0].test) if ifs else None
    when_sym, when_num = (ifs[0].body, rest_) if tst == "self.free_symbols" else (rest_, ifs[0].body) if tst == "not self.free_symbols" else ([], [])
    ok = bool(when_sym) and bool(when_num) and "sympy" in ast.unparse(when_sym[-1]) and "Tensor.np" in ast.unparse(when_num[-1])
    ctx.ob("R14.2", GATES + ".Parametrized.modules", ok, found=ast.unparse(pm)[-120:], required="symbolic arithmetic iff the gate has free symbols", mod=GATES, node=pm, sig="modules")
    # the arrays of parametrised gates are functions of self.phase == self.data
    ph = m.func(GATES + ".Rotation.phase")
    shape.match(ctx, "R14.2", GATES + ".Rotation.phase", ret_expr(ph.body), "self.data", {}, mod=GATES, node=ph, sig="phase-is-data")
    for k in ("Rx", "Ry", "Rz", "CU1", "CRz", "CRx"):
        arr = m.func("%s.%s.array" % (GATES, k))
        names = {n.attr for n in ast.walk(arr) if isinstance(n, ast.Attribute) and isinstance(n.value, ast.Name) and n.value.id == "self"}
        ctx.ob("R14.2", "%s.%s.array:reads" % (GATES, k), names <= {"phase", "modules", "data"} and ("phase" in names or "data" in names), found=sorted(names),
               required="the array is a function of the phase (the substituted data) only", mod=GATES, node=arr, sig="array-reads")


def check_early_exits(ctx):
    """R14.4: subs / lambdify hand the box back unchanged only when none of the substituted symbols occurs in it"""
    m = ctx.model
    n = 0
    for c in sorted(m.classes.values(), key=lambda c: c.q):
        if c.mod not in SCOPE:
            continue
        for meth, argname, same in (("subs", "args", "self"), ("lambdify", "symbols", "lambda *xs: self")):
            fn = c.methods.get(meth, (None,))[0]
            if not isinstance(fn, ast.FunctionDef) or fn.args.vararg is None:
                continue
            self_ = fn.args.args[0].arg
            N = {fn.args.vararg.arg: argname, self_: "self"}
            for st in fn.body:
                if not (isinstance(st, ast.If) and st.body and isinstance(st.body[-1], ast.Return) and st.body[-1].value is not None):
                    continue
                rv = shape.rename(st.body[-1].value, N)
                if shape.key(rv) != shape.key(shape.parse(same)):
                    continue
                n += 1
                specs = ["not self.free_symbols"] + (["not any((var in self.free_symbols for var in ({var for var, _ in args[0]} if len(args) == 1 else {args[0]})))"] if meth == "subs" else
                                                     ["not any((x in self.free_symbols for x in symbols))"])
                shape.match(ctx, "R14.4", "%s.%s:unchanged" % (c.q, meth), st.test, specs, N, mod=c.mod, node=st, sig="early-exit-" + meth,
                            required="returned unchanged only if it has no free symbol at all, or none of the symbols being substituted (pairs given as one list, or one symbol and its value)")
    ctx.floor("R14.4", 8)


def check_diagram_level(ctx):
    m = ctx.model
    ctx.analysed(MON + ".Diagram.subs", MON + ".Diagram.lambdify", CAT + ".Arrow.subs", CAT + ".Arrow.lambdify", CAT + ".Sum.subs", "discopy.tensor.Tensor.subs")
    fn = m.func(MON + ".Diagram.subs")
    shape.match(ctx, "R14.3", MON + ".Diagram.subs", ret_expr(fn.body),
                "self.id(self.dom).then(*(self.id(left) @ box.subs(*args) @ self.id(right) for left, box, right in self.layers))", {}, mod=MON, node=fn, sig="diagram-subs",
                required="layer by layer, same whiskers, from the identity on dom")
    fn = m.func(MON + ".Diagram.lambdify")
    shape.match(ctx, "R14.3", MON + ".Diagram.lambdify", ret_expr(fn.body),
                "lambda *xs: self.id(self.dom).then(*(self.id(left) @ box.lambdify(*symbols, **kwargs)(*xs) @ self.id(right) for left, box, right in self.layers))", {},
                mod=MON, node=fn, sig="diagram-lambdify")
    # substitution into nested data: every leaf, the structure kept
    rm = m.func(CAT + ".rmap")
    ctx.analysed(CAT + ".rmap", CAT + ".rsubs")
    a_ = [x.arg for x in rm.args.args]
    shape.match_stmts(ctx, "R14.3", CAT + ".rmap", [s for s in rm.body if not (isinstance(s, ast.Expr) and isinstance(s.value, ast.Constant))],
                      ["if isinstance(data, Mapping):\n    return {key: rmap(func, value) for key, value in data.items()}", "if isinstance(data, Iterable):\n    return type(data)([rmap(func, elem) for elem in data])", "return func(data)"],
                      dict(zip(a_, ("func", "data"))), mod=CAT, node=rm, sig="rmap", exact=True, required="mappings value by value under the same keys, other containers element by element in a container of the same type, a leaf through the function")
    rs = m.func(CAT + ".rsubs")
    shape.match(ctx, "R14.3", CAT + ".rsubs", ret_expr(rs.body), ["rmap(lambda x: getattr(x, 'subs', lambda *_: x)(*args), data)"], {rs.args.args[0].arg: "data", rs.args.vararg.arg: "args"}, mod=CAT, node=rs, sig="rsubs",
                required="every leaf that can be substituted into is, with all the arguments; other leaves are kept")
    fn = m.func("discopy.tensor.Tensor.lambdify")
    ctx.analysed("discopy.tensor.Tensor.lambdify")
    lam = next((s.value for s in fn.body if isinstance(s, ast.Assign) and isinstance(s.value, ast.Call) and ast.unparse(s.value.func) == "lambdify"), None)
    ctx.need(lam is not None and len(lam.args) >= 2, "Tensor.lambdify does not call sympy.lambdify(symbols, array)")
    pos = [ast.unparse(a) for a in lam.args[:2]]
    ctx.ob("R14.3", "discopy.tensor.Tensor.lambdify:arguments", pos == [fn.args.vararg.arg, "self.array"], found=pos, required="sympy.lambdify(symbols, expression): the symbols first, the array of the tensor second", mod="discopy.tensor",
           node=lam, sig="tensor-lambdify-args")
    tgt = next(s.targets[0].id for s in fn.body if isinstance(s, ast.Assign) and s.value is lam)
    shape.match(ctx, "R14.3", "discopy.tensor.Tensor.lambdify:result", ret_expr(fn.body), "lambda *xs: Tensor(self.dom, self.cod, array(*xs))", {tgt: "array"}, mod="discopy.tensor", node=fn, sig="tensor-lambdify-result",
                required="a tensor of the same type whose array is the lambdified array at the given values")
    fn = m.func(CAT + ".Arrow.subs")
    shape.match(ctx, "R14.3", CAT + ".Arrow.subs", ret_expr(fn.body), "self.upgrade(Functor(ob=lambda x: x, ar=lambda f: f.subs(*args))(self))", {}, mod=CAT, node=fn, sig="arrow-subs")
    fn = m.func(CAT + ".Arrow.lambdify")
    shape.match(ctx, "R14.3", CAT + ".Arrow.lambdify", ret_expr(fn.body),
                "lambda *xs: self.id(self.dom).then(*(box.lambdify(*symbols, **kwargs)(*xs) for box in self.boxes))", {}, mod=CAT, node=fn, sig="arrow-lambdify")
    fn = m.func(CAT + ".Sum.subs")
    unit = next((s.value for s in fn.body if isinstance(s, ast.Assign) and ast.unparse(s.targets[0]) == "unit"), None)
    ctx.need(unit is not None, "Sum.subs does not bind `unit`")
    shape.match(ctx, "R14.3", CAT + ".Sum.subs:unit", unit, "Sum([], self.dom, self.cod)", {}, mod=CAT, node=fn, sig="sum-unit")
    shape.match(ctx, "R14.3", CAT + ".Sum.subs:terms", ret_expr(fn.body[-1:]), "self.upgrade(sum([f.subs(*args) for f in self.terms], unit))", {}, mod=CAT, node=fn, sig="sum-terms")
    fn = m.func("discopy.tensor.Tensor.subs")
    r = ret_expr(fn.body)
    ok_shape = isinstance(r, ast.Call) and ast.unparse(r.func) == "self.map" and len(r.args) == 1 and isinstance(r.args[0], ast.Lambda) and len(r.args[0].args.args) == 1
    ctx.need(ok_shape, "Tensor.subs is not `self.map(lambda x: ...)`")
    lam = r.args[0]
    xv = lam.args.args[0].arg
    inner = lam.body
    okc = isinstance(inner, ast.Call) and isinstance(inner.func, ast.Call) and ast.unparse(inner.func.func) == "getattr" and len(inner.func.args) == 3 and ast.unparse(inner.func.args[0]) == xv and \
        ast.unparse(inner.func.args[1]) == "'subs'" and [ast.unparse(x) for x in inner.args] == ["*" + (fn.args.vararg.arg if fn.args.vararg else "args")]
    ctx.ob("R14.3", "discopy.tensor.Tensor.subs", okc, found=ast.unparse(r), required="entry-wise: each entry's own subs is called with the arguments (so evaluation commutes with substitution on arrays of expressions)",
           mod="discopy.tensor", node=fn, sig="tensor-subs")
    if okc:
        fb = inner.func.args[2]
        own = {x.arg for x in fb.args.args} | ({fb.args.vararg.arg} if isinstance(fb, ast.Lambda) and fb.args.vararg else set()) if isinstance(fb, ast.Lambda) else set()
        okf = isinstance(fb, ast.Lambda) and isinstance(fb.body, ast.Name) and fb.body.id == xv and xv not in own and (fb.args.vararg is not None or len(fb.args.args) >= 2)
        ctx.ob("R14.3", "discopy.tensor.Tensor.subs:fallback", okf, found=ast.unparse(fb), required="an entry without symbols (a plain number) is left as it is: the fallback returns the entry `%s`, whatever it is called with" % xv,
               mod="discopy.tensor", node=fb, sig="tensor-subs-fallback")
    fn = m.func("discopy.tensor.Tensor.map")
    shape.match(ctx, "R14.3", "discopy.tensor.Tensor.map", ret_expr(fn.body), "Tensor(self.dom, self.cod, list(map(func, self.array.flatten())))", {}, mod="discopy.tensor", node=fn,
                sig="tensor-map")
    # the rsubs helper
    fn = m.func(CAT + ".rsubs")
    shape.match(ctx, "R14.3", CAT + ".rsubs", ret_expr(fn.body), "rmap(lambda x: getattr(x, 'subs', lambda *_: x)(*args), data)", {}, mod=CAT, node=fn, sig="rsubs")


def check_closures(ctx):
    """R14.3: the function returned by lambdify can be called any number of times: it does not consume an iterator created outside it"""
    m = ctx.model
    n = 0
    for c in sorted(m.classes.values(), key=lambda c: c.q):
        if "lambdify" not in c.methods or not isinstance(c.methods["lambdify"][0], ast.FunctionDef):
            continue
        fn = c.methods["lambdify"][0]
        once = {}
        for st in fn.body:
            if isinstance(st, ast.Assign) and len(st.targets) == 1 and isinstance(st.targets[0], ast.Name):
                v = st.value
                if isinstance(v, ast.GeneratorExp) or (isinstance(v, ast.Call) and ast.unparse(v.func) in ("map", "zip", "filter", "iter", "enumerate", "reversed")):
                    once[st.targets[0].id] = ast.unparse(v)[:50]
        used = sorted({x.id for inner_ in ast.walk(fn) if isinstance(inner_, (ast.Lambda, ast.FunctionDef)) and inner_ is not fn for x in ast.walk(inner_)
                       if isinstance(x, ast.Name) and x.id in once})
        n += 1
        ctx.ob("R14.3", "%s.lambdify:reusable" % c.q, not used, found=["`%s = %s` is consumed by the first call of the returned function" % (u, once[u]) for u in used] or "the returned function rebuilds what it iterates",
               required="calling the lambdified diagram twice gives the same result (no generator / map / zip object captured from outside)", mod=c.mod, node=fn, sig="lambdify-iterator", trivial=True)
    return n


def check(ctx):
    ctx.rule("R14.1", "reconstruction completeness of every reachable subs/lambdify rebuild (abstract construction + abstract execution per class)")
    ctx.rule("R14.2", "free_symbols provenance: computed from the same data the arrays read; union over boxes; numpy/sympy module choice")
    ctx.rule("R14.4", "a box is handed back unchanged by subs / lambdify only when no substituted symbol occurs in it")
    ctx.attempt(check_early_exits, ctx)
    ctx.rule("R14.3", "diagram-level subs/lambdify rebuild layer by layer with the same whiskers; sums term-wise; tensors entry-wise")
    nc = check_closures(ctx)
    ctx.need(nc >= 6, "fewer than 6 lambdify methods scanned (%d)" % nc)
    ctx.attempt(check_rebuilds, ctx)
    ctx.attempt(check_free_symbols, ctx)
    ctx.attempt(check_diagram_level, ctx)
    ctx.floor("R14.1", 60)
    ctx.floor("R14.2", 13)
    ctx.floor("R14.3", 9)
    ctx.assumptions += ["data parameters are modelled as scalar symbolic expressions (not containers)", "parameters documented as `int or type` are types when not ints"]
    ctx.not_decided += ["numeric commutation of eval and subs on concrete floats (sympy/numpy interplay)"]
