"""Engine B': axis-layout typing of numpy code (block maps of moveaxis index lists, abstract ndarrays)."""
import ast
from .lin import Lin, Facts
from .words import Seq, Seg, Atom, Unlocatable
from .beval import Evaluator, Obj, Box, Closure, Unsupported, Undecided
from .diag import Hom, W

def block_map(ev, comp, env, blocks, var_name=None):
    """comp: ListComp `[<expr> for i in <source>]`; blocks: list of (label, start Lin, width Lin) covering the source range.
    Returns [(label, new_start Lin)] : each block is translated rigidly (i -> i + shift) or raises."""
    g, = comp.generators
    out = []
    for label, start, width in blocks:
        t = Lin.var("t")
        saved = ev.facts
        ev.facts = ev.facts.extend(t, width - t - 1)          # block non-empty, 0 <= t <= width-1
        try:
            e2 = dict(env)
            ev.bind(g.target, start + t, e2)
            img = _eval_forking(ev, comp.elt, e2, label)
        finally:
            ev.facts = saved
        shift = img - (start + t)
        if "t" in shift.vars():
            raise Unlocatable("block %s is not translated rigidly: i -> %r" % (label, img))
        out.append((label, start + shift, width))
    return out


def _eval_forking(ev, expr, env, label, depth=3):
    """value of expr; a test undecided inside the block is split into its two cases, which must agree (otherwise the
    piecewise boundary cuts through the block: not a rigid translation of the block)"""
    from .beval import assume
    try:
        return Lin.of(ev.ev(expr, env))
    except Undecided as u:
        if depth == 0:
            raise
        saved = ev.facts
        vals = []
        for pol in (True, False):
            ev.facts = saved
            assume(ev, u.node, pol, env)
            if ev.facts is saved:
                ev.facts = saved
                raise
            try:
                # an infeasible case (facts contradictory) is skipped
                if _contradictory(ev.facts):
                    continue
                vals.append(_eval_forking(ev, expr, env, label, depth - 1))
            finally:
                ev.facts = saved
        if not vals:
            raise
        if any(v != vals[0] for v in vals[1:]):
            raise Unlocatable("block %s is cut by the boundary `%s`: its two parts are mapped to %s" % (label, ast.unparse(u.node), vals))
        return vals[0]


def _contradictory(facts):
    for f in facts.ge:
        rest = Facts([g for g in facts.ge if g is not f], facts.free)
        if rest.nonneg(-f - 1):
            return True
    return False


def layout_after(blocks_moved, facts):
    """sort moved blocks by their new start; check they tile [0, total) without overlap."""
    order, pos, remaining = [], Lin.of(0), list(blocks_moved)
    while remaining:
        nxt = [b for b in remaining if facts.eq(b[1], pos)]
        empties = [b for b in remaining if facts.zero(b[2])]
        if not nxt:
            if empties:
                remaining = [b for b in remaining if b not in empties]; continue
            raise Unlocatable("blocks do not tile: next position %r, starts %r" % (pos, [(b[0], b[1]) for b in remaining]))
        b = nxt[0]
        order.append(b[0]); pos = pos + b[2]; remaining.remove(b)
    return order


class Arr:
    """abstract ndarray: `axes` is a Seq whose atoms are wire-blocks of the image types."""
    def __init__(self, axes):
        self.axes = axes

    def __repr__(self):
        return "Arr[%r]" % (self.axes,)


class Ev09(Evaluator):
    def __init__(self, facts, where, F):
        super().__init__(facts, where)
        self.F = F
        self.builtins["list"] = lambda x: x
        self.classes["Tensor.np.moveaxis"] = Closure(self.moveaxis)
        self.classes["Tensor.np.tensordot"] = Closure(self.tensordot)
        self.classes["Tensor.id"] = Closure(lambda t: Obj("Tensor", dom=t, cod=t, array=Arr(t + self.prime(t))))
        self.classes["Tensor"] = Closure(lambda dom, cod, array: Obj("Tensor", dom=dom, cod=cod, array=array))
        self.primes = {}

    def prime(self, w):
        out = []
        for p in w.parts:
            a = self.primes.setdefault(id(p.atom), Atom(p.atom.name + "′", p.atom.length))
            out.append(Seg(a, p.lo, p.hi))
        return Seq(out)

    def _len(self, v):
        if isinstance(v, Arr):
            return v.axes.length
        return super()._len(v)

    def getattr(self, v, attr, n=None):
        if isinstance(v, Arr) and attr == "shape":
            return v
        return super().getattr(v, attr, n)

    def e_Call(self, n, env):
        f = self.ev(n.func, env)
        if isinstance(f, Obj) and f.kind == "Functor":
            (a,) = [self.ev(x, env) for x in n.args]
            if isinstance(a, Obj) and a.kind == "Box":
                d, c = self.F(a.f["dom"]), self.F(a.f["cod"])
                bd, bc = Seq([Seg(Atom("box." + p.atom.name, p.atom.length)) for p in d.parts]), Seq([Seg(Atom("box." + p.atom.name, p.atom.length)) for p in c.parts])
                self.box_axes = (bd, bc, d, c)
                return Obj("Tensor", dom=d, cod=c, array=Arr(bd + bc))
            return self.F(a)
        return super().e_Call(n, env)

    def as_range(self, s):
        if isinstance(s, Seq) and len(s.parts) == 1 and isinstance(s.parts[0], Seg) and s.parts[0].atom.name.startswith("range("):
            seg = s.parts[0]
            lo = seg.atom.elem(seg.lo)
            return lo, lo + seg.length
        if isinstance(s, Seq) and not s.parts:
            return Lin.of(0), Lin.of(0)
        raise Unsupported("axis list %r is not a range" % (s,))

    def tensordot(self, a, b, axes):
        (src, tgt) = axes
        s0, s1 = self.as_range(src)
        t0, t1 = self.as_range(tgt)
        if not self.facts.eq(s1 - s0, t1 - t0):
            raise Unlocatable("tensordot contracts %r axes with %r axes" % (s1 - s0, t1 - t0))
        ca, cb = a.axes.slice(s0, s1, self.facts), b.axes.slice(t0, t1, self.facts)
        # the contracted axes of the box array are its dom axes `bd`, which must carry the same wires as the row block
        bd, bc, d, c = self.box_axes
        if not (cb.same(bd, self.facts) and t0 == 0):
            raise Unlocatable("tensordot target %r is not the box's domain axes %r" % (cb, bd))
        if not ca.same(d, self.facts):
            raise Unlocatable("tensordot contracts row axes %r with a box whose domain is %r" % (ca, d))
        rest_b = b.axes.slice(t1, None, self.facts)
        cod_axes = Seq([Seg(self.unbox(p.atom), p.lo, p.hi) for p in rest_b.parts])
        return Arr(a.axes.slice(None, s0, self.facts) + a.axes.slice(s1, None, self.facts) + cod_axes)

    def unbox(self, atom):
        bd, bc, d, c = self.box_axes
        for p, q in zip(bc.parts, c.parts):
            if p.atom is atom:
                return q.atom
        raise Unsupported("unknown box axis %r" % atom)

    def moveaxis(self, a, src, tgt):
        if isinstance(tgt, tuple) and tgt and tgt[0] == "blockmap":
            _, s0, blocks = tgt
            # blocks: [(label, new_start, width)] ; all inside the source range -> permute those blocks in place
            total = sum((w for _, _, w in blocks), Lin.of(0))
            pieces, pos = [], s0
            order = []
            remaining = list(blocks)
            while remaining:
                nxt = [b for b in remaining if self.facts.eq(b[1], pos)] or [b for b in remaining if self.facts.zero(b[2])]
                if not nxt:
                    raise Unlocatable("swap step: moved axes do not tile the source range: %r" % [(l, s) for l, s, _ in remaining])
                b = nxt[0]; remaining.remove(b); order.append(b); pos = pos + b[2]
            out = a.axes.slice(None, s0, self.facts)
            for label, _, width in order:
                st = self.block_src[label]
                out = out + a.axes.slice(st, st + width, self.facts)
            return Arr(out + a.axes.slice(s0 + total, None, self.facts))
        s0, s1 = self.as_range(src)
        t0, t1 = self.as_range(tgt)
        if not self.facts.eq(s1 - s0, t1 - t0):
            raise Unlocatable("moveaxis moves %r axes onto %r positions" % (s1 - s0, t1 - t0))
        moved = a.axes.slice(s0, s1, self.facts)
        rest = a.axes.slice(None, s0, self.facts) + a.axes.slice(s1, None, self.facts)
        return Arr(rest.slice(None, t0, self.facts) + moved + rest.slice(t0, None, self.facts))


