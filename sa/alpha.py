"""Alpha-normalisation of local names.

The rule modules speak about the locals of the analysed functions by the names they have on the tree the rules were confirmed on
(`scan`, `offset`, `start`, ...).  Renaming a local is behaviour-preserving, so it must neither raise an alarm nor break the analysis.
`canonicalise` renames the locals of every function of a parsed module back to the names recorded in `locals_table.json` when — and only
when — the function binds the same number of locals in the same order (position of first binding) and the renaming is capture-free.
The renaming is an alpha-conversion of the program under analysis: whatever is then decided is decided about an equivalent program.
Functions whose binding structure changed are left alone (the rules then see the source as it is).

Scope keys: `Class.method` / `function` for named scopes of a module (their names are API), `parent/#k` for the k-th function nested in
`parent` (nested functions are locals: they are matched by position and their names are part of the parent's binding list)."""
import ast
import json
import os

TABLE = os.path.join(os.path.dirname(os.path.abspath(__file__)), "locals_table.json")
SCOPES = (ast.FunctionDef, ast.AsyncFunctionDef, ast.Lambda, ast.ClassDef, ast.ListComp, ast.SetComp, ast.DictComp, ast.GeneratorExp)


def params_of(fn):
    a = fn.args
    out = [x.arg for x in a.posonlyargs + a.args + a.kwonlyargs]
    if a.vararg:
        out.append(a.vararg.arg)
    if a.kwarg:
        out.append(a.kwarg.arg)
    return out


def own_nodes(fn):
    """nodes of the function's own scope: nested scopes are not entered (but the nested def / class statement itself is yielded)"""
    todo = list(fn.body) if isinstance(fn.body, list) else [fn.body]
    while todo:
        n = todo.pop()
        yield n
        if isinstance(n, SCOPES):
            if isinstance(n, (ast.ListComp, ast.SetComp, ast.DictComp, ast.GeneratorExp)):
                todo.append(n.generators[0].iter)          # evaluated in the enclosing scope
            if isinstance(n, (ast.FunctionDef, ast.AsyncFunctionDef)):
                todo.extend(n.decorator_list)
                todo.extend(d for d in n.args.defaults + n.args.kw_defaults if d is not None)
            continue
        todo.extend(ast.iter_child_nodes(n))


def bindings(fn):
    """locals of a function in order of first binding (params, global / nonlocal names excluded)"""
    params = set(params_of(fn))
    declared, found = set(), {}
    for n in own_nodes(fn):
        if isinstance(n, (ast.Global, ast.Nonlocal)):
            declared.update(n.names)
        name, pos = None, None
        if isinstance(n, ast.Name) and isinstance(n.ctx, (ast.Store, ast.Del)):
            name, pos = n.id, (n.lineno, n.col_offset)
        elif isinstance(n, (ast.FunctionDef, ast.AsyncFunctionDef, ast.ClassDef)):
            name, pos = n.name, (n.lineno, n.col_offset)
        elif isinstance(n, ast.ExceptHandler) and n.name:
            name, pos = n.name, (n.lineno, n.col_offset)
        elif isinstance(n, ast.alias):
            name, pos = (n.asname or n.name.split(".")[0]), (getattr(n, "lineno", 0), getattr(n, "col_offset", 0))
        if name is not None and (name not in found or pos < found[name]):
            found[name] = pos
    return [k for k, _ in sorted(found.items(), key=lambda kv: kv[1]) if k not in params and k not in declared]


def nested_defs(node):
    out = [n for n in own_nodes(node) if isinstance(n, (ast.FunctionDef, ast.AsyncFunctionDef, ast.ClassDef))]
    return sorted(out, key=lambda n: (n.lineno, n.col_offset))


def scopes(tree):
    """(key, FunctionDef) for every function of a module, outer scopes first"""
    out = []

    def rec(node, key, named):
        k = 0
        for n in nested_defs(node):
            if named:
                nk = (key + "." if key else "") + n.name
            else:
                nk = "%s/#%d" % (key, k)
                k += 1
            if isinstance(n, ast.ClassDef):
                rec(n, nk, named)
            else:
                out.append((nk, n))
                rec(n, nk, False)
    rec(tree, "", True)
    return out


def names_of(key, fn):
    """the names of a scope that may be renamed freely: its locals, and for a nested function (a local of its parent) also its parameters"""
    return (params_of(fn) if "/#" in key else []) + bindings(fn)


def table_of(tree):
    return {k: names_of(k, fn) for k, fn in scopes(tree)}


class _Rename(ast.NodeTransformer):
    """rename free occurrences of the mapped names inside one function, respecting shadowing in nested scopes"""
    def __init__(self, mapping):
        self.mapping = mapping

    def _shadowed(self, node):
        if isinstance(node, (ast.FunctionDef, ast.AsyncFunctionDef, ast.Lambda)):
            bound = set(params_of(node))
            if not isinstance(node, ast.Lambda):
                bound |= set(bindings(node))
            return bound
        if isinstance(node, ast.ClassDef):
            return {n.id for st in node.body for n in ast.walk(st) if isinstance(n, ast.Name) and isinstance(n.ctx, ast.Store)} | \
                {st.name for st in node.body if isinstance(st, (ast.FunctionDef, ast.ClassDef))}
        bound = set()
        for g in node.generators:
            bound |= {n.id for n in ast.walk(g.target) if isinstance(n, ast.Name)}
        return bound

    def visit_Name(self, n):
        if n.id in self.mapping:
            n.id = self.mapping[n.id]
        return n

    def visit_alias(self, n):
        cur = n.asname or n.name.split(".")[0]
        if cur in self.mapping and (n.asname or "." not in n.name):
            n.asname = self.mapping[cur]
        return n

    def visit_ExceptHandler(self, n):
        if n.name in self.mapping:
            n.name = self.mapping[n.name]
        self.generic_visit(n)
        return n

    def _scope(self, node):
        inner = {k: v for k, v in self.mapping.items() if k not in self._shadowed(node)}
        if isinstance(node, (ast.FunctionDef, ast.AsyncFunctionDef, ast.ClassDef)) and node.name in self.mapping:
            node.name = self.mapping[node.name]
        sub = _Rename(inner)
        if isinstance(node, (ast.ListComp, ast.SetComp, ast.DictComp, ast.GeneratorExp)):
            node.generators[0].iter = self.visit(node.generators[0].iter)          # enclosing scope
            for i, g in enumerate(node.generators):
                g.target = sub.visit(g.target)
                if i:
                    g.iter = sub.visit(g.iter)
                g.ifs = [sub.visit(x) for x in g.ifs]
            if isinstance(node, ast.DictComp):
                node.key, node.value = sub.visit(node.key), sub.visit(node.value)
            else:
                node.elt = sub.visit(node.elt)
            return node
        if isinstance(node, (ast.FunctionDef, ast.AsyncFunctionDef)):
            node.decorator_list = [self.visit(d) for d in node.decorator_list]
            node.args.defaults = [self.visit(d) for d in node.args.defaults]
            node.args.kw_defaults = [self.visit(d) if d is not None else None for d in node.args.kw_defaults]
            node.body = [sub.visit(b) for b in node.body]
            return node
        if isinstance(node, ast.Lambda):
            node.args.defaults = [self.visit(d) for d in node.args.defaults]
            node.body = sub.visit(node.body)
            return node
        node.body = [sub.visit(b) for b in node.body]          # class body
        return node

    visit_FunctionDef = visit_AsyncFunctionDef = visit_Lambda = visit_ClassDef = _scope
    visit_ListComp = visit_SetComp = visit_DictComp = visit_GeneratorExp = _scope


def free_names(scope):
    """names a scope refers to without binding them (globals, builtins, variables of enclosing scopes)"""
    if isinstance(scope, (ast.ListComp, ast.SetComp, ast.DictComp, ast.GeneratorExp)):
        bound = {n.id for g in scope.generators for n in ast.walk(g.target) if isinstance(n, ast.Name)}
        parts = [g.iter for g in scope.generators[1:]] + [x for g in scope.generators for x in g.ifs] + \
            ([scope.key, scope.value] if isinstance(scope, ast.DictComp) else [scope.elt])
        holder = ast.Module(body=[ast.Expr(value=p) for p in parts], type_ignores=[])
    elif isinstance(scope, ast.Lambda):
        bound = set(params_of(scope))
        holder = ast.Module(body=[ast.Expr(value=scope.body)], type_ignores=[])
    elif isinstance(scope, ast.ClassDef):
        bound = {n.id for st in scope.body for n in ast.walk(st) if isinstance(n, ast.Name) and isinstance(n.ctx, ast.Store)}
        holder = scope
    else:
        bound = set(params_of(scope)) | set(bindings(scope))
        holder = scope
    used = set()
    for n in own_nodes(holder):
        if isinstance(n, ast.Name):
            used.add(n.id)
        elif isinstance(n, SCOPES):
            used |= free_names(n)
    return used - bound


def load_table():
    if not os.path.exists(TABLE):
        return {}
    return json.load(open(TABLE))


def canonicalise(tree, expected):
    """rename locals back to the recorded names where the binding structure is unchanged; returns the list of (scope, renaming) applied"""
    applied = []
    for key, fn in scopes(tree):
        exp = expected.get(key)
        cur = names_of(key, fn)
        if not exp or cur == exp or len(cur) != len(exp):
            continue
        nested = "/#" in key
        if nested and len(params_of(fn)) != len([e for e in exp[:len(params_of(fn))]]):
            continue
        # names that are still there keep their meaning whatever the order of their first binding; only the names that disappeared are matched, in order, with the new ones
        new_names, gone = [c for c in cur if c not in exp], [e for e in exp if e not in cur]
        if len(new_names) != len(gone) or not gone:
            continue
        if nested and any((c in params_of(fn)) != (e in exp[:len(params_of(fn))]) for c, e in zip(new_names, gone)):
            continue
        mapping = dict(zip(new_names, gone))
        # capture check: a target name must not already mean something else inside the function
        taken = free_names(fn) | (set() if nested else set(params_of(fn)))
        if any(e in taken for e in mapping.values()) or len(set(exp)) != len(exp):
            continue
        # simultaneous renaming (a -> b, b -> a) through the transformer on a single pass
        r = _Rename(mapping)
        fn.body = [r.visit(b) for b in fn.body]
        if nested:
            a = fn.args
            for x in a.posonlyargs + a.args + a.kwonlyargs + ([a.vararg] if a.vararg else []) + ([a.kwarg] if a.kwarg else []):
                if x.arg in mapping:
                    x.arg = mapping[x.arg]
        applied.append((key, mapping))
    return applied


# ---------------------------------------------------------------------------------------------------------------------
# statements without effect on values
# ---------------------------------------------------------------------------------------------------------------------
NOISE_CALLS = ("print", "warnings.warn", "warn", "logging.debug", "logging.info", "logging.warning", "logger.debug", "logger.info", "logger.warning", "log.debug", "log.info")


def is_noise(st):
    """`pass`, `assert ...` (the code after it runs only when it holds; nothing is bound) and print / logging calls"""
    if isinstance(st, (ast.Pass, ast.Assert)):
        return True
    return isinstance(st, ast.Expr) and isinstance(st.value, ast.Call) and ast.unparse(st.value.func) in NOISE_CALLS


def strip_noise(tree):
    """remove statements that cannot change any value the rules talk about (in place); returns how many were removed"""
    n = 0
    for node in ast.walk(tree):
        for field in ("body", "orelse", "finalbody"):
            body = getattr(node, field, None)
            if isinstance(body, list) and body and all(isinstance(s, ast.stmt) for s in body):
                kept = [s for s in body if not is_noise(s)]
                if len(kept) != len(body):
                    n += len(body) - len(kept)
                    if not kept and field == "body":
                        kept = [s for s in body if isinstance(s, ast.Pass)][:1] or [ast.copy_location(ast.Pass(), body[0])]
                        n -= 1
                    setattr(node, field, kept)
    return n


# ---------------------------------------------------------------------------------------------------------------------
# explaining variables introduced since the rules were confirmed
# ---------------------------------------------------------------------------------------------------------------------
MUTATORS = ("append", "extend", "insert", "pop", "remove", "update", "add", "clear", "setdefault", "sort", "reverse", "rename_units", "add_bit", "add_vertex", "add_edge", "add_node")


def _pure_looking(e):
    return not any(isinstance(c, ast.Call) and isinstance(c.func, ast.Attribute) and c.func.attr in MUTATORS for c in ast.walk(e)) and \
        not any(isinstance(c, (ast.Yield, ast.YieldFrom, ast.Await, ast.NamedExpr)) for c in ast.walk(e))


class _Subst(ast.NodeTransformer):
    def __init__(self, name, value):
        self.name, self.value, self.n = name, value, 0

    def visit_Name(self, n):
        if n.id == self.name and isinstance(n.ctx, ast.Load):
            self.n += 1
            return self.value
        return n

    def visit_Lambda(self, n):
        return n            # a use inside a closure is evaluated later: never inlined into

    visit_FunctionDef = visit_ListComp = visit_GeneratorExp = visit_SetComp = visit_DictComp = visit_Lambda


def _mutated_through(fn, t):
    from .helpers import mutated_through
    return mutated_through(fn, t)


def inline_new_temps(tree, expected):
    """a local that the recorded naming does not know, assigned once (`t = E`, E free of mutating calls) and read exactly once, in the
    statement that follows, is an explaining variable: it is substituted back (in place).  Returns the names removed."""
    removed = []
    for key, fn in scopes(tree):
        exp = expected.get(key)
        if exp is None:
            continue
        new = [b for b in bindings(fn) if b not in exp]
        if not new:
            continue
        for blk_owner in [fn] + [n for n in own_nodes(fn) if not isinstance(n, SCOPES)]:
            for field in ("body", "orelse", "finalbody"):
                body = getattr(blk_owner, field, None)
                if not (isinstance(body, list) and body and all(isinstance(s, ast.stmt) for s in body)):
                    continue
                i = 0
                while i + 1 < len(body):
                    st = body[i]
                    if isinstance(st, ast.Assign) and len(st.targets) == 1 and isinstance(st.targets[0], ast.Name) and st.targets[0].id in new and _pure_looking(st.value):
                        t = st.targets[0].id
                        own = list(own_nodes(fn))
                        stores = sum(1 for n in own if isinstance(n, ast.Name) and n.id == t and isinstance(n.ctx, (ast.Store, ast.Del)))
                        loads = sum(1 for n in own if isinstance(n, ast.Name) and n.id == t and isinstance(n.ctx, ast.Load))
                        # read by a nested scope (closure): not an explaining variable
                        if any(t in free_names(n) for n in own if isinstance(n, SCOPES)):
                            loads += 1
                        nxt = body[i + 1]
                        if stores == 1 and loads == 1 and not _mutated_through(fn, t) and not isinstance(nxt, (ast.For, ast.While, ast.FunctionDef, ast.ClassDef, ast.With, ast.Try)):
                            sub = _Subst(t, st.value)
                            if isinstance(nxt, ast.If):
                                nxt.test = sub.visit(nxt.test)
                                done = sub.n == 1
                            else:
                                new_nxt = sub.visit(nxt)
                                done = sub.n == 1
                                body[i + 1] = new_nxt
                            if done:
                                del body[i]
                                removed.append("%s:%s" % (key, t))
                                continue
                    i += 1
    return removed


# ---------------------------------------------------------------------------------------------------------------------
# one assignment per statement
# ---------------------------------------------------------------------------------------------------------------------
def split_tuple_assigns(tree):
    """`a, b = E1, E2` becomes `a = E1; b = E2` when no right-hand side reads a target (then the two forms are equivalent): the rules see one
    binding per statement whichever way the source is written.  Returns the number of statements split."""
    n = 0
    for node in ast.walk(tree):
        for field in ("body", "orelse", "finalbody"):
            body = getattr(node, field, None)
            if not (isinstance(body, list) and body and all(isinstance(s, ast.stmt) for s in body)):
                continue
            new = []
            for st in body:
                if isinstance(st, ast.Assign) and len(st.targets) == 1 and isinstance(st.targets[0], ast.Tuple) and isinstance(st.value, ast.Tuple) \
                        and len(st.targets[0].elts) == len(st.value.elts) and all(isinstance(t, ast.Name) for t in st.targets[0].elts) \
                        and not any(isinstance(v, ast.Starred) for v in st.value.elts):
                    tn = {t.id for t in st.targets[0].elts}
                    used = {x.id for v in st.value.elts for x in ast.walk(v) if isinstance(x, ast.Name)}
                    if not (tn & used):
                        for t, v in zip(st.targets[0].elts, st.value.elts):
                            new.append(ast.copy_location(ast.Assign(targets=[t], value=v, lineno=t.lineno), t))
                        n += 1
                        continue
                new.append(st)
            setattr(node, field, new)
    return n


# ---------------------------------------------------------------------------------------------------------------------
# polarity of two-way branches
# ---------------------------------------------------------------------------------------------------------------------
class _Polarity(ast.NodeTransformer):
    """`if not c: A else: B` -> `if c: B else: A` (plain else only, elif chains keep their order) and `a if not c else b` -> `b if c else a`:
    the same program, with one polarity for the rules to read"""
    def __init__(self):
        self.n = 0

    @staticmethod
    def _dd(test):
        """`not not c` in a truth-value context is `c`"""
        while isinstance(test, ast.UnaryOp) and isinstance(test.op, ast.Not) and isinstance(test.operand, ast.UnaryOp) and isinstance(test.operand.op, ast.Not):
            test = test.operand.operand
        return test

    def visit_While(self, node):
        self.generic_visit(node)
        node.test = self._dd(node.test)
        return node

    def visit_If(self, node):
        self.generic_visit(node)
        node.test = self._dd(node.test)
        while node.orelse and not (len(node.orelse) == 1 and isinstance(node.orelse[0], ast.If)) and isinstance(node.test, ast.UnaryOp) and isinstance(node.test.op, ast.Not):
            node.test, node.body, node.orelse = node.test.operand, node.orelse, node.body
            self.n += 1
        return node

    def visit_IfExp(self, node):
        self.generic_visit(node)
        node.test = self._dd(node.test)
        while isinstance(node.test, ast.UnaryOp) and isinstance(node.test.op, ast.Not):
            node.test, node.body, node.orelse = node.test.operand, node.orelse, node.body
            self.n += 1
        return node


def normalise_polarity(tree):
    p = _Polarity()
    p.visit(tree)
    return p.n


# ---------------------------------------------------------------------------------------------------------------------
# orientation of == / != (a == b and b == a are the same test: equality is symmetric for every value the package compares)
# ---------------------------------------------------------------------------------------------------------------------
CMP_TABLE = os.path.join(os.path.dirname(os.path.abspath(__file__)), "compare_table.json")


def _cmp_key(op, l, r):
    return "%s|%s|%s" % (type(op).__name__, ast.dump(l), ast.dump(r))


MIRROR = {ast.Eq: ast.Eq, ast.NotEq: ast.NotEq, ast.Lt: ast.Gt, ast.Gt: ast.Lt, ast.LtE: ast.GtE, ast.GtE: ast.LtE}


def compare_table_of(tree):
    """the two-operand comparisons (== != < <= > >=) of a module in the orientation they are written in (operands without positions)"""
    return sorted({_cmp_key(n.ops[0], n.left, n.comparators[0]) for n in ast.walk(tree)
                   if isinstance(n, ast.Compare) and len(n.ops) == 1 and type(n.ops[0]) in MIRROR})


def load_compare_table():
    if not os.path.exists(CMP_TABLE):
        return {}
    return {k: set(v) for k, v in json.load(open(CMP_TABLE)).items()}


def orient_comparisons(tree, recorded):
    """a comparison written the other way round than when the rules were confirmed is turned back (only when that orientation was recorded and this one was not)"""
    n = 0
    for c in ast.walk(tree):
        if isinstance(c, ast.Compare) and len(c.ops) == 1 and type(c.ops[0]) in MIRROR:
            mirror = MIRROR[type(c.ops[0])]()
            here, there = _cmp_key(c.ops[0], c.left, c.comparators[0]), _cmp_key(mirror, c.comparators[0], c.left)
            if here not in recorded and there in recorded:
                c.left, c.comparators, c.ops = c.comparators[0], [c.left], [mirror]            # a < b is b > a
                n += 1
    return n


# ---------------------------------------------------------------------------------------------------------------------
# a two-way `if` that only chooses the value of one name is the conditional expression
# ---------------------------------------------------------------------------------------------------------------------
def merge_conditional_assignments(tree):
    """if c: x = a  else: x = b   ->   x = a if c else b   (one plain name on both sides, nothing else in the branches); returns how many were merged"""
    n = 0
    for node in ast.walk(tree):
        for field in ("body", "orelse", "finalbody"):
            body = getattr(node, field, None)
            if not (isinstance(body, list) and body and all(isinstance(s, ast.stmt) for s in body)):
                continue
            if field == "orelse" and isinstance(node, ast.If) and len(body) == 1:
                continue                      # the last arm of an elif chain stays an arm of the chain
            for k, st in enumerate(body):
                if isinstance(st, ast.If) and len(st.body) == 1 and len(st.orelse) == 1 and all(
                        isinstance(b, ast.Assign) and len(b.targets) == 1 and isinstance(b.targets[0], (ast.Name, ast.Subscript, ast.Attribute)) for b in (st.body[0], st.orelse[0])) \
                        and ast.dump(st.body[0].targets[0]) == ast.dump(st.orelse[0].targets[0]):
                    new = ast.Assign(targets=[st.body[0].targets[0]], value=ast.IfExp(test=st.test, body=st.body[0].value, orelse=st.orelse[0].value))
                    ast.copy_location(new, st)
                    ast.fix_missing_locations(new)
                    body[k] = new
                    n += 1
    return n


# ---------------------------------------------------------------------------------------------------------------------
# the else of a branch that always leaves is the rest of the block
# ---------------------------------------------------------------------------------------------------------------------
def unnest_else_after_leave(tree):
    """A two-way `if` (not an arm of an elif chain) one of whose branches always leaves (return / raise / continue / break) is a guard followed by the rest:
         if c: LEAVE  else: REST          ->  if c: LEAVE ;  REST
         if c: REST   else: LEAVE         ->  if not c: LEAVE ;  REST          (REST does not leave)
    When both branches leave: a branch that is a single `raise` is the guard; two one-statement branches are read under the un-negated test; otherwise the body is the guard.
    The result does not depend on which of the equivalent ways (negated or not, with or without the else) the source uses.  Returns how many were rewritten."""
    def leaves(body):
        return bool(body) and isinstance(body[-1], (ast.Return, ast.Raise, ast.Continue, ast.Break))

    def only_raise(body):
        return len(body) == 1 and isinstance(body[0], ast.Raise)

    def neg(t):
        if isinstance(t, ast.UnaryOp) and isinstance(t.op, ast.Not):
            return t.operand
        return ast.copy_location(ast.UnaryOp(op=ast.Not(), operand=t), t)
    n = 0
    for node in ast.walk(tree):
        for field in ("body", "orelse", "finalbody"):
            body = getattr(node, field, None)
            if not (isinstance(body, list) and body and all(isinstance(s, ast.stmt) for s in body)):
                continue
            if field == "orelse" and isinstance(node, ast.If) and len(body) == 1:
                continue                      # the last arm of an elif chain stays an arm of the chain
            new = []
            for st in body:
                if isinstance(st, ast.If) and st.orelse and not (len(st.orelse) == 1 and isinstance(st.orelse[0], ast.If)) and (leaves(st.body) or leaves(st.orelse)):
                    lb, lo = leaves(st.body), leaves(st.orelse)
                    negated = isinstance(st.test, ast.UnaryOp) and isinstance(st.test.op, ast.Not)
                    if lb and lo:
                        if only_raise(st.body) != only_raise(st.orelse):
                            swap = only_raise(st.orelse)
                        else:
                            swap = negated and len(st.body) == len(st.orelse) == 1
                    else:
                        swap = lo
                    if swap:
                        st.body, st.orelse, st.test = st.orelse, st.body, neg(st.test)
                    rest, st.orelse = st.orelse, []
                    new.append(st)
                    new.extend(rest)
                    n += 1
                else:
                    new.append(st)
            if len(new) != len(body):
                setattr(node, field, new)
    return n


# ---------------------------------------------------------------------------------------------------------------------
# for i, _ in enumerate(X)  and  for i in range(len(X))  visit the same indices
# ---------------------------------------------------------------------------------------------------------------------
LOOP_TABLE = os.path.join(os.path.dirname(os.path.abspath(__file__)), "loop_table.json")


def _loop_twin(target, it):
    """the other way of writing an index loop: (target, iter) or None"""
    if isinstance(target, ast.Tuple) and len(target.elts) == 2 and isinstance(target.elts[1], ast.Name) and target.elts[1].id == "_" \
            and isinstance(it, ast.Call) and isinstance(it.func, ast.Name) and it.func.id == "enumerate" and len(it.args) == 1 and not it.keywords:
        return target.elts[0], ast.Call(func=ast.Name(id="range", ctx=ast.Load()), args=[ast.Call(func=ast.Name(id="len", ctx=ast.Load()), args=[it.args[0]], keywords=[])], keywords=[])
    if isinstance(target, ast.Name) and isinstance(it, ast.Call) and isinstance(it.func, ast.Name) and it.func.id == "range" and len(it.args) == 1 and not it.keywords \
            and isinstance(it.args[0], ast.Call) and isinstance(it.args[0].func, ast.Name) and it.args[0].func.id == "len" and len(it.args[0].args) == 1:
        return ast.Tuple(elts=[target, ast.Name(id="_", ctx=ast.Store())], ctx=ast.Store()), ast.Call(func=ast.Name(id="enumerate", ctx=ast.Load()), args=[it.args[0].args[0]], keywords=[])
    return None


def _loop_key(target, it):
    return ast.dump(target) + "|" + ast.dump(it)


def _loops(tree):
    for n in ast.walk(tree):
        if isinstance(n, ast.For):
            yield n, "target", "iter"
        elif isinstance(n, ast.comprehension):
            yield n, "target", "iter"


def _kind(n):
    return "for:" if isinstance(n, ast.For) else "in:"


def loop_table_of(tree):
    return sorted({_kind(n) + _loop_key(getattr(n, a), getattr(n, b)) for n, a, b in _loops(tree) if _loop_twin(getattr(n, a), getattr(n, b)) is not None})


def load_loop_table():
    if not os.path.exists(LOOP_TABLE):
        return {}
    return {k: set(v) for k, v in json.load(open(LOOP_TABLE)).items()}


def restore_index_loops(tree, recorded):
    n = 0
    for node, a, b in _loops(tree):
        tw = _loop_twin(getattr(node, a), getattr(node, b))
        if tw is None or _kind(node) + _loop_key(getattr(node, a), getattr(node, b)) in recorded:
            continue
        if _kind(node) + _loop_key(*tw) in recorded and not (isinstance(tw[0], ast.Tuple) and any(isinstance(x, ast.Name) and x.id == "_" and isinstance(x.ctx, ast.Load) for x in ast.walk(node))):
            setattr(node, a, tw[0])
            setattr(node, b, tw[1])
            ast.fix_missing_locations(node) if hasattr(node, "lineno") else None
            n += 1
    return n


# ---------------------------------------------------------------------------------------------------------------------
# f'...{a}...'  is  '...{}...'.format(a)
# ---------------------------------------------------------------------------------------------------------------------
class _FStrings(ast.NodeTransformer):
    def __init__(self):
        self.n = 0

    def visit_JoinedStr(self, node):
        self.generic_visit(node)
        tmpl, args = "", []
        for v in node.values:
            if isinstance(v, ast.Constant) and isinstance(v.value, str):
                tmpl += v.value.replace("{", "{{").replace("}", "}}")
            elif isinstance(v, ast.FormattedValue) and v.format_spec is None and v.conversion in (-1, 114, 115):
                tmpl += "{}"
                e = v.value
                if v.conversion in (114, 115):
                    e = ast.Call(func=ast.Name(id="repr" if v.conversion == 114 else "str", ctx=ast.Load()), args=[e], keywords=[])
                args.append(e)
            else:
                return node
        self.n += 1
        new = ast.Call(func=ast.Attribute(value=ast.Constant(value=tmpl), attr="format", ctx=ast.Load()), args=args, keywords=[])
        return ast.fix_missing_locations(ast.copy_location(new, node))


def fstrings_to_format(tree):
    t = _FStrings()
    t.visit(tree)
    return t.n
