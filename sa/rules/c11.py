"""C11 — pure circuits evaluate to the unitary they describe (R11.1–R11.5; engines A, C′, E)."""
import ast
import warnings
import numpy as np
from ..core import AnalysisError
from ..tables import Fold, fold, run_body, as_matrix, NotFoldable, REF_CONST, REF_ROT, SAMPLES, close, ctrl, NumMod
from ..objsim import explore, Inst, RaisesError, Unsupported as SimUnsupported, Sym, mk
from ..generic import instances
from .. import shape
from .c09 import check_flag_discipline, classify_reader, array_readers

EXPLANATION = (
    "The gate tables of quantum/gates.py are literal data: each module-level QuantumGate(name, n, array, _dagger) is constant-folded "
    "from the syntax tree (whitelisted numeric vocabulary, no discopy code is run) and, read in the [in, out] order in which "
    "Tensor/Functor interpret box arrays, must equal the matrix of the tket operation of that name; the closed-form `array` "
    "properties of Rx, Ry, Rz, CU1, CRz, CRx are folded as functions of the phase and compared with exp(-iπφG) / the controlled "
    "versions (phases in full turns) on 13 sample phases, which decides equality of trigonometric polynomials of degree <= 4. "
    "Controlled builds |0><0|⊗1 + |1><1|⊗U from the target's array. `_dagger=None` (self-adjoint) appears only on Hermitian "
    "tables. Dagger soundness: for rotations the dagger negates the phase (abstract execution) and M(-φ) = M(φ)† on the closed form; "
    "for gates that take their dagger by toggling a flag and keeping the array, every reader of `.array` handles the flag first. "
    "Kets, bras and bits are the basis tensors of their bitstring. With C09 (evaluation is the layer-by-layer composite) and C08 "
    "(Tensor algebra) this gives: a pure circuit evaluates to the ordered product of its gates, and dagger to the conjugate "
    "transpose. rewire's index arithmetic is folded for all (a, b, width) up to a bound. Not decided: floating-point error.")

GATES, CIRC = "discopy.quantum.gates", "discopy.quantum.circuit"
G = GATES


def ret_expr(body):
    for st in body:
        if isinstance(st, ast.Return):
            return st.value
    return None


def check_tables(ctx):
    m = ctx.model
    tree = m.modules[GATES]
    n = 0
    for st in tree.body:
        if not (isinstance(st, ast.Assign) and isinstance(st.value, ast.Call) and ast.unparse(st.value.func) == "QuantumGate"):
            continue
        var = ast.unparse(st.targets[0])
        c = st.value
        try:
            name = fold(c.args[0])
            nq = fold(c.args[1])
            arr = fold(c.args[2])
            dag = False
            for k in c.keywords:
                if k.arg == "_dagger":
                    dag = fold(k.value)
            M = as_matrix(arr)
        except NotFoldable as e:
            raise AnalysisError("gate table %s outside the foldable vocabulary: %s" % (var, e))
        n += 1
        if name not in REF_CONST:
            ctx.notes.append("gate table %s (%r): no tket reference in the checker; not compared" % (var, name))
            continue
        ok = M.shape == (2 ** nq, 2 ** nq) and close(M, REF_CONST[name])
        note = ""
        if not ok and close(M.T, REF_CONST[name]):
            note = "the table equals the transpose of the reference: it is written [out, in] but arrays are read [in, out]"
        ctx.ob("R11.1", "%s.%s" % (GATES, var), ok, found=np.round(M, 4).tolist(), required=np.round(REF_CONST[name], 4).tolist(), mod=GATES, node=st, sig="table-" + name,
               note=note or "matrix M[out, in] of the tket operation %s" % name)
        herm = close(M, M.conj().T)
        ctx.ob("R11.2", "%s.%s:_dagger" % (GATES, var), (dag is not None) or herm, found="_dagger=%r, Hermitian=%s" % (dag, herm), required="_dagger=None only on Hermitian tables", mod=GATES,
               node=st, sig="hermitian-" + name, trivial=dag is not None)
    ctx.need(n >= 7, "fewer than 7 literal gate tables found in gates.py (%d)" % n)
    # CX = Controlled(X)
    cx = next((s for s in tree.body if isinstance(s, ast.Assign) and ast.unparse(s.targets[0]) == "CX"), None)
    ctx.ob("R11.1", GATES + ".CX", cx is not None and ast.unparse(cx.value) == "Controlled(X)", found=ast.unparse(cx.value) if cx else None, required="CX = Controlled(X)", mod=GATES,
           node=cx, sig="cx")
    # Controlled.__init__ builds diag(1, U) from the target's array
    fn = m.func(GATES + ".Controlled.__init__")
    ctx.analysed(GATES + ".Controlled.__init__")
    U = np.array([[0.3 + 0.1j, 0.7], [-0.2j, 0.5 - 0.4j]])           # a generic (non-symmetric) target, as stored [in, out]
    env = {"numpy": NumMod, "controlled_array": U, "complex": complex, "float": float}
    arr = None
    try:
        local = {}
        for s in fn.body:
            if isinstance(s, ast.Assign) and isinstance(s.targets[0], ast.Name) and s.targets[0].id == "array":
                local["array"] = fold(s.value, env)
            elif isinstance(s, ast.Assign) and isinstance(s.targets[0], ast.Subscript) and ast.unparse(s.targets[0].value) == "array":
                sl = s.targets[0].slice
                idx = tuple(slice(fold(d.lower) if d.lower else None, fold(d.upper) if d.upper else None) for d in sl.elts) if isinstance(sl, ast.Tuple) else None
                ctx.need(idx is not None and "array" in local, "Controlled.__init__: unrecognised block assignment %s" % ast.unparse(s))
                src = ast.unparse(s.value)
                val = fold(s.value, env) if "controlled" not in src else U
                with warnings.catch_warnings():
                    warnings.simplefilter("ignore")          # a complex block written into a real array loses its imaginary part: the comparison below reports it
                    local["array"][idx] = val
                if "controlled" in src:
                    local["_target_expr"] = s.value
        arr = local.get("array")
    except NotFoldable as e:
        raise AnalysisError("Controlled.__init__ outside the foldable vocabulary: %s" % e)
    ctx.need(arr is not None, "Controlled.__init__ does not build `array`")
    ok = close(arr.reshape(4, 4), ctrl(U.T).T)          # in [in, out] order: diag(1, U[in, out])
    ctx.ob("R11.1", GATES + ".Controlled.__init__:blocks", ok, found=np.round(arr, 3).tolist(), required="|0><0| ⊗ 1 + |1><1| ⊗ U in [in, out] order", mod=GATES, node=fn, sig="controlled-blocks")
    # a daggered target keeps the array of the gate it is the dagger of (flag style): the block must be the adjoint of that array
    te = local.get("_target_expr")
    if isinstance(te, ast.IfExp):
        cp = fn.args.args[1].arg
        t = te.test
        neg = isinstance(t, ast.UnaryOp) and isinstance(t.op, ast.Not)
        flag_test = ast.unparse(t.operand if neg else t) in (cp + ".is_dagger", cp + "._dagger")
        plain, dag = (te.body, te.orelse) if neg else (te.orelse, te.body)
        V = np.array([[0.2 - 0.5j, 0.9j], [0.4, -0.3 + 0.6j]])
        try:
            got = Fold({cp + ".dagger().array": V, cp + ".array": V, "numpy": NumMod}).visit(dag)
            okd = flag_test and ast.unparse(plain) == cp + ".array" and isinstance(got, np.ndarray) and close(got, V.conj().T)
            found = "daggered target: %s evaluates to %s of the undaggered array" % (ast.unparse(dag), "the adjoint" if isinstance(got, np.ndarray) and close(got, V.conj().T) else
                                                                                      "the transpose" if isinstance(got, np.ndarray) and close(got, V.T) else "the conjugate" if isinstance(got, np.ndarray) and close(got, V.conj()) else "something else")
        except NotFoldable as e:
            raise AnalysisError("Controlled.__init__: the block of a daggered target is outside the foldable vocabulary: %s" % e)
        ctx.ob("R11.3", GATES + ".Controlled.__init__:daggered-target", okd, found=found, required="the conjugate transpose of the array of the gate the target is the dagger of", mod=GATES, node=te, sig="controlled-dagger-block")
        # the block already is the adjoint for a daggered target: the controlled gate itself must not be flagged as a dagger as well, and its dagger
        # is the controlled dagger of the target (not a flag flip on the same array)
        sup = next((c for c in ast.walk(fn) if isinstance(c, ast.Call) and ast.unparse(c.func) == "super().__init__"), None)
        ctx.need(sup is not None, "Controlled.__init__ does not call super().__init__")
        flagkw = [ast.unparse(k.value) for k in sup.keywords if k.arg == "_dagger"] + [ast.unparse(a) for a in sup.args[4:5]]
        ctx.ob("R11.3", GATES + ".Controlled.__init__:own-flag", all(v in ("False", "None") for v in flagkw), found="super().__init__(..., _dagger=%s)" % flagkw[0] if flagkw else "no dagger flag passed",
               required="the controlled gate is built undaggered: its array already contains the adjoint block of a daggered target", mod=GATES, node=sup, sig="controlled-own-flag")
        C = m.cls(GATES + ".Controlled")
        dg = C.methods.get("dagger")
        okdg = dg is not None and shape.key(ret_expr(dg[0].body)) in (shape.key(shape.parse("Controlled(self.controlled.dagger(), distance=self.distance)")),
                                                                        shape.key(shape.parse("Controlled(self.controlled.dagger(), self.distance)")))
        ctx.ob("R11.3", GATES + ".Controlled.dagger", okdg, found=ast.unparse(ret_expr(dg[0].body)) if dg else "inherits QuantumGate.dagger (a flag flip on the same array)",
               required="Controlled(self.controlled.dagger(), distance=self.distance)", mod=GATES, node=dg[0] if dg else C.node, sig="controlled-dagger")
    else:
        ctx.ob("R11.3", GATES + ".Controlled.__init__:daggered-target", False, found=ast.unparse(te) if te is not None else None, required="a daggered target (same array, flag set) contributes the adjoint of its array", mod=GATES, node=fn,
               sig="controlled-dagger-block")


def closed_form(ctx, cname):
    m = ctx.model
    r = m.lookup(m.cls("%s.%s" % (GATES, cname)), "array")
    ctx.need(r is not None and isinstance(r[1], ast.FunctionDef), "%s.array not found" % cname)
    fn = r[1]
    ctx.analysed("%s.%s.array" % (GATES, cname))

    def M(phi):
        try:
            return as_matrix(run_body(fn, {"self.phase": phi, "self.data": phi}))
        except NotFoldable as e:
            raise AnalysisError("%s.array outside the foldable vocabulary: %s" % (cname, e))
    return M, fn


def check_closed_forms(ctx):
    for cname, ref in REF_ROT.items():
        M, fn = closed_form(ctx, cname)
        bad = [p for p in SAMPLES if not close(M(p), ref(p))]
        note = ""
        if bad and all(close(M(p).T, ref(p)) for p in SAMPLES):
            note = "the closed form is the transpose of the reference (written [out, in]): %s(φ) evaluates to the tket rotation by -φ" % cname
        elif bad and all(close(M(p), ref(2 * p)) for p in SAMPLES):
            note = "the phase is counted in half turns instead of full turns"
        ctx.ob("R11.1", "%s.%s.array" % (GATES, cname), not bad, found="differs from the reference at φ = %s: %s" % (round(bad[0], 3), np.round(M(bad[0]), 3).tolist()) if bad else "equal on %d phases" % len(SAMPLES),
               required="exp(-iπφ·G) (controlled for CRz/CRx; diag(1,1,1,e^{2iπφ}) for CU1), matrix M[out, in]", mod=GATES, node=fn, sig="closed-form-" + cname, note=note)
        neg = [p for p in SAMPLES if not close(M(-p), M(p).conj().T)]
        ctx.ob("R11.3", "%s.%s.array:dagger-by-negation" % (GATES, cname), not neg, found="M(-φ) != M(φ)† at φ = %s" % round(neg[0], 3) if neg else "M(-φ) = M(φ)† on %d phases" % len(SAMPLES),
               required="negating the phase gives the conjugate transpose", mod=GATES, node=fn, sig="neg-" + cname)


def check_rotation_dagger(ctx):
    """the dagger of a rotation is the same rotation with the phase negated (abstract execution)"""
    m = ctx.model
    rot = m.cls(GATES + ".Rotation")
    for c in m.subclasses(rot, strict=True):
        r = m.lookup(c, "dagger")
        cases, bad = 0, None
        try:
            for label, build in instances(m, c):
                def run(sim, build=build):
                    x = build(sim)
                    return x, sim.apply(sim.getattr(x, "dagger", None, c.mod), [], {}, None, c.mod, x)
                for oracle, res, sim in explore(m, run):
                    if isinstance(res, RaisesError):
                        continue
                    x, y = res
                    cases += 1
                    if not (isinstance(y, Inst) and y.cls is x.cls and y.attrs.get("_data") == mk("neg", x.attrs.get("_data"))):
                        bad = "dagger of %s(φ) has data %r" % (c.name, y.attrs.get("_data") if isinstance(y, Inst) else y)
        except SimUnsupported as e:
            raise AnalysisError("%s.dagger outside the recognised idioms: %s" % (c.q, e))
        ctx.need(cases > 0, "no generic instance of %s" % c.q)
        ctx.ob("R11.3", c.q + ".dagger", bad is None, found=bad or "%s(-φ)" % c.name, required="%s(-φ)" % c.name, mod=r[0].mod, node=r[1], sig="rotation-dagger")
        ctx.analysed(c.q + ".dagger")


def flag_style_classes(m):
    """box classes whose dagger toggles the flag and keeps the payload (cat.Box.dagger and the overrides written in that style)"""
    out = []
    for k in m.subclasses(m.cls("discopy.cat.Box")):
        r = m.lookup(k, "dagger")
        if r and isinstance(r[1], ast.FunctionDef) and "not self._dagger" in ast.unparse(r[1]):
            out.append(k)
    return out


def check_rotation_names(ctx):
    """R11.1: every rotation class passes its own name on (the name selects the tket operation on export and tells two rotations with the same phase apart)"""
    m = ctx.model
    rot = m.cls(GATES + ".Rotation")
    n = 0
    for c in sorted(m.subclasses(rot, strict=True), key=lambda k: k.q):
        if "__init__" not in c.methods:
            continue
        fn = c.methods["__init__"][0]
        sup = next((x for x in ast.walk(fn) if isinstance(x, ast.Call) and ast.unparse(x.func) == "super().__init__"), None)
        nm = next((k.value for k in sup.keywords if k.arg == "name"), None) if sup is not None else None
        n += 1
        ctx.ob("R11.1", c.q + ".__init__:name", isinstance(nm, ast.Constant) and nm.value == c.name, found=ast.unparse(sup) if sup is not None else None, required="super().__init__(phase, name=%r, ...)" % c.name, mod=c.mod, node=fn,
               sig="rotation-name")
        ph = sup.args[0] if sup is not None and sup.args else None
        ctx.ob("R11.1", c.q + ".__init__:phase", ph is not None and ast.unparse(ph) == fn.args.args[1].arg, found=ast.unparse(ph) if ph is not None else None, required="the phase given is the phase stored", mod=c.mod, node=fn,
               sig="rotation-phase", trivial=True)
    ctx.need(n >= 6, "fewer than 6 rotation classes with a constructor (%d)" % n)


def check_scalar_daggers(ctx):
    """R11.3: a scalar is its own dagger exactly when it is real; otherwise the dagger is the scalar of the conjugate"""
    m = ctx.model
    si = m.func(GATES + ".Scalar.__init__")
    ctx.analysed(GATES + ".Scalar.__init__", GATES + ".Scalar.dagger", GATES + ".Sqrt.dagger")
    fl = next((s.value for s in si.body if isinstance(s, ast.Assign) and ast.unparse(s.targets[0]) == "_dagger"), None)
    shape.match(ctx, "R11.3", GATES + ".Scalar.__init__:self-adjoint", fl, ["None if data.conjugate() == data else False", "None if data == data.conjugate() else False"], {}, mod=GATES, node=si, sig="scalar-self-adjoint",
                required="marked self-adjoint exactly when the number equals its conjugate")
    sd = m.func(GATES + ".Scalar.dagger")
    shape.match(ctx, "R11.3", GATES + ".Scalar.dagger", ret_expr(sd.body), "self if self._dagger is None else Scalar(self.array[0].conjugate(), name=self._name, is_mixed=self.is_mixed)", {}, mod=GATES, node=sd,
                sig="scalar-dagger", required="itself when self-adjoint, else the scalar of the conjugate number with the same name and mixedness")
    qd = m.func(GATES + ".Sqrt.dagger")
    shape.match(ctx, "R11.3", GATES + ".Sqrt.dagger", ret_expr(qd.body), "self if self._dagger is None else Sqrt(self.data.conjugate())", {}, mod=GATES, node=qd, sig="sqrt-dagger",
                required="itself when self-adjoint, else the square root of the conjugate")


def check_flag_readers(ctx):
    m = ctx.model
    flags = flag_style_classes(m)
    for mod in (GATES, CIRC):
        for q, fn, node, recv in array_readers(m, mod):
            verdict, reason = classify_local(m, mod, q, fn, node, recv, flags)
            if verdict == "unknown":
                verdict, reason = classify_reader(m, mod, q, fn, node, recv, flags)
            cname = "%s.%s:%s.array" % (mod, q, recv)
            if verdict == "unknown":
                raise AnalysisError("R11.3: cannot classify the reader %s at line %d (%s)" % (cname, node.lineno, reason))
            ctx.ob("R11.3", cname, verdict == "ok", found=reason, required="a gate's array is read only after its dagger flag has been handled", mod=mod, node=node, sig="flag-dagger")


def classify_local(m, mod, q, fn, node, recv, flags):
    """additional receivers of gates.py / circuit.py"""
    from .c09 import dagger_guarded, parents_of
    if isinstance(node.value, ast.Name):
        nm = node.value.id
        cls_name = q.split(".")[0]
        k = m.classes.get(mod + "." + cls_name)
        first = fn.args.args[0].arg if fn.args.args else None
        if k is not None and nm == first and fn.name in ("dagger", "__repr__", "__eq__", "__hash__", "array", "subs", "lambdify", "grad"):
            return "ok", "the class's own payload is passed on / printed / compared (the flag travels with it)"
        # a local bound to the result of an evaluation is a tensor / CQ map, not a box
        for st in ast.walk(fn):
            if isinstance(st, ast.Assign):
                tn = [x.id for x in ast.walk(st.targets[0]) if isinstance(x, ast.Name)]
                if nm in tn and ".eval(" in ast.unparse(st.value):
                    return "ok", "`%s` is the result of an evaluation (a tensor)" % nm
        for st in ast.walk(fn):
            if isinstance(st, ast.For) and nm in [x.id for x in ast.walk(st.target) if isinstance(x, ast.Name)] and isinstance(st.iter, ast.Name):
                for st2 in ast.walk(fn):
                    if isinstance(st2, ast.Assign) and ast.unparse(st2.targets[0]) == st.iter.id and ".eval(" in ast.unparse(st2.value):
                        return "ok", "`%s` ranges over evaluated tensors" % nm
        params = [a.arg for a in fn.args.args]
        if nm in params:
            if dagger_guarded(fn, node, nm, parents_of(fn)):
                return "ok", "dominated by an is_dagger test on %s" % nm
            # narrowed by isinstance to a flag-style class and read without a test
            for st in ast.walk(fn):
                if isinstance(st, ast.If) and isinstance(st.body[-1], ast.Raise) and "isinstance(%s" % nm in ast.unparse(st.test):
                    kk = m.resolve_class(mod, ast.unparse(st.test.operand.args[1])) if isinstance(st.test, ast.UnaryOp) else None
                    if kk is not None and any(kk in m.mro(f) or f in m.mro(kk) for f in flags):
                        return "violation", "parameter `%s` is a %s, which takes its dagger by toggling a flag; its .array is read without an is_dagger test" % (nm, kk.name)
            return "unknown", "parameter %s" % nm
    if isinstance(node.value, ast.Attribute) and ast.unparse(node.value).endswith("utensor"):
        return "ok", "a CQMap's underlying tensor"
    if isinstance(node.value, ast.Call):
        return "ok", "result of a call (an evaluated tensor / a freshly rebuilt gate)"
    if isinstance(node.value, ast.BinOp):
        return "ok", "a composite of evaluated tensors"
    return "unknown", "receiver %s" % ast.unparse(node.value)


def check_eval_and_states(ctx):
    m = ctx.model
    fn = m.func(CIRC + ".Circuit.eval")
    ctx.analysed(CIRC + ".Circuit.eval")
    asg = next((s for s in ast.walk(fn) if isinstance(s, ast.Assign) and ast.unparse(s.targets[0]) == "functor"), None)
    ctx.need(asg is not None, "Circuit.eval does not bind `functor`")
    shape.match(ctx, "R11.4", CIRC + ".Circuit.eval:functor", asg.value,
                "cqmap.Functor() if mixed or self.is_mixed else tensor.Functor(lambda x: x[0].dim, lambda f: f.array)", {}, mod=CIRC, node=asg, sig="eval-functor",
                required="pure circuits are evaluated by the tensor functor with ob = dimension, ar = array")
    # basis states
    fn = m.func(GATES + ".Digits.array")
    ctx.analysed(GATES + ".Digits.array")
    src = [ast.unparse(s) for s in fn.body if not (isinstance(s, ast.Expr) and isinstance(s.value, ast.Constant))]
    ok = src == ["array = numpy.zeros(len(self._digits) * (self._dim,) or (1,))", "array[self._digits] = 1", "return array"]
    ctx.ob("R11.5", GATES + ".Digits.array", ok, found=src, required="the basis tensor of the digit string: zeros with a single 1 at index `digits`", mod=GATES, node=fn, sig="basis-array")
    for k in ("Ket", "Bra"):
        c = m.cls("%s.%s" % (GATES, k))
        ctx.ob("R11.5", "%s.%s.array" % (GATES, k), c.aliases.get("array") == "Bits.array", found=c.aliases.get("array"), required="array = Bits.array (the same basis tensor)", mod=GATES,
               node=c.node, sig="alias-" + k)
        init = m.func("%s.%s.__init__" % (GATES, k))
        typ = shape.values_of(init.body, ["dom", "cod"])
        ctx.need(typ is not None, "%s.__init__ does not bind dom, cod" % k)
        want = "(qubit ** 0, qubit ** len(bitstring))" if k == "Ket" else "(qubit ** len(bitstring), qubit ** 0)"
        shape.match(ctx, "R11.5", "%s.%s.__init__:type" % (GATES, k), typ, want, {init.args.vararg.arg: "bitstring"}, mod=GATES, node=init, sig="type-" + k)
        stores = [ast.unparse(s) for s in init.body if isinstance(s, ast.Assign) and "_digits" in ast.unparse(s.targets[0])]
        ok = any("self._digits, self._dim" in s and "= (bitstring, 2" in s.replace(init.args.vararg.arg, "bitstring") for s in stores) or \
            any(s.replace(init.args.vararg.arg, "bitstring") == "self._digits = bitstring" for s in stores)
        ctx.ob("R11.5", "%s.%s.__init__:digits" % (GATES, k), ok, found=stores, required="_digits = bitstring, _dim = 2", mod=GATES, node=init, sig="digits-" + k)
    # digits / bits: states unless asked otherwise; the type turned around for effects
    di = m.func(GATES + ".Digits.__init__")
    ctx.analysed(GATES + ".Digits.__init__", GATES + ".Bits.__init__")
    kwd = dict(zip([a.arg for a in di.args.kwonlyargs], di.args.kw_defaults))
    okd = isinstance(kwd.get("_dagger"), ast.Constant) and kwd["_dagger"].value is False
    ctx.ob("R11.5", GATES + ".Digits.__init__:default", okd, found=ast.unparse(di.args), required="a state by default (_dagger=False)", mod=GATES, node=di, sig="digits-default")
    shape.match_stmts(ctx, "R11.5", GATES + ".Digits.__init__:type", [s for s in di.body if isinstance(s, ast.Assign)],
                      ["dom, cod = Ty(), Ty(Digit(dim)) ** len(digits)", "dom, cod = (cod, dom) if _dagger else (dom, cod)", "self._digits, self._dim = digits, dim"], {di.args.vararg.arg: "digits"}, mod=GATES, node=di,
                      sig="digits-type", required="no wire in, one wire of that dimension per digit out; exchanged for an effect; the digits and the dimension kept")
    sup = next((c for c in ast.walk(di) if isinstance(c, ast.Call) and ast.unparse(c.func) == "super().__init__"), None)
    shape.match(ctx, "R11.5", GATES + ".Digits.__init__:box", sup, "super().__init__(name, dom, cod, _dagger=_dagger)", {}, mod=GATES, node=di, sig="digits-box")
    bi = m.func(GATES + ".Bits.__init__")
    kwd = dict(zip([a.arg for a in bi.args.kwonlyargs], bi.args.kw_defaults))
    okd = isinstance(kwd.get("_dagger"), ast.Constant) and kwd["_dagger"].value is False
    ctx.ob("R11.5", GATES + ".Bits.__init__:default", okd, found=ast.unparse(bi.args), required="a state by default (_dagger=False)", mod=GATES, node=bi, sig="bits-default")
    sup = next((c for c in ast.walk(bi) if isinstance(c, ast.Call) and ast.unparse(c.func) == "super().__init__"), None)
    shape.match(ctx, "R11.5", GATES + ".Bits.__init__:digits", sup, "super().__init__(*bitstring, dim=2, _dagger=_dagger)", {bi.args.vararg.arg: "bitstring"}, mod=GATES, node=bi, sig="bits-digits",
                required="bits are digits of dimension 2")
    fn = m.func(GATES + ".QuantumGate.__init__")
    asg = next((s for s in ast.walk(fn) if isinstance(s, ast.Assign) and ast.unparse(s.targets[0]) == "self._array"), None)
    ctx.need(asg is not None and isinstance(asg.value, ast.Call) and isinstance(asg.value.func, ast.Attribute) and asg.value.func.attr == "reshape" and len(asg.value.args) == 1,
             "QuantumGate.__init__ does not reshape its array")
    shp = asg.value.args[0]

    class _Or(ast.NodeTransformer):           # `a or b` on tuples
        pass
    ok, found = True, []
    for nq in (0, 1, 3):
        try:
            e = shp
            if isinstance(e, ast.BoolOp) and isinstance(e.op, ast.Or):
                v = None
                for part in e.values:
                    v = fold(part, {"n_qubits": nq})
                    if v:
                        break
            else:
                v = fold(e, {"n_qubits": nq})
        except NotFoldable as ex:
            raise AnalysisError("QuantumGate.__init__ reshape argument outside the foldable vocabulary: %s" % ex)
        found.append((nq, tuple(v)))
        ok = ok and tuple(v) == ((2,) * (2 * nq) or (1,))
    ctx.ob("R11.5", GATES + ".QuantumGate.__init__:layout", ok and ast.unparse(asg.value.func.value) == "Tensor.np.array(array)", found=found,
           required="one axis of size 2 per input and output qubit: shape (2,) * 2n", mod=GATES, node=fn, sig="gate-layout")


class _Ty(list):
    def __pow__(self, k):
        return _Ty(list(self) * k)

    def __matmul__(self, o):
        return _Ty(list(self) + list(o))


def check_rewire(ctx):
    """R11.6: gates.rewire puts the two wires of the gate on the requested qubits: the index arithmetic is folded for every (a, b, n) up to a bound"""
    from ..fold import fold, Stub, CannotFold
    m = ctx.model
    q = G + ".rewire"
    fn = m.func(q)
    ctx.analysed(q)
    N = 5 if ctx.tier == "quick" else 7
    BUILT = {"len": len, "set": set, "min": min, "max": max, "list": list, "range": range, "abs": abs, "sorted": sorted, "tuple": tuple}

    class Ret(Exception):
        def __init__(self, node, env):
            self.node, self.env = node, env

    class Refuse(Exception):
        pass

    def store(t, v, env):
        if isinstance(t, ast.Name):
            env[t.id] = v
        elif isinstance(t, ast.Subscript) and not isinstance(t.slice, ast.Slice):
            fold(t.value, env)[fold(t.slice, env)] = v
        elif isinstance(t, ast.Tuple):
            v = list(v)
            if len(v) != len(t.elts):
                raise CannotFold("unpacking")
            for e, x in zip(t.elts, v):
                store(e, x, env)
        else:
            raise CannotFold("store to %s" % ast.unparse(t))

    def run(body, env):
        for st in body:
            if isinstance(st, ast.Expr) and isinstance(st.value, ast.Constant):
                continue
            if isinstance(st, ast.If):
                run(st.body if fold(st.test, env) else st.orelse, env)
            elif isinstance(st, ast.Raise):
                raise Refuse()
            elif isinstance(st, ast.Return):
                raise Ret(st.value, dict(env))
            elif isinstance(st, ast.Assign) and len(st.targets) == 1:
                v = st.value
                if isinstance(v, ast.Call) and isinstance(v.func, ast.Attribute) and v.func.attr == "permutation":
                    env["__perm__"] = list(fold(v.args[0], env))
                    env["__perm_dom__"] = [fold(k.value, env) for k in v.keywords if k.arg == "dom"] + [fold(x, env) for x in v.args[1:2]]
                    store(st.targets[0], Stub(kind="perm"), env)
                elif isinstance(v, ast.IfExp) and any(isinstance(x, ast.BinOp) and isinstance(x.op, ast.RShift) for x in ast.walk(v)) or \
                        (isinstance(v, ast.BinOp) and isinstance(v.op, ast.RShift)):
                    env.setdefault("__op_expr__", []).append(v)          # the gate conjugated by swaps: kept symbolic
                    store(st.targets[0], env[fn.args.args[0].arg], env)
                else:
                    store(st.targets[0], fold(v, env), env)
            else:
                raise CannotFold("statement %s" % ast.unparse(st)[:50])

    opn, an, bn = (x.arg for x in fn.args.args[:3])
    bad, n_inst, kinds, matched = [], 0, set(), set()
    try:
        for n in range(2, N + 1):
            for a in range(n):
                for b in range(n):
                    if a == b:
                        continue
                    for dom in (_Ty(["q"] * n), None):
                        if dom is None and max(a, b) + 1 != n:
                            continue
                        env = dict(BUILT, **{opn: Stub(dom=_Ty(["q", "q"]), cod=_Ty(["q", "q"])), an: a, bn: b, "dom": dom, "qubit": _Ty(["q"]), "SWAP": Stub(kind="swap")})
                        try:
                            run(fn.body, env)
                            bad.append("rewire(op, %d, %d, n=%d) returns nothing" % (a, b, n))
                        except Refuse:
                            bad.append("rewire(op, %d, %d) on %d qubits is refused" % (a, b, n))
                        except Ret as r:
                            n_inst += 1
                            e = r.env
                            width = len(e["dom"])
                            if "__perm__" in e:
                                kinds.add("permuted")
                                perm = e["__perm__"]
                                if sorted(perm) != list(range(width)) or perm[0] != a or perm[1] != b:
                                    bad.append("rewire(op, %d, %d) on %d qubits conjugates by the permutation %s: wires 0, 1 of the gate must go to qubits %d, %d" % (a, b, width, perm, a, b))
                                if e["__perm_dom__"] != [e["dom"]]:
                                    bad.append("the permutation is not built on the circuit's domain")
                                if id(r.node) not in matched:
                                    matched.add(id(r.node))
                                    pv = next((t.id for st in fn.body if isinstance(st, ast.Assign) and isinstance(st.value, ast.Call) and isinstance(st.value.func, ast.Attribute)
                                               and st.value.func.attr == "permutation" for t in st.targets if isinstance(t, ast.Name)), "perm")
                                    shape.match(ctx, "R11.6", q + ":conjugation", r.node, "perm.dagger() >> op @ Box.id(len(dom) - 2) >> perm", {opn: "op", pv: "perm"}, mod=G, node=r.node, sig="rewire-conj",
                                                required="the gate between the inverse permutation and the permutation")
                            else:
                                kinds.add("adjacent")
                                x = r.node
                                if not (isinstance(x, ast.BinOp) and isinstance(x.op, ast.MatMult) and isinstance(x.left, ast.BinOp) and isinstance(x.left.op, ast.MatMult)):
                                    raise AnalysisError("rewire: return `%s` outside the recognised form id @ op @ id" % ast.unparse(x))
                                l, mid, rr = x.left.left, x.left.right, x.right
                                if not all(isinstance(i, ast.Call) and ast.unparse(i.func).endswith(".id") and len(i.args) == 1 for i in (l, rr)) or ast.unparse(mid) != opn:
                                    raise AnalysisError("rewire: return `%s` outside the recognised form id @ op @ id" % ast.unparse(x))
                                lw, rw = fold(l.args[0], e), fold(rr.args[0], e)
                                if lw != min(a, b) or lw + 2 + rw != width:
                                    bad.append("rewire(op, %d, %d) on %d qubits pads with %r and %r identity wires" % (a, b, width, lw, rw))
                                swapped = [ast.unparse(v) for v in e.get("__op_expr__", [])]
                                if (a > b) != bool(swapped):
                                    bad.append("rewire(op, %d, %d): the gate is %sconjugated by SWAP" % (a, b, "" if swapped else "not "))
                                for sv in swapped:
                                    if sv.replace(" ", "") not in ("SWAP>>%s>>SWAPif%s.cod==%s.domelseSWAP>>%s" % (opn, opn, opn, opn), "SWAP>>%s>>SWAP" % opn):
                                        raise AnalysisError("rewire: reversed adjacent form `%s` outside the recognised idiom" % sv)
    except CannotFold as e:
        raise AnalysisError("rewire outside the foldable idioms: %s" % e)
    ctx.need(kinds == {"permuted", "adjacent"}, "rewire no longer has an adjacent and a permuted path (%s)" % sorted(kinds))
    ctx.ob("R11.6", q, not bad, found=bad[:3] or "%d (a, b, width) instances folded: perm[0] = a, perm[1] = b, a permutation; adjacent pairs padded by min(a, b) wires" % n_inst,
           required="the gate's wires 0 and 1 land on qubits a and b for all a != b (widths up to %d; Box.permutation sends i to perm[i], C10)" % N, mod=G, node=fn, sig="rewire")
    # guards
    src = [ast.unparse(s.test) for s in fn.body if isinstance(s, ast.If) and isinstance(s.body[-1], ast.Raise)]
    ctx.ob("R11.6", q + ":guards", any("len(set([%s, %s])) != 2" % (an, bn) in t or "%s == %s" % (an, bn) in t for t in src) and any("%s.dom != qubit ** 2" % opn in t for t in src), found=src,
           required="equal indices and gates that are not on two qubits are refused", mod=G, node=fn, sig="rewire-guards")


def check(ctx):
    ctx.rule("R11.1", "gate tables and closed-form arrays, read [in, out], equal the tket matrices of the same name (phases in full turns); Controlled = diag(1, U)")
    ctx.rule("R11.2", "`_dagger=None` (self-adjoint) only on Hermitian tables")
    ctx.rule("R11.3", "dagger soundness: rotations negate the phase and M(-φ) = M(φ)†; flag-daggered gates: every reader of .array handles the flag first")
    ctx.rule("R11.4", "pure evaluation uses the tensor functor with ob = dimension and ar = array")
    ctx.rule("R11.6", "rewire: the folded index arithmetic puts the gate's wires on the requested qubits")
    ctx.rule("R11.5", "kets, bras and bits are basis tensors of their bitstring; gate arrays have one axis per input/output qubit")
    ctx.attempt(check_tables, ctx)
    ctx.attempt(check_closed_forms, ctx)
    ctx.attempt(check_rotation_dagger, ctx)
    ctx.attempt(check_flag_readers, ctx)
    ctx.attempt(check_scalar_daggers, ctx)
    ctx.attempt(check_rotation_names, ctx)
    ctx.attempt(check_eval_and_states, ctx)
    ctx.attempt(check_rewire, ctx)
    ctx.rule("R11.7", "the pure evaluation is the tensor functor whose loop invariant and flag discipline are decided by C09; bras, kets and gates are daggered as C02 R02.4 requires")
    ctx.depend("R11.7", "C08", "the adjoint of an evaluated gate is the conjugate transpose of its matrix (Tensor.dagger exchanges the dom and cod blocks and conjugates)", rules={"R08.3"}, mod="discopy.tensor")
    ctx.depend("R11.7", "C10", "rewire conjugates the gate by Box.permutation, circuits are permuted with Circuit.swap / permutation: each realises the requested permutation", mod="discopy.monoidal")
    ctx.depend("R11.7", "C09", "eval() applies tensor.Functor layer by layer: each box is contracted on the axes of its own wires", rules={"R09.1", "R09.2"}, mod="discopy.tensor")
    try:
        ctx.depend("R11.7", "C12", "a circuit of pure boxes is evaluated by the tensor functor: is_mixed must be false for it (swaps of two qubits included) and select the functor",
                   rules={"R12.6"}, constructs=["Swap.__init__:is_mixed", "Circuit.is_mixed", "Circuit.eval:mode", "Ty.count"], mod="discopy.quantum.circuit")
    except AnalysisError:
        if not any(not o.ok for o in ctx.obs):
            raise
    from .c02 import check_daggers
    check_daggers(ctx, modules={GATES}, rule="R11.7", kinds=("types", "involution", "raises", "not-a-box", "flag", "involution-raises"))
    ctx.floor("R11.6", 3)
    ctx.floor("R11.1", 15)
    ctx.floor("R11.2", 7)
    ctx.floor("R11.3", 20)
    ctx.floor("R11.5", 8)
    ctx.not_decided += ["rewire on more qubits than the folded bound", "unitarity of composites (follows from C09 functoriality and the tables)", "floating-point error"]
