"""C01 — every diagram handed back is well-typed (rules R01.0–R01.4; engines A, B, F).

Representation invariant RI of a monoidal diagram d:
  RI1 len(boxes) = len(offsets) = len(layers);  RI2 layers.dom = dom, layers.cod = cod;
  RI3 layers[k] = Layer(L_k, boxes[k], R_k) with |L_k| = offsets[k];  RI4 consecutive layers compose.
For a cat.Arrow: the boxes compose from dom to cod.
The scanning constructors establish RI (R01.2); every construction that bypasses the scan (`_scan=False`, `layers=...`)
is an obligation that must discharge by a named pattern (R01.1), under the guards of R01.3."""
import ast
from .. import shape
from ..lin import Lin, Facts
from ..words import Seq, Seg, Item, Atom, MapSeg, Unlocatable
from ..beval import (Evaluator, Obj, Box, Layer, Arrow, Diagram, Closure, Unsupported, Undecided, assume, layer_dom, layer_cod)
from ..diag import Gen, Ev01, check_RI
from ..cfg import CFG
from ..core import AnalysisError
from ..fold import fold, Stub

EXPLANATION = (
    "Every constructor call in discopy that bypasses the run-time scan (cat.Arrow(..., _scan=False), Diagram(..., layers=...)) is "
    "enumerated from the resolved program (engine A) and must discharge the representation invariant RI1-RI4 by a named pattern: "
    "identity, one-box, guarded concatenation, contiguous sub-list, dagger of one well-typed value, derived-from-layers, copy through "
    "word-preserving upgrades, parallel deletion under checked >>, or abstract evaluation on a generic instance (then, tensor, "
    "interchange). The two scanning constructors are checked to refuse every ill-typed request (including offsets outside "
    "[0, len(row) - len(box.dom)], where Python slices clamp silently). Verdicts are for all inputs because arguments are symbolic. "
    "Not decided: values built by user subclasses; images supplied by users to functors (checked at run time by >>).")

CAT, MON, RW, RIG, CART = "discopy.cat", "discopy.monoidal", "discopy.rewriting", "discopy.rigid", "discopy.cartesian"


# ----------------------------------------------------------------------------------------------------------------
def enclosing_functions(tree):
    """yield (qualified suffix, FunctionDef) for every function, innermost names joined by '.'"""
    def rec(node, prefix):
        for ch in ast.iter_child_nodes(node):
            if isinstance(ch, (ast.FunctionDef, ast.ClassDef)):
                q = prefix + [ch.name]
                if isinstance(ch, ast.FunctionDef):
                    yield ".".join(q), ch
                yield from rec(ch, q)
            else:
                yield from rec(ch, prefix)
    yield from rec(tree, [])


def own_nodes(fn):
    """nodes of fn not inside a nested def/class"""
    todo = list(ast.iter_child_nodes(fn))
    while todo:
        n = todo.pop()
        yield n
        if not isinstance(n, (ast.FunctionDef, ast.ClassDef, ast.Lambda)):
            todo += list(ast.iter_child_nodes(n))


def kw(call, name, pos=None):
    for k in call.keywords:
        if k.arg == name:
            return k.value
    if pos is not None and len(call.args) > pos and not any(isinstance(a, ast.Starred) for a in call.args[:pos + 1]):
        return call.args[pos]
    return None


def census(m):
    """all unscanned construction sites: (module, function qualname, call, kind)"""
    arrow = m.cls(CAT + ".Arrow")
    diag = m.cls(MON + ".Diagram")
    sites = []
    for mod, tree in m.modules.items():
        for q, fn in enumerate_fns(tree):
            for c in own_nodes(fn):
                if not isinstance(c, ast.Call):
                    continue
                scan = kw(c, "_scan")
                if scan is not None and not (isinstance(scan, ast.Constant) and scan.value is True):
                    sites.append((mod, q, fn, c, "arrow"))
                    continue
                # Diagram-family construction with explicit layers
                f = ast.unparse(c.func)
                is_init = f.endswith(".__init__")
                target = f[:-len(".__init__")] if is_init else f
                if target.startswith("super()"):
                    encl = m.classes.get(mod + "." + q.split(".")[0])
                    look = m.lookup(encl, "__init__", after=encl) if encl is not None and is_init else None
                    k = look[0] if look else None
                    off = 0
                elif target == "ar_factory":
                    k, look, off = diag, m.lookup(diag, "__init__"), 0
                else:
                    k = m.resolve_class(mod, target)
                    look = m.lookup(k, "__init__") if k is not None else None
                    off = 1 if is_init else 0
                if k is None or diag not in m.mro(k) or not look or not isinstance(look[1], ast.FunctionDef):
                    continue
                pnames = [a.arg for a in look[1].args.args][1:]
                if "layers" not in pnames:
                    continue
                lay = kw(c, "layers", pnames.index("layers") + off)
                if lay is None or (isinstance(lay, ast.Constant) and lay.value is None):
                    continue
                sites.append((mod, q, fn, c, "diagram"))
    return sites


def enumerate_fns(tree):
    return list(enclosing_functions(tree))


def neq_guard(test, a, b):
    """`a != b` (either order) or `not a == b`"""
    if isinstance(test, ast.UnaryOp) and isinstance(test.op, ast.Not):
        t = test.operand
        return isinstance(t, ast.Compare) and len(t.ops) == 1 and isinstance(t.ops[0], ast.Eq) and \
            {ast.unparse(t.left), ast.unparse(t.comparators[0])} == {a, b}
    return isinstance(test, ast.Compare) and len(test.ops) == 1 and isinstance(test.ops[0], ast.NotEq) and \
        {ast.unparse(test.left), ast.unparse(test.comparators[0])} == {a, b}


def assigned_value(fn, name, before):
    """the value of the last simple assignment `name = <expr>` in fn textually before node `before` (None if not unique/simple)"""
    best = None
    for n in own_nodes(fn):
        if isinstance(n, ast.Assign) and n.lineno <= before.lineno:
            for t in n.targets:
                if isinstance(t, ast.Name) and t.id == name:
                    if best is None or n.lineno > best.lineno:
                        best = n
                elif isinstance(t, ast.Tuple) and isinstance(n.value, ast.Tuple) and len(t.elts) == len(n.value.elts):
                    for a, v in zip(t.elts, n.value.elts):
                        if isinstance(a, ast.Name) and a.id == name and (best is None or n.lineno > best.lineno):
                            best = ast.Assign(targets=[a], value=v, lineno=n.lineno)
    return best.value if best is not None else None


# ----------------------------------------------------------------------------------------------------------------
class EvInit(Ev01):
    """Ev01 + attribute stores on records, tolerant of statements it does not model (they bind nothing)."""
    PROP = {"_dom": "dom", "_cod": "cod", "_boxes": "boxes", "_layers": "layers", "_offsets": "offsets"}

    def __init__(self, facts, where):
        super().__init__(facts, where)
        self.skipped = []
        self.unlocatable = []
        self.captured = []

    def bind(self, target, value, env):
        if isinstance(target, ast.Attribute):
            obj = self.ev(target.value, env)
            if isinstance(obj, Obj):
                obj.f[self.PROP.get(target.attr, target.attr)] = value
                return
            raise Unsupported("attribute store on %r" % (obj,))
        return super().bind(target, value, env)

    def getattr(self, v, attr, n=None):
        if isinstance(v, Obj) and attr in self.PROP and self.PROP[attr] in v.f:
            return v.f[self.PROP[attr]]
        if isinstance(v, Seq) and attr == "downgrade":
            return Closure(lambda: v)            # word-preserving (R01.4)
        return super().getattr(v, attr, n)

    def run_tolerant(self, body, env, stop_at=None):
        for st in body:
            if stop_at is not None and st.lineno > stop_at.lineno:
                break
            try:
                r = self.run([st], env)
                if r is not None:
                    return r
            except Unlocatable as e:
                self.unlocatable.append("%s" % e)
            except (Unsupported, Undecided, TypeError, KeyError, AttributeError) as e:
                self.skipped.append("%d: %s" % (st.lineno, e))
        return None


def arrow_capture(ev):
    def mk(dom, cod, boxes, _scan=True):
        a = Arrow(dom, cod, boxes)
        a.f["_scan"] = _scan
        ev.captured.append(("arrow", a))
        return a
    return Closure(mk)


def check_arrow_RI(a, facts):
    """cat-level RI for a literal list of layers: consecutive elements compose from dom to cod"""
    rows = [a.f["dom"]]
    probs = []
    for p in a.f["boxes"].parts:
        if not isinstance(p, Item):
            return ["boxes %r is not a literal list" % (a.f["boxes"],)]
        l = p.value
        d, c = (layer_dom(l), layer_cod(l)) if l.kind == "Layer" else (l.f["dom"], l.f["cod"])
        if not d.same(rows[-1], facts):
            probs.append("element expects %r, finds %r" % (d, rows[-1]))
        rows.append(c)
    if not rows[-1].same(a.f["cod"], facts):
        probs.append("last row %r, cod %r" % (rows[-1], a.f["cod"]))
    return probs


# ----------------------------------------------------------------------------------------------------------------
def h_identity(ctx, mod, q, fn, c, kind):
    """(X, X, [], [][, layers=cat.Id(X)])  — the empty arrow on one object"""
    m = ctx.model
    is_init = ast.unparse(c.func).endswith(".__init__") and not ast.unparse(c.func).startswith("super()")
    a = c.args[1:] if is_init else c.args
    probs = []
    if len(a) < 3 or ast.unparse(a[0]) != ast.unparse(a[1]):
        probs.append("dom and cod arguments differ: %s" % ast.unparse(c))
    if len(a) >= 3 and ast.unparse(a[2]) != "[]":
        probs.append("boxes not the empty list")
    if kind == "diagram":
        if len(a) < 4 or ast.unparse(a[3]) != "[]":
            probs.append("offsets not the empty list")
        lay = kw(c, "layers", 5 if is_init else 4)
        ok = isinstance(lay, ast.Call) and len(lay.args) == 1 and ast.unparse(lay.args[0]) == ast.unparse(a[0]) \
            and m.resolve_class(mod, ast.unparse(lay.func)) is m.cls(CAT + ".Id")
        if not ok:
            probs.append("layers is %s, required cat.Id(%s)" % (ast.unparse(lay) if lay else None, ast.unparse(a[0])))
    return probs, "identity"


def h_cat_box(ctx, mod, q, fn, c, kind):
    """cat.Box.__init__: Arrow.__init__(self, dom, cod, [self], _scan=False) — a box is the one-box arrow on itself;
    its dom/cod attributes are the ones passed (well-typed by definition: the box *defines* its type)."""
    a = c.args
    probs = []
    self_ = fn.args.args[0].arg
    if len(a) != 4 or ast.unparse(a[0]) != self_ or ast.unparse(a[3]) != "[%s]" % self_:
        probs.append("not the one-box arrow [self]: %s" % ast.unparse(c))
    else:
        d, cd = ast.unparse(a[1]), ast.unparse(a[2])
        stores = {}
        for n in own_nodes(fn):
            if isinstance(n, ast.Assign) and isinstance(n.targets[0], ast.Tuple) and isinstance(n.value, ast.Tuple):
                for t, v in zip(n.targets[0].elts, n.value.elts):
                    stores[ast.unparse(t)] = ast.unparse(v)
        if stores.get(self_ + "._dom", d) != d or stores.get(self_ + "._cod", cd) != cd:
            probs.append("self._dom/_cod stored as %s/%s but the arrow is typed %s -> %s" % (stores.get(self_ + "._dom"), stores.get(self_ + "._cod"), d, cd))
    return probs, "one-box"


def h_cat_then(ctx, mod, q, fn, c, kind):
    """cat.Arrow.then: concatenation guarded by `self.cod != other.dom -> AxiomError` (R01.3)"""
    m = ctx.model
    g = CFG(fn)
    self_ = fn.args.args[0].arg
    probs = []
    a = [ast.unparse(x) for x in c.args]
    other = None
    if len(a) == 3 and a[0] == self_ + ".dom" and a[1].endswith(".cod") and a[2] == "%s.boxes + %s.boxes" % (self_, a[1][:-4]):
        other = a[1][:-4]
    else:
        probs.append("arguments %s are not (self.dom, other.cod, self.boxes + other.boxes)" % a)
    if other:
        guards = g.raising_guards_before(c)
        ok = any(lab == "T" and "AxiomError" in how and neq_guard(st.test, self_ + ".cod", other + ".dom") for st, lab, how in guards)
        if not ok:
            probs.append("no dominating `if %s.cod != %s.dom: raise AxiomError` (guards found: %s)"
                         % (self_, other, [(ast.unparse(st.test), how) for st, lab, how in guards]))
        okt = any(lab == "T" and "TypeError" in how and "isinstance(%s, Arrow)" % other in ast.unparse(st.test) for st, lab, how in guards)
        if not okt:
            probs.append("no dominating isinstance(%s, Arrow) guard raising TypeError" % other)
    return probs, "guarded-concatenation"


def h_cat_getitem(ctx, mod, q, fn, c, kind):
    """cat.Arrow.__getitem__: contiguous sub-list typed by its ends / dagger of one well-typed value"""
    self_, key = fn.args.args[0].arg, fn.args.args[1].arg
    a = c.args
    probs = []
    if len(a) != 3:
        return ["unexpected arity %s" % ast.unparse(c)], "slice"
    d, cd, bx = (ast.unparse(x) for x in a)
    g = CFG(fn)
    guards = g.raising_guards_before(c)
    src = assigned_value(fn, bx, c) if isinstance(a[2], ast.Name) else a[2]
    if d.endswith("[0].dom") and cd.endswith("[-1].cod") and d[:-7] == cd[:-8] == bx:
        # contiguous sub-list: needs step == 1 on this path, non-empty, source self.boxes[key]
        if src is None or ast.unparse(src) != "%s.boxes[%s]" % (self_, key):
            probs.append("%s is %s, required %s.boxes[%s]" % (bx, ast.unparse(src) if src else None, self_, key))
        # finite-domain evaluation of the dominating tests on key.step
        for step in (None, 1, 2, -1, -2, 3):        # step 0 is refused by Python's own list slicing (ValueError)
            reach = True
            for st, lab, how in guards:
                try:
                    v = fold(st.test, {key: Stub(step=step, start=None, stop=None), bx: [1], "isinstance": lambda *a_: True, "slice": slice})
                except Exception:
                    continue
                if bool(v) == (lab == "T"):
                    reach = False
            if reach and step not in (None, 1):
                probs.append("a slice with step %r reaches the contiguous-sub-list construction" % (step,))
        def inside_nonempty_branch():
            for st in ast.walk(fn):
                if isinstance(st, ast.If):
                    t = ast.unparse(st.test)
                    if t in (bx, "len(%s) != 0" % bx, "len(%s) > 0" % bx) and any(c is x for b in st.body for x in ast.walk(b)):
                        return True
                    if t in ("not %s" % bx, "len(%s) == 0" % bx) and any(c is x for b in st.orelse for x in ast.walk(b)):
                        return True
            return False
        if not any(lab == "T" and ast.unparse(st.test) in ("not %s" % bx, "len(%s) == 0" % bx) for st, lab, how in guards) and not inside_nonempty_branch():
            probs.append("the empty selection is not handled before indexing %s[0]" % bx)
        return probs, "contiguous-sub-list"
    # dagger pattern: (X.cod, X.dom, [b[::-1] for b in X.boxes[::-1]])
    if d.endswith(".cod") and cd.endswith(".dom") and d[:-4] == cd[:-4]:
        X = d[:-4]
        comp = src
        ok = isinstance(comp, ast.ListComp) and len(comp.generators) == 1 and not comp.generators[0].ifs
        if ok:
            gen = comp.generators[0]
            elt = ast.unparse(comp.elt)
            v = ast.unparse(gen.target)
            ok = elt in ("%s[::-1]" % v, "%s.dagger()" % v)
            it = ast.unparse(gen.iter)
            full_rev = it in ("%s.boxes[::-1]" % X, "reversed(%s.boxes)" % X, "%s[::-1]" % X.replace(".boxes", ""))
            if not ok:
                probs.append("boxes are not daggered one by one: %s" % ast.unparse(comp))
            if not full_rev:
                # the selection must provably be the full reversal of X.boxes
                sel_ok = False
                if it == "%s.boxes[%s]" % (X, key):
                    # decide over the finite domain of (start, stop) whether a partial selection reaches this site
                    partial = []
                    for start in (None, 0, 1):
                        for stop in (None, 0, 1):
                            reach = True
                            for st, lab, how in g.raising_guards_before(c) + dominating_tests(g, c):
                                try:
                                    val = fold(st.test, {key: Stub(step=-1, start=start, stop=stop), "isinstance": lambda *a_: True, "slice": slice})
                                except Exception:
                                    continue
                                if bool(val) == (lab == "T"):
                                    reach = False
                            if reach and (start is not None or stop is not None):
                                partial.append((start, stop))
                    sel_ok = not partial
                    if partial:
                        probs.append("reversed slices with bounds %s reach a construction typed %s.cod -> %s.dom over the boxes %s "
                                     "(only the full reversal has that type)" % (partial[:3], X, X, it))
                if not sel_ok and not partial:
                    probs.append("boxes iterate %s, not the full reversal of %s.boxes" % (it, X))
            # X must be self or a value obtained from self's own slicing
            if X != self_:
                xv = assigned_value(fn, X, c)
                if xv is None or not (isinstance(xv, ast.Subscript) and ast.unparse(xv.value) == self_):
                    probs.append("%s is not self nor a forward slice of self" % X)
        else:
            probs.append("boxes %s is not a comprehension daggering each box" % (ast.unparse(comp) if comp else bx))
        return probs, "dagger-of-one-value"
    return ["arguments %s match no discharge pattern" % ast.unparse(c)], "?"


def dominating_tests(g, node):
    """[(if-stmt, lab, how)] for ifs whose body contains node: lab 'F' means: to be here the test is TRUE"""
    out = []
    k = g.stmt_of(node)
    for st in g.nodes.values():
        if isinstance(st, ast.If):
            if any(id(x) == k for b in st.body for x in ast.walk(b)):
                out.append((st, "F", "enclosing-then"))
            elif any(id(x) == k for b in st.orelse for x in ast.walk(b)):
                out.append((st, "T", "enclosing-else"))
    return out


def h_mon_then_tensor(ctx, mod, q, fn, c, kind):
    which = q.split(".")[-1]
    probs = []
    self_ = fn.args.args[0].arg
    work, done = [Facts()], 0
    while work:
        facts = work.pop()
        done += 1
        if done > 8:
            raise AnalysisError("%s: too many case splits" % q)
        a = Gen("a")
        b = Gen("b", dom=a.COD) if which == "then" else Gen("b")
        facts = Facts([f.subst({}) for f in facts.ge], facts.free)
        # case facts are about the numbers of boxes of the two generic diagrams
        facts = Facts([f.subst({"n_a#": a.n, "n_b#": b.n}) for f in facts.ge])
        ev = Ev01(facts, q)
        env = {self_: a.value, "Sum": Obj("cls", name="Sum")}
        if which == "then":
            env[fn.args.vararg.arg] = (b.value,)
        else:
            env[fn.args.args[1].arg] = b.value
            if fn.args.vararg:
                env[fn.args.vararg.arg] = ()
        ev.builtins["isinstance"] = lambda v, cl: (getattr(cl, "f", {}).get("name") or "Diagram") in v.f.get("isa", ()) if isinstance(v, Obj) else False
        try:
            r = ev.run(fn.body, env)
            if not r or r[0] != "return" or not isinstance(r[1], Obj) or r[1].kind != "Diagram":
                raise Unsupported("main path does not return a Diagram construction")
            res = r[1]
            fails = []
            check_RI(res, ev, fails, which)
            probs += ["%s%s" % (f, "" if not facts.ge else "  [case %s]" % facts.ge) for f in fails]
            ctx.summaries.setdefault(which, (res, a, b, ev))
        except Unlocatable as e:
            probs.append("slice boundary: %s" % e)
        except Undecided as e:
            lin = e.lin
            if lin is None or not (lin.vars() <= {"n_a", "n_b"}):
                raise AnalysisError("%s outside the recognised idioms: %s" % (q, e))
            gen = lin.subst({"n_a": Lin.var("n_a#"), "n_b": Lin.var("n_b#")})
            base = [f.subst({"n_a": Lin.var("n_a#"), "n_b": Lin.var("n_b#")}) for f in facts.ge]
            work.append(Facts(base + [gen, -gen]))          # == 0
            work.append(Facts(base + [gen - 1]))            # >= 1
        except Unsupported as e:
            raise AnalysisError("%s outside the recognised idioms: %s" % (q, e))
    return probs, "generic-instance(%s)" % which


def h_mon_getitem(ctx, mod, q, fn, c, kind):
    """Diagram(*(L.dom, L.cod) + zip((box, len(left)) for left, box, _ in L), layers=L) with L = self.layers[key]"""
    self_, key = fn.args.args[0].arg, fn.args.args[1].arg
    probs = []
    lay = kw(c, "layers")
    L = ast.unparse(lay) if lay is not None else None
    lv = assigned_value(fn, L, c) if L else None
    if lv is None or ast.unparse(lv) != "%s.layers[%s]" % (self_, key):
        probs.append("layers is %s = %s, required %s.layers[%s] (typed by cat.Arrow.__getitem__)" % (L, ast.unparse(lv) if lv else None, self_, key))
    star = [x for x in c.args if isinstance(x, ast.Starred)]
    if len(c.args) != 1 or not star:
        return probs + ["positional arguments are not one starred tuple"], "derived-from-layers"
    inputs = assigned_value(fn, ast.unparse(star[0].value), c)
    ok = isinstance(inputs, ast.BinOp) and isinstance(inputs.op, ast.Add) and ast.unparse(inputs.left) == "(%s.dom, %s.cod)" % (L, L)
    if not ok:
        probs.append("dom/cod are %s, required (%s.dom, %s.cod)" % (ast.unparse(inputs.left) if isinstance(inputs, ast.BinOp) else None, L, L))
    else:
        bo = assigned_value(fn, ast.unparse(inputs.right), c) if isinstance(inputs.right, ast.Name) else inputs.right
        gens = [n for n in ast.walk(bo)] if bo is not None else []
        ge = [n for n in gens if isinstance(n, (ast.GeneratorExp, ast.ListComp))]
        good = False
        for gnode in ge:
            gen = gnode.generators[0]
            if ast.unparse(gen.iter) == L and isinstance(gen.target, ast.Tuple) and len(gen.target.elts) == 3 \
                    and isinstance(gnode.elt, ast.Tuple) and len(gnode.elt.elts) == 2:
                l, b, _ = (ast.unparse(t) for t in gen.target.elts)
                if ast.unparse(gnode.elt.elts[0]) == b and ast.unparse(gnode.elt.elts[1]) == "len(%s)" % l:
                    good = True
        if not good:
            probs.append("boxes/offsets are not derived as (box, len(left)) from the layers %s: %s" % (L, ast.unparse(bo) if bo is not None else None))
    return probs, "derived-from-layers"


def h_upgrade_copy(ctx, mod, q, fn, c, kind):
    """K(f(old.dom), f(old.cod), old.boxes, old.offsets, old.layers) with f word-preserving (R01.4)"""
    a = [ast.unparse(x) for x in c.args]
    old = fn.args.args[0].arg
    probs = []
    if len(a) != 5 or a[2:] != [old + ".boxes", old + ".offsets", old + ".layers"]:
        probs.append("boxes/offsets/layers are not copied from one value: %s" % a)
    for arg, side in zip(c.args[:2], ("dom", "cod")):
        s = ast.unparse(arg)
        v = assigned_value(fn, s, c) if isinstance(arg, ast.Name) else arg
        sv = ast.unparse(v) if v is not None else s
        if sv not in ("ob_upgrade(%s.%s)" % (old, side), "len(%s.%s)" % (old, side), "%s.%s" % (old, side)):
            probs.append("%s is %s, required an upgrade of %s.%s" % (side, sv, old, side))
    return probs, "copy-through-upgrade"


def h_mon_box(ctx, mod, q, fn, c, kind):
    """monoidal.Box.__init__ / downgrade: the one-box diagram Layer(ε, self, ε)"""
    D, C = Atom("dom"), Atom("cod")
    ev = EvInit(Facts(), q)
    ev.classes.update({"cat.Arrow": arrow_capture(ev)})
    cap = {}
    ev.classes["Diagram.__init__"] = Closure(lambda s, dom, cod, boxes, offsets, layers=None: cap.update(
        s=s, dom=dom, cod=cod, boxes=boxes, offsets=offsets, layers=layers))
    self_ = fn.args.args[0].arg
    me = Box("self", Seq.atom(D), Seq.atom(C))
    env = {self_: me}
    names = [x.arg for x in fn.args.args[1:]]
    if "dom" in names:
        env.update(dom=Seq.atom(D), cod=Seq.atom(C), name="name")
    if q.endswith("downgrade"):
        ev.classes["Box.__new__"] = Closure(lambda k: Box("box", None, None))
        ev.classes["Box"] = "Box"
    ev.run_tolerant(fn.body, env, stop_at=None)
    probs = []
    arrows = [a for k_, a in ev.captured if a.f["_scan"] is False]
    if not arrows and ev.unlocatable:
        return ["slice boundary cannot be placed: %s" % ev.unlocatable[0]], "one-box"
    if not arrows and not ev.captured:
        raise AnalysisError("%s: the unscanned cat.Arrow(...) could not be evaluated (skipped: %s)" % (q, ev.skipped[:3]))
    # (an arrow built WITH the scan is checked when it is built: nothing to discharge for it)
    for a in arrows:
        probs += check_arrow_RI(a, ev.facts)
        lays = [p.value for p in a.f["boxes"].parts if isinstance(p, Item)]
        if len(lays) != 1 or lays[0].kind != "Layer":
            probs.append("layers are %r, required one Layer" % (a.f["boxes"],))
            continue
        lay = lays[0]
        if not ev.facts.zero(lay.f["left"].length):
            probs.append("the layer's left wires %r are not empty but the offset is 0" % (lay.f["left"],))
        owner = lay.f["box"]
        if not (owner.f["dom"].same(a.f["dom"], ev.facts) and owner.f["cod"].same(a.f["cod"], ev.facts)):
            probs.append("box typed %r -> %r inside layers typed %r -> %r" % (owner.f["dom"], owner.f["cod"], a.f["dom"], a.f["cod"]))
    if cap:
        if cap["layers"] is not None and not (cap["dom"].same(cap["layers"].f["dom"], ev.facts) and cap["cod"].same(cap["layers"].f["cod"], ev.facts)):      # without layers= the constructor scans
            probs.append("RI2: Diagram typed %r -> %r over layers %r -> %r" % (cap["dom"], cap["cod"], cap["layers"].f["dom"], cap["layers"].f["cod"]))
        bx = [p.value for p in cap["boxes"].parts]
        of = [p.value for p in cap["offsets"].parts]
        if bx != [me] or of != [Lin.of(0)]:
            probs.append("boxes/offsets are %r / %r, required [self] / [0]" % (cap["boxes"], cap["offsets"]))
    elif kind == "diagram":
        raise AnalysisError("%s: Diagram.__init__ call not evaluated (skipped: %s)" % (q, ev.skipped[:3]))
    return probs, "one-box"


def h_reinit_own_layers(ctx, mod, q, fn, c, kind):
    """rigid.Box.__init__: Diagram.__init__(self, dom, cod, [self], [0], layers=self.layers) right after the parent
    box initialiser was called with the same dom/cod (which establishes RI for exactly these arguments)"""
    a = [ast.unparse(x) for x in c.args]
    self_ = fn.args.args[0].arg
    probs = []
    lay = kw(c, "layers")
    if len(a) < 5 or a[0] != self_ or a[3] != "[%s]" % self_ or a[4] != "[0]" or lay is None or ast.unparse(lay) != self_ + ".layers":
        return ["arguments %s are not (self, dom, cod, [self], [0], layers=self.layers)" % a], "re-init"
    prev = [n for n in own_nodes(fn) if isinstance(n, ast.Call) and n.lineno < c.lineno and ast.unparse(n.func).endswith("Box.__init__")]
    ok = False
    for p in prev:
        pa = [ast.unparse(x) for x in p.args]
        k = ctx.model.resolve_class(mod, ast.unparse(p.func)[:-len(".__init__")])
        if k is not None and ctx.model.is_subclass(k, ctx.model.cls(MON + ".Box")) and len(pa) >= 4 and pa[0] == self_ and pa[2:4] == a[1:3]:
            ok = True
    if not ok:
        probs.append("no preceding <monoidal box>.__init__(self, name, %s, %s) establishing self.layers for these types" % (a[1], a[2]))
    return probs, "re-init-with-own-layers"


def h_interchange(ctx, mod, q, fn, c, kind):
    """delegated to the generic-instance evaluation of C05 (rule R05.2)"""
    from . import c05
    from ..core import Ctx
    sub = Ctx("C05", ctx.model, ctx.tier)
    c05.check(sub)
    probs = ["%s %s: found %s required %s" % (o.rule, o.construct, o.found, o.required) for o in sub.obs if not o.ok and o.rule == "R05.2"]
    n = sum(1 for o in sub.obs if o.rule == "R05.2" and o.ok)
    if not probs and sub.broken:
        raise AnalysisError("dependency C05 of C01 could not be analysed: %s" % sub.broken)
    if not probs and n < 3:
        probs.append("fewer than 3 exchanging branches verified (%d)" % n)
    return probs, "generic-instance(interchange, %d branches)" % n


def h_unsnake(ctx, mod, q, fn, c, kind):
    """parallel deletion: boxes, offsets, layers cut with identical index expressions; layers joined by checked >>;
    dom/cod those of the input; prefix starts at 0 and suffix runs to the end"""
    a = c.args
    probs = []
    if len(a) != 5:
        return ["unexpected arity"], "parallel-deletion"
    d, cd, bx, of, ly = (ast.unparse(x) for x in a)
    if not (d.endswith(".dom") and cd.endswith(".cod") and d[:-4] == cd[:-4]):
        probs.append("dom/cod %s, %s are not those of one input diagram" % (d, cd))
    X = d[:-4]
    vals = {n: assigned_value(fn, n, c) for n in (bx, of, ly)}
    if any(v is None for v in vals.values()):
        return probs + ["cannot find the definitions of %s" % [k for k, v in vals.items() if v is None]], "parallel-deletion"
    def cuts(v, attr, op):
        if not (isinstance(v, ast.BinOp) and isinstance(v.op, op)):
            return None
        out = []
        for side in (v.left, v.right):
            if not (isinstance(side, ast.Subscript) and ast.unparse(side.value) == "%s.%s" % (X, attr) and isinstance(side.slice, ast.Slice)):
                return None
            s = side.slice
            out.append((ast.unparse(s.lower) if s.lower else None, ast.unparse(s.upper) if s.upper else None))
        return out
    cb, co, cl = cuts(vals[bx], "boxes", ast.Add), cuts(vals[of], "offsets", ast.Add), cuts(vals[ly], "layers", ast.RShift)
    if not (cb and co and cl):
        probs.append("boxes/offsets/layers are not two-slice splices of %s: %s / %s / %s" % (X, *(ast.unparse(vals[k]) for k in (bx, of, ly))))
    else:
        if not (cb == co == cl):
            probs.append("boxes, offsets, layers are cut differently: %s / %s / %s" % (cb, co, cl))
        if cb[0][0] is not None or cb[1][1] is not None:
            probs.append("the kept prefix/suffix %s do not start at 0 / run to the end (dom/cod would change)" % (cb,))
    return probs, "parallel-deletion"


def h_forward(ctx, mod, q, fn, c, kind):
    """a constructor forwarding its own `layers` parameter to the parent constructor: the obligation moves to its callers
    (they are census sites themselves)"""
    lay = kw(c, "layers", 4)
    probs = []
    params = [x.arg for x in fn.args.args]
    if lay is None or not isinstance(lay, ast.Name) or lay.id not in params:
        probs.append("layers argument %s is not the constructor's own parameter" % (ast.unparse(lay) if lay else None))
    return probs, "forwarding"


def h_copy_result(ctx, mod, q, fn, c, kind):
    """cartesian.Copy/Discard: (dom', cod', R.boxes, R.offsets, layers=R.layers) for one API-built value R;
    dom'/cod' must be R's (here decided by wire counting, all cartesian wires having type 1)"""
    a = [ast.unparse(x) for x in c.args]
    lay = kw(c, "layers", 4)
    probs = []
    R = ast.unparse(lay)[:-len(".layers")] if lay is not None and ast.unparse(lay).endswith(".layers") else None
    if R is None or a[2:4] != [R + ".boxes", R + ".offsets"]:
        return ["boxes/offsets/layers are not copied from one value: %s" % a], "copy-of-api-value"
    if a[0] == R + ".dom" and a[1] == R + ".cod":
        return probs, "copy-of-api-value"
    from .c19 import pro_type_of
    try:
        got = pro_type_of(ctx, mod, fn, R, c)
        n = Lin.var(fn.args.args[1].arg)
        lin = lambda s: {fn.args.args[1].arg: n, "2 * " + fn.args.args[1].arg: n * 2}.get(s)
        want = (lin(a[0]), lin(a[1]))
        if want[0] is None or want[1] is None:
            raise Unsupported("claimed types %s" % a[:2])
        if got != want:
            probs.append("claimed type %r -> %r but the copied value has %r -> %r" % (want[0], want[1], got[0], got[1]))
    except (Unsupported, Undecided) as e:
        raise AnalysisError("%s: cannot type the copied value %s: %s" % (q, R, e))
    return probs, "copy-of-api-value(wire count)"


HANDLERS = {
    (CAT, "Arrow.__getitem__"): h_cat_getitem,
    (CAT, "Arrow.then"): h_cat_then,
    (CAT, "Id.__init__"): h_identity,
    (CAT, "Box.__init__"): h_cat_box,
    (MON, "Diagram.then"): h_mon_then_tensor,
    (MON, "Diagram.tensor"): h_mon_then_tensor,
    (MON, "Diagram.__getitem__"): h_mon_getitem,
    (MON, "Diagram.subclass.upgrade"): h_upgrade_copy,
    (MON, "Id.__init__"): h_identity,
    (MON, "Box.downgrade"): h_mon_box,
    (MON, "Box.__init__"): h_mon_box,
    (RW, "interchange"): h_interchange,
    (RW, "snake_removal.unsnake"): h_unsnake,
    (RIG, "Id.__init__"): h_identity,
    (RIG, "Box.__init__"): h_reinit_own_layers,
    (CART, "Diagram.__init__"): h_forward,
    (CART, "Diagram.upgrade"): h_upgrade_copy,
    (CART, "Copy.__init__"): h_copy_result,
    (CART, "Discard.__init__"): h_copy_result,
}


# ----------------------------------------------------------------------------------------------------------------
THEN_FUNCTIONS = (CAT + ".Arrow.then", MON + ".Diagram.then", "discopy.tensor.Tensor.then", "discopy.quantum.cqmap.CQMap.then", "discopy.cartesian.Function.then")


def check_then_guards(ctx, rule="R01.3", only=None):
    """every way out of a `then` compares the types: it delegates to another composition (a call of `.then(...)` or `>>` on the components, themselves
    guarded), or it is dominated by `cod != dom -> AxiomError`; the only unguarded return is `self` for the empty composition (`not others`)"""
    m = ctx.model
    for q in THEN_FUNCTIONS:
        if only is not None and q not in only:
            continue
        fn = m.func(q)
        ctx.analysed(q)
        self_ = fn.args.args[0].arg
        var = fn.args.vararg.arg if fn.args.vararg else None
        g = CFG(fn)
        bad = []
        for r in [x for x in own_nodes(fn) if isinstance(x, ast.Return)]:
            v = r.value
            delegates = v is not None and any((isinstance(c, ast.Call) and isinstance(c.func, ast.Attribute) and c.func.attr == "then") or
                                              (isinstance(c, ast.BinOp) and isinstance(c.op, (ast.RShift, ast.LShift))) for c in ast.walk(v))
            guards = g.raising_guards_before(r)
            guarded = any(lab == "T" and "AxiomError" in how and isinstance(st.test, ast.Compare) and len(st.test.ops) == 1 and isinstance(st.test.ops[0], ast.NotEq)
                          and {"cod", "dom"} <= {x.attr for x in ast.walk(st.test) if isinstance(x, ast.Attribute)} for st, lab, how in guards)
            empty = v is not None and ast.unparse(v) == self_ and var is not None and any(isinstance(st, ast.If) and ast.unparse(st.test) == "not " + var and any(x is r for x in ast.walk(st))
                                                                                          for st in ast.walk(fn))
            if not (delegates or guarded or empty):
                bad.append("line %d: `return %s`" % (r.lineno, ast.unparse(v)[:60] if v is not None else ""))
        ctx.ob(rule, q + ":every-exit-guarded", not bad, found=bad or "every return delegates to a guarded composition or follows the cod != dom guard",
               required="no path out of a composition skips the comparison of the codomain with the domain (fast paths included)", mod=q.rsplit(".", 2)[0], node=fn, sig="then-exits")


def check_scanning_ctors(ctx):
    m = ctx.model
    # --- cat.Arrow.__init__
    fn = m.func(CAT + ".Arrow.__init__")
    ctx.analysed(CAT + ".Arrow.__init__", MON + ".Diagram.__init__")
    params = {a.arg: d for a, d in zip(fn.args.args[::-1], fn.args.defaults[::-1])}
    ctx.ob("R01.3", CAT + ".Arrow.__init__:_scan-default", "_scan" in params and isinstance(params["_scan"], ast.Constant) and params["_scan"].value is True,
           found=ast.unparse(params["_scan"]) if "_scan" in params else "no _scan parameter", required="_scan=True", mod=CAT, node=fn, sig="scan-default")
    scan_if = next((s for s in fn.body if isinstance(s, ast.If) and ast.unparse(s.test) == "_scan"), None)
    ctx.need(scan_if is not None, "no `if _scan:` block in cat.Arrow.__init__")
    loop = next((s for s in scan_if.body if isinstance(s, ast.For)), None)
    ctx.need(loop is not None, "no scanning loop in cat.Arrow.__init__")
    # scan variable: initialised from dom, compared with box.dom (raise AxiomError), updated to box.cod, finally compared to cod
    init = [s for s in scan_if.body if isinstance(s, ast.Assign) and s.lineno < loop.lineno and ast.unparse(s.value) == "dom"]
    ctx.need(len(init) == 1 and isinstance(init[0].targets[0], ast.Name), "scan variable of cat.Arrow.__init__ not found")
    sv = init[0].targets[0].id
    boxv = loop.target.elts[1].id if isinstance(loop.target, ast.Tuple) else loop.target.id
    body_guard = any(isinstance(s, ast.If) and neq_guard(s.test, boxv + ".dom", sv) and isinstance(s.body[-1], ast.Raise)
                     and "AxiomError" in ast.unparse(s.body[-1]) for s in loop.body)
    upd = [s for s in loop.body if isinstance(s, ast.Assign) and ast.unparse(s.targets[0]) == sv]
    ctx.ob("R01.2", CAT + ".Arrow.__init__:scan-compare", body_guard, found=[ast.unparse(s.test) for s in loop.body if isinstance(s, ast.If)],
           required="if %s.dom != %s: raise AxiomError" % (boxv, sv), mod=CAT, node=loop, sig="scan-compare")
    ctx.ob("R01.2", CAT + ".Arrow.__init__:scan-update", len(upd) == 1 and ast.unparse(upd[0].value) == boxv + ".cod" and
           all(not (isinstance(s, ast.If) and neq_guard(s.test, boxv + ".dom", sv)) or s.lineno < upd[0].lineno for s in loop.body),
           found=[ast.unparse(u) for u in upd], required="%s = %s.cod after the comparison" % (sv, boxv), mod=CAT, node=loop, sig="scan-update")
    after = [s for s in scan_if.body if s.lineno > loop.lineno and isinstance(s, ast.If) and neq_guard(s.test, sv, "cod")
             and "AxiomError" in ast.unparse(s.body[-1])]
    ctx.ob("R01.2", CAT + ".Arrow.__init__:scan-final", bool(after), found=[ast.unparse(s.test) for s in scan_if.body if isinstance(s, ast.If)],
           required="if %s != cod: raise AxiomError after the loop" % sv, mod=CAT, node=scan_if, sig="scan-final")
    it = ast.unparse(loop.iter)
    ctx.ob("R01.2", CAT + ".Arrow.__init__:scan-all", it in ("enumerate(boxes)", "boxes"), found=it, required="every box is scanned",
           mod=CAT, node=loop, sig="scan-all")
    store = [s for s in fn.body if isinstance(s, ast.Assign) and "self._boxes" in ast.unparse(s.targets[0])]
    ok = bool(store) and ast.unparse(store[0]).replace(" ", "") in ("self._dom,self._cod,self._boxes=(dom,cod,boxes)",)
    ctx.ob("R01.2", CAT + ".Arrow.__init__:stores-scanned", ok, found=[ast.unparse(s) for s in store], required="the scanned dom, cod, boxes are what is stored",
           mod=CAT, node=store[0] if store else fn, sig="stores")

    # --- monoidal.Diagram.__init__
    fn = m.func(MON + ".Diagram.__init__")
    params = {a.arg: d for a, d in zip(fn.args.args[::-1], fn.args.defaults[::-1])}
    ctx.ob("R01.3", MON + ".Diagram.__init__:layers-default", "layers" in params and isinstance(params["layers"], ast.Constant) and params["layers"].value is None,
           found=ast.unparse(params["layers"]) if "layers" in params else "no layers parameter", required="layers=None (scan by default)",
           mod=MON, node=fn, sig="layers-default")
    g0 = [s for s in fn.body if isinstance(s, ast.If) and isinstance(s.body[-1], ast.Raise) and ast.unparse(s.test) in
          ("len(boxes) != len(offsets)", "len(offsets) != len(boxes)")]
    ctx.ob("R01.2", MON + ".Diagram.__init__:RI1", bool(g0), found=[ast.unparse(s.test) for s in fn.body if isinstance(s, ast.If)],
           required="len(boxes) != len(offsets) raises", mod=MON, node=fn, sig="ri1")
    scan_if = next((s for s in fn.body if isinstance(s, ast.If) and ast.unparse(s.test) == "layers is None"), None)
    ctx.need(scan_if is not None, "no `if layers is None:` scanning branch in monoidal.Diagram.__init__")
    loop = next((s for s in scan_if.body if isinstance(s, ast.For)), None)
    ctx.need(loop is not None and ast.unparse(loop.iter) == "zip(boxes, offsets)", "scanning loop of monoidal.Diagram.__init__ is not over zip(boxes, offsets)")
    init = [s for s in scan_if.body if s.lineno < loop.lineno and isinstance(s, ast.Assign)]
    fin = [s for s in scan_if.body if s.lineno > loop.lineno and isinstance(s, ast.Assign)]
    ctx.ob("R01.2", MON + ".Diagram.__init__:RI2-dom", len(init) == 1 and ast.unparse(init[0]) == "layers = cat.Id(dom)",
           found=[ast.unparse(s) for s in init], required="layers = cat.Id(dom)", mod=MON, node=scan_if, sig="ri2-dom")
    ctx.ob("R01.2", MON + ".Diagram.__init__:RI2-cod", len(fin) == 1 and ast.unparse(fin[0]) == "layers = layers >> cat.Id(cod)",
           found=[ast.unparse(s) for s in fin], required="layers = layers >> cat.Id(cod)  (checked composition)", mod=MON, node=scan_if, sig="ri2-cod")
    # one generic iteration: |left| must provably be the offset on the non-raising path
    for first in (True, False):
        ROW, DOMB = Atom("row"), Atom("box.dom")
        off = Lin.var("off")
        ev = Evaluator(Facts(free=["off"]), MON + ".Diagram.__init__")
        ev.classes.update(Layer=Closure(Layer), **{"cat.Id": Closure(lambda t: Arrow(t, t, Seq()))})
        ev.builtins["isinstance"] = lambda v, cl: True
        ev.classes["AxiomError"] = "AxiomError"
        box = Box("box", Seq.atom(DOMB), Seq.atom(Atom("box.cod")))
        row = Seq.atom(ROW)
        layers = Arrow(row, row, Seq()) if first else Arrow(Seq.atom(Atom("dom")), row, Seq.atom(Atom("layers", Lin.var("k") + 1)))
        env = {"dom": row if first else Seq.atom(Atom("dom")), "layers": layers, "Diagram": "Diagram", "int": "int", "cat": None, "messages": None}
        ev.bind(loop.target, (box, off), env)
        tag = "first-iteration" if first else "later-iteration"
        found, ok = None, False
        try:
            for st in loop.body:
                if isinstance(st, ast.If) and any(isinstance(s, ast.Raise) for s in st.body) and not st.orelse:
                    try:
                        if ev.truth(ev.ev(st.test, env), st.test):
                            raise Unsupported("guard always raises")
                    except Undecided:
                        assume(ev, st.test, False, env)
                    continue
                ev.run([st], env)
            new = env["layers"].f["boxes"].parts[-1].value
            ok = ev.facts.eq(new.f["left"].length, off)
            found = "|left| = %r" % new.f["left"].length
            comp = [o for o in ev.obligations if o.kind.startswith("compose")]
            if ok and not comp:
                ok, found = False, "the new layer is not composed with the previous ones by a checked >>"
        except Unlocatable as e:
            found = "offsets outside [0, len(row) - len(box.dom)] are not refused before slicing: %s" % e
        except (Unsupported, Undecided) as e:
            raise AnalysisError("monoidal.Diagram.__init__ loop outside the recognised idioms: %s" % e)
        ctx.ob("R01.2", MON + ".Diagram.__init__:RI3:" + tag, ok, found=found, required="|left| = off on every non-raising path (Python slices clamp silently)",
               mod=MON, node=loop, sig="ri3-offset-range")


def check_upgrades(ctx):
    """R01.4: every `upgrade` of a type class reachable from Diagram.subclass is word-preserving"""
    m = ctx.model
    ty = m.cls(MON + ".Ty")
    n = 0
    for k in sorted(m.subclasses(ty), key=lambda c: c.q):
        if "upgrade" not in k.methods:
            continue
        fn = k.methods["upgrade"][0]
        old = fn.args.args[0].arg
        rets = [s for s in ast.walk(fn) if isinstance(s, ast.Return)]
        ok, found = True, []
        for r in rets:
            s = ast.unparse(r.value)
            found.append(s)
            fine = s in (old, "%s(*%s.objects)" % (k.name, old), "%s(*%s)" % (k.name, old), "%s[0]" % old,
                         "%s(len(%s))" % (k.name, old), "%s(len(monoidal.PRO.upgrade(%s)))" % (k.name, old),
                         "%s(*[x.name for x in %s.objects])" % (k.name, old))
            if s.endswith("(len(%s))" % old):
                # length-only upgrade: sound only behind the check that every object is the unit wire (named 1)
                unit_check = False
                for lp in [x for x in ast.walk(fn) if isinstance(x, ast.For) and ast.unparse(x.iter) == old and isinstance(x.target, ast.Name)]:
                    for st in lp.body:
                        if isinstance(st, ast.If) and st.body and isinstance(st.body[-1], ast.Raise) and \
                                shape.key(shape.rename(st.test, {lp.target.id: "obj"})) == shape.key(shape.parse("obj.name != 1")):
                            unit_check = True
                if not unit_check:
                    found.append("no `for obj in %s: if obj.name != 1: raise` before the length-only rebuild" % old)
                fine = fine and unit_check
            ok = ok and fine
        ctx.ob("R01.4", k.q + ".upgrade", ok and bool(rets), found=found, required="returns the same objects re-wrapped (word-preserving)",
               mod=k.mod, node=fn, sig="upgrade-word-preserving")
        ctx.analysed(k.q + ".upgrade")
        n += 1
    return n


def check(ctx):
    m = ctx.model
    ctx.summaries = {}
    ctx.rule("R01.0", "every construction site that bypasses the scan is known and discharged by a named pattern")
    ctx.rule("R01.1", "assuming RI of the inputs, the arguments of the unscanned construction satisfy RI")
    ctx.rule("R01.2", "the scanning constructors refuse every ill-typed request (AxiomError / range of offsets) and store what they scanned")
    ctx.rule("R01.3", "guards: composition is refused unless cod == dom; the scan is on by default")
    ctx.rule("R01.4", "type upgrades used by Diagram.subclass are word-preserving")
    sites = census(m)
    seen = set()
    for mod, q, fn, c, kind in sites:
        ctx.analysed(mod + "." + q)
        cname = "%s.%s:%s" % (mod, q, "Arrow" if kind == "arrow" else "Diagram")
        if (mod, q) == (MON, "Diagram.__init__") and ast.unparse(c.func) == "super().__init__":
            # the cat-level view of a diagram: RI of the diagram is established by this same constructor (R01.2) or by the
            # caller that passed `layers` (a census site of its own)
            ctx.ob("R01.0", cname, True, found=ast.unparse(c), required="delegation to R01.2 / callers", mod=mod, node=c, trivial=True)
            continue
        h = HANDLERS.get((mod, q))
        if h is None:
            raise AnalysisError("new unscanned construction site %s (%s:%d: %s) matches no discharge pattern; it cannot be decided"
                                % (cname, m.path_of(mod), c.lineno, ast.unparse(c)[:80]))
        probs, pattern = h(ctx, mod, q, fn, c, kind)
        seen.add((mod, q))
        ctx.ob("R01.0", cname, True, found=pattern, required="a discharge pattern", mod=mod, node=c, trivial=True)
        if probs:
            for p in probs:
                ctx.ob("R01.1", cname, False, found=p, required="RI by pattern `%s`" % pattern, mod=mod, node=c,
                       sig=pattern.split("(")[0] + ":" + sig_of(p))
        else:
            ctx.ob("R01.1", cname, True, found=pattern, required="RI1-RI4", mod=mod, node=c)
    ctx.attempt(check_scanning_ctors, ctx)
    ctx.attempt(check_then_guards, ctx)
    nup = check_upgrades(ctx)
    # boxes are one-box diagrams: the dagger of every concrete box class is typed cod -> dom (abstract construction, shared with C02)
    from .c02 import check_daggers
    ctx.rule("R01.5", "the dagger of every concrete box class binds and is typed cod -> dom (generic instance of each class, constructed and daggered abstractly)")
    ndg = check_daggers(ctx, rule="R01.5", kinds=("types", "not-a-box"))
    ctx.floor("R01.5", 30)
    # the refusal guards (R01.2 / R01.3) compare types with == : equality of objects and types must be structural (decided by C03)
    from ..core import Ctx
    from . import c03
    ctx.rule("R01.6", "equality of objects and types, which every composition guard relies on, is structural (C03 on the Ob / Ty classes)")
    sub = Ctx("C03", m, ctx.tier)
    c03_error = None
    try:
        c03.check(sub)
    except AnalysisError as e:          # what C03 decided before it had to stop still counts
        c03_error = str(e)
    tycls = [c for c in m.classes.values() if any(k.q in ("discopy.cat.Ob", "discopy.monoidal.Ty") for k in m.mro(c))]
    n6 = 0
    for c in sorted(tycls, key=lambda c: c.q):
        mine = [o for o in sub.obs if o.construct.startswith(c.q + ".__eq__") or o.construct.startswith(c.q + ".__hash__")]
        if not mine:
            continue
        bad = [o for o in mine if not o.ok]
        n6 += 1
        ctx.ob("R01.6", c.q + ":equality", not bad, found=["%s %s: %s" % (o.rule, o.construct, str(o.found)[:80]) for o in bad][:2] or "%d obligations of C03 discharged" % len(mine),
               required="two objects / types are equal only if they agree on every field that distinguishes wires (name, winding, dimension, …)", mod=c.mod, node=c.node,
               sig="type-eq:" + ",".join(sorted({o.construct.rsplit(":", 1)[-1] for o in bad})))
    if c03_error and not any(not o.ok for o in ctx.obs if o.rule == "R01.6"):
        raise AnalysisError("dependency C03 of C01 could not be analysed: %s" % c03_error)
    ctx.need(n6 >= 3 and not sub.broken, "C03 did not decide the equality of at least 3 object / type classes (%d)" % n6)
    ctx.floor("R01.0", 20)
    ctx.floor("R01.1", 18)
    ctx.floor("R01.2", 9)
    ctx.floor("R01.4", 5)
    ctx.not_decided += ["values built by user subclasses", "images supplied by the user to functors (refused at run time by checked >>)"]
    ctx.assumptions += ["types of cartesian / PRO / Dim categories are PRO / Dim values (class invariant) so len-based upgrades keep the word"]


def sig_of(p):
    """a position-free signature of a problem text: its first words without numbers"""
    import re
    return re.sub(r"[0-9]+", "#", p)[:60]
