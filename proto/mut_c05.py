import sys, re; sys.path.insert(0, '/tmp/spike')
from sa import c05
src = open('/repo/discopy/rewriting.py').read()
muts = {
 'swap dom/cod in off1 update (branch 3)': ("    elif off1 >= off0 + len(box0.cod):  # box0 left of box1\n        off1 = off1 - len(box0.cod) + len(box0.dom)", "    elif off1 >= off0 + len(box0.cod):  # box0 left of box1\n        off1 = off1 - len(box0.dom) + len(box0.cod)"),
 '>= to > in branch 2': ("elif off0 >= off1 + len(box1.dom):", "elif off0 > off1 + len(box1.dom):"),
 'middle slice uses dom': ("middle = left0[len(left1 @ box1.dom):]", "middle = left0[len(left1 @ box1.cod):]"),
 'boxes not swapped': ("boxes = self.boxes[:i] + [box1, box0] + self.boxes[i + 2:]", "boxes = self.boxes[:i] + [box0, box1] + self.boxes[i + 2:]"),
 'offsets not swapped': ("offsets = self.offsets[:i] + [off1, off0] + self.offsets[i + 2:]", "offsets = self.offsets[:i] + [off0, off1] + self.offsets[i + 2:]"),
 'layer0 right wrong': ("layer0 = Layer(left1 @ box1.cod @ middle, box0, right0)", "layer0 = Layer(left1 @ box1.dom @ middle, box0, right0)"),
 'i+2 -> i+1 in layers': ("layer0 >> self.layers[i + 2:]", "layer0 >> self.layers[i + 1:]"),
 'condition dom->cod': ("elif off0 >= off1 + len(box1.dom):", "elif off0 >= off1 + len(box1.cod):"),
 'drop unconditional left branch': ("    elif off1 >= off0 + len(box0.cod):  # box0 left of box1\n        off1 = off1 - len(box0.cod) + len(box0.dom)\n        middle = left1[len(left0 @ box0.cod):]\n        layer0 = Layer(left0, box0, middle @ box1.cod @ right1)\n        layer1 = Layer(left0 @ box0.dom @ middle, box1, right1)\n", ""),
 # benign
 'BENIGN rename + temp': ("    off0, off1 = self.offsets[i], self.offsets[j]", "    off0, off1 = self.offsets[i], self.offsets[j]\n    w0 = len(box0.cod) if False else 0"),
 'BENIGN reversed comparison': ("elif off0 >= off1 + len(box1.dom):", "elif off1 + len(box1.dom) <= off0:"),
 'BENIGN equal word in two steps': ("middle = left0[len(left1 @ box1.dom):]", "skip = len(left1) + len(box1.dom)\n        middle = left0[skip:]"),
}
for name, (a, b) in muts.items():
    assert a in src, name
    open('/tmp/spike/rw_mut.py', 'w').write(src.replace(a, b, 1))
    msgs = []
    try:
        rc = c05.check('/tmp/spike/rw_mut.py', out=msgs.append)
    except Exception as e:
        rc = 'EXC %s: %s' % (type(e).__name__, e)
    print('%-42s rc=%s %s' % (name, rc, '; '.join(m for m in msgs if 'VIOLATION' in m or 'ANALYSIS' in m)[:230]))
