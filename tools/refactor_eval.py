"""Evaluate behaviour-preserving refactorings written by sub-agents:  refactor_eval.py [-j N] [--store <PROP> <dir with change_i.diff / note_i.txt>]... | [--recheck]

The no-false-alarm side of the validation.  Each refactoring was written by an independent sub-agent that was given only the
property text and a scratch worktree and was asked for clean-ups that do NOT change behaviour.  For each one: apply it to a scratch
copy of /repo (outside /repo and /verif), confirm that the pinned suite still passes, then run all twenty checks on the copy.
Expected: every check exits 0 (silent).  exit 2 (analysis-error: "I do not recognise this code any more") is a refusal, not a false
alarm, but it is counted; exit 1 on a refactoring is a false alarm and must be corrected in the machinery (or the refactoring is shown
to change behaviour after all, in which case it is moved to the seeds).
Stored under /verif/refactors/<PROP>-<k>/ (patch.diff, note.txt, meta.json); --recheck re-runs the checks on everything stored."""
import json, os, shutil, subprocess, sys, tempfile, glob
from concurrent.futures import ThreadPoolExecutor
VERIF = os.path.dirname(os.path.dirname(os.path.abspath(__file__)))
allprops = sorted(f[:-3].upper() for f in os.listdir(os.path.join(VERIF, "sa", "rules")) if len(f) == 6 and f.startswith("c") and f.endswith(".py") and f[1:3].isdigit())
args = sys.argv[1:]
jobs = 8
if "-j" in args:
    jobs = int(args[args.index("-j") + 1])
    del args[args.index("-j"):args.index("-j") + 2]


def run(cmd, **kw):
    return subprocess.run(cmd, capture_output=True, text=True, **kw)


def checks(tmp):
    res, detail = {}, {}
    for p in allprops:
        r = run([sys.executable, "-m", "sa.check", p, "--repo", tmp, "--out", os.path.join(tmp, "_o")], cwd=VERIF, timeout=900)
        res[p] = {0: "silent", 1: "violation", 2: "analysis-error"}.get(r.returncode, str(r.returncode))
        if r.returncode:
            detail[p] = [l.strip()[:260] for l in (r.stdout + r.stderr).splitlines() if l.startswith("  R") or l.startswith("ANALYSIS") or "Error" in l][:4]
    return res, detail


def one(job):
    prop, diff, note, out = job
    tmp = tempfile.mkdtemp(prefix="refac_")
    try:
        shutil.copytree("/repo", tmp, dirs_exist_ok=True, ignore=shutil.ignore_patterns(".git", "__pycache__", "docs", "*.egg-info"))
        ap = run(["patch", "-p1", "--no-backup-if-mismatch", "-i", diff], cwd=tmp)
        if ap.returncode:
            return prop, diff, None, "patch does not apply", {}
        suite_ok = None
        if out is None or not os.path.exists(os.path.join(out, "meta.json")):
            st = run(["/venv/bin/python", os.path.join(VERIF, "tools", "suite.py"), tmp], timeout=1800)
            suite_ok = st.returncode == 0
        res, detail = checks(tmp)
        return prop, diff, suite_ok, res, detail
    finally:
        shutil.rmtree(tmp, ignore_errors=True)


jobs_list = []
if "--recheck" in args:
    for d in sorted(glob.glob(os.path.join(VERIF, "refactors", "*"))):
        if os.path.isdir(d):
            jobs_list.append((json.load(open(os.path.join(d, "meta.json")))["property"], os.path.join(d, "patch.diff"), None, d))
else:
    while "--store" in args:
        k = args.index("--store")
        prop, src = args[k + 1], args[k + 2]
        del args[k:k + 3]
        for diff in sorted(glob.glob(os.path.join(src, "change_*.diff"))):
            i = os.path.basename(diff)[7:-5]
            jobs_list.append((prop, diff, os.path.join(src, "note_%s.txt" % i), None))

with ThreadPoolExecutor(jobs) as ex:
    rows = list(ex.map(one, jobs_list))
tot = {"silent": 0, "analysis-error": 0, "violation": 0, "rejected": 0}
for (prop, diff, note, out), (_, _, suite_ok, res, detail) in zip(jobs_list, rows):
    if not isinstance(res, dict):
        print("%s %s: %s" % (prop, diff, res)); tot["rejected"] += 1; continue
    if suite_ok is False:
        print("%s %s: suite FAILS with this refactoring: rejected" % (prop, diff)); tot["rejected"] += 1; continue
    viol = [p for p, v in res.items() if v == "violation"]
    errs = [p for p, v in res.items() if v == "analysis-error"]
    kind = "violation" if viol else "analysis-error" if errs else "silent"
    tot[kind] += 1
    if out is None:
        n = len(glob.glob(os.path.join(VERIF, "refactors", prop + "-*"))) + 1
        out = os.path.join(VERIF, "refactors", "%s-%d" % (prop, n))
        os.makedirs(out)
        shutil.copy(diff, os.path.join(out, "patch.diff"))
        if note and os.path.exists(note):
            shutil.copy(note, os.path.join(out, "note.txt"))
        meta = {"property": prop, "origin": "independent sub-agent given only the property text and a scratch worktree, asked for behaviour-preserving refactorings",
                "suite_passes_with_change": True}
    else:
        meta = json.load(open(os.path.join(out, "meta.json")))
    meta.update(checks_on_refactored_tree=res, outcome=kind, reports=detail)
    json.dump(meta, open(os.path.join(out, "meta.json"), "w"), indent=1)
    print("%-8s %-15s violations %-18s errors %s" % (os.path.basename(out), kind, ",".join(viol) or "-", ",".join(errs) or "-"))
    for p, ls in detail.items():
        for l in ls[:2]:
            print("      %s %s" % (p, l[:230]))
print("%d refactorings: %d silent on all twenty checks, %d with an analysis-error (exit 2), %d with a VIOLATION (false alarm unless the refactoring changes behaviour), %d rejected"
      % (len(rows), tot["silent"], tot["analysis-error"], tot["violation"], tot["rejected"]))
