"""Engine C (part): what __eq__ compares, what __hash__ depends on, what __repr__ prints — read from the method bodies."""
import ast
from .core import AnalysisError


def fn_of(m, cls, name):
    r = m.lookup(cls, name)
    if r and isinstance(r[1], ast.FunctionDef):
        return r[0], r[1]
    return None, None


def canon_attr(m, cls, attr):
    """resolve a property to the underlying field it returns (dom -> _dom); list(self._boxes) -> _boxes"""
    r = m.lookup(cls, attr)
    if r and r[2] == "property" and isinstance(r[1], ast.FunctionDef):
        body = [s for s in r[1].body if not (isinstance(s, ast.Expr) and isinstance(s.value, ast.Constant))]
        if len(body) == 1 and isinstance(body[0], ast.Return):
            v = body[0].value
            if isinstance(v, ast.Call) and ast.unparse(v.func) in ("list", "tuple") and len(v.args) == 1:
                v = v.args[0]
            if isinstance(v, ast.Attribute) and isinstance(v.value, ast.Name) and v.value.id == "self":
                return v.attr
    return attr


def eq_branches(m, cls, fn, owner):
    """[(guard text, kind, fields or expr)] for each `if isinstance(other, K): return <expr>` / final return of __eq__.
    kind 'fields': the set of attributes compared pairwise between self and other; kind 'expr': another expression (kept as AST)."""
    self_, other = fn.args.args[0].arg, fn.args.args[1].arg
    out = []

    def fields_of(e):
        # all(getattr(self, a) == getattr(other, a) for a in [..])
        if isinstance(e, ast.Call) and ast.unparse(e.func) == "all" and len(e.args) == 1 and isinstance(e.args[0], (ast.GeneratorExp, ast.ListComp)):
            g = e.args[0]
            gen = g.generators[0]
            var = ast.unparse(gen.target)
            lst = gen.iter
            if isinstance(lst, ast.Name):
                for st in ast.walk(fn):
                    if isinstance(st, ast.Assign) and ast.unparse(st.targets[0]) == lst.id:
                        lst = st.value
            if isinstance(lst, (ast.List, ast.Tuple)) and all(isinstance(x, ast.Constant) for x in lst.elts):
                want = {"getattr(%s, %s) == getattr(%s, %s)" % (self_, var, other, var), "getattr(%s, %s) == getattr(%s, %s)" % (other, var, self_, var)}
                if ast.unparse(g.elt) in want:
                    return {canon_attr(m, cls, x.value) for x in lst.elts}
            return None
        # (self.a, self.b) == (other.a, other.b)
        if isinstance(e, ast.Compare) and len(e.ops) == 1 and isinstance(e.ops[0], ast.Eq):
            l, r = e.left, e.comparators[0]
            if isinstance(l, ast.Tuple) and isinstance(r, ast.Tuple) and len(l.elts) == len(r.elts):
                fs = set()
                for a, b in zip(l.elts, r.elts):
                    f = fields_of(ast.Compare(left=a, ops=[ast.Eq()], comparators=[b]))
                    if f is None:
                        return None
                    fs |= f
                return fs
            if isinstance(l, ast.Attribute) and isinstance(r, ast.Attribute) and l.attr == r.attr and \
                    {ast.unparse(l.value), ast.unparse(r.value)} == {self_, other}:
                return {canon_attr(m, cls, l.attr)}
            return None
        if isinstance(e, ast.BoolOp) and isinstance(e.op, ast.And):
            fs = set()
            for v in e.values:
                if isinstance(v, ast.Call) and ast.unparse(v.func) == "isinstance" and ast.unparse(v.args[0]) == other:
                    continue            # class test, not a field
                f = fields_of(v)
                if f is None:
                    return None
                fs |= f
            return fs
        return None

    def ret(e, guard):
        # delegation  Base.__eq__(self, other)
        last = guard.split(" & ")[-1]
        narrowed = last.startswith("isinstance(")
        if isinstance(e, ast.Call) and isinstance(e.func, ast.Attribute) and e.func.attr == "__eq__" and narrowed:
            base = ast.unparse(e.func.value)
            if base.startswith("super()"):
                nxt = m.lookup(cls, "__eq__", after=owner)
            else:
                k = m.resolve_class(owner.mod, base)
                nxt = m.lookup(k, "__eq__") if k is not None else None
            if nxt and isinstance(nxt[1], ast.FunctionDef):
                # the delegate is entered with `other` already narrowed by our guard: its first field-comparing branch applies
                for g2, kind, val in eq_branches(m, cls, nxt[1], nxt[0]):
                    if kind == "fields":
                        out.append(("%s -> %s" % (guard, g2), kind, val))
                        break
                return
        if isinstance(e, ast.Call) and isinstance(e.func, ast.Attribute) and e.func.attr == "__eq__" and not narrowed \
                and not ast.unparse(e.func.value).startswith("super()"):
            # un-narrowed delegation to a named class: all of its branches apply here
            k = m.resolve_class(owner.mod, ast.unparse(e.func.value))
            nxt = m.lookup(k, "__eq__") if k is not None else None
            if nxt and isinstance(nxt[1], ast.FunctionDef):
                for g2, kind, val in eq_branches(m, cls, nxt[1], nxt[0]):
                    out.append(("%s -> %s" % (guard, g2), kind, val))
                return
        f = fields_of(e)
        if f is not None:
            out.append((guard, "fields", f))
        elif isinstance(e, ast.Constant):
            out.append((guard, "const", e.value))
        else:
            out.append((guard, "expr", e))

    def walk(body, guard):
        for st in body:
            if isinstance(st, ast.If):
                t = ast.unparse(st.test)
                walk(st.body, (guard + " & " if guard else "") + t)
                if st.orelse:
                    walk(st.orelse, (guard + " & " if guard else "") + "not (%s)" % t)
            elif isinstance(st, ast.Return):
                ret(st.value, guard or "otherwise")
                return
            elif isinstance(st, ast.Assign) or (isinstance(st, ast.Expr) and isinstance(st.value, ast.Constant)):
                continue
            else:
                raise AnalysisError("%s.__eq__: statement outside the recognised idioms: %s" % (owner.q, ast.unparse(st)[:60]))
    walk(fn.body, "")
    return out


def format_branches(e):
    """all literal strings a (possibly conditional) string expression can evaluate to, with {} kept;
    returns None if the expression is not a string built from literals / .format / + / conditional"""
    if isinstance(e, ast.Constant) and isinstance(e.value, str):
        return [e.value]
    if isinstance(e, ast.IfExp):
        a, b = format_branches(e.body), format_branches(e.orelse)
        return None if a is None or b is None else a + b
    if isinstance(e, ast.BinOp) and isinstance(e.op, ast.Add):
        a, b = format_branches(e.left), format_branches(e.right)
        if a is None or b is None:
            return None
        return [x + y for x in a for y in b]
    if isinstance(e, ast.Call) and isinstance(e.func, ast.Attribute) and e.func.attr == "format":
        base = format_branches(e.func.value)
        if base is None:
            return None
        args = []
        for a in e.args:
            if isinstance(a, ast.Starred):
                return [b.replace("{}", "X") for b in base]
            fb = format_branches(a)
            args.append(fb if fb is not None else ["X"])
        outs = []
        for b in base:
            outs += _fill(b, args)
        return outs
    if isinstance(e, ast.Call) and ast.unparse(e.func) in ("repr", "str"):
        return ["X"]
    if isinstance(e, ast.Call) and isinstance(e.func, ast.Attribute) and e.func.attr == "join":
        return ["X"]
    return None


def _fill(template, args):
    outs = [""]
    parts = template.split("{}")
    for i, p in enumerate(parts):
        outs = [o + p for o in outs]
        if i < len(parts) - 1:
            alts = args[i] if i < len(args) else ["X"]
            outs = [o + a for o in outs for a in alts]
    return outs


def balanced(s):
    depth = 0
    for ch in s:
        if ch in "([{":
            depth += 1
        elif ch in ")]}":
            depth -= 1
            if depth < 0:
                return False
    return depth == 0


def shown_attrs(m, cls, fn, depth=0):
    """attributes of self reaching the string returned by __repr__ (through repr(self.x), self.x, map(repr, [...]), x.name for x in self._objects)"""
    self_ = fn.args.args[0].arg
    out = set()
    for n in ast.walk(fn):
        if isinstance(n, ast.Call) and isinstance(n.func, ast.Name) and n.func.id in ("len", "list", "tuple", "iter") and len(n.args) == 1 \
                and isinstance(n.args[0], ast.Name) and n.args[0].id == self_ and depth < 3:
            dn = {"len": "__len__"}.get(n.func.id, "__iter__")
            o2, f2 = fn_of(m, cls, dn)
            if f2 is not None:
                out |= shown_attrs(m, cls, f2, depth + 1)
        if isinstance(n, ast.Attribute) and isinstance(n.value, ast.Name) and n.value.id == self_:
            r = m.lookup(cls, n.attr)
            if r and r[2] in ("method", "static", "class", "late", "alias"):
                continue            # a method / factory of the class, not data of the instance
            out.add(canon_attr(m, cls, n.attr))
    return out
