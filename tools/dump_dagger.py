import sys
from sa.model import Model
from sa.objsim import explore, Inst, RaisesError, Unsupported, Sym
from sa.generic import instances, same_value, KEY
from sa.words import Seq
m=Model(sys.argv[1] if len(sys.argv)>1 else "/repo/discopy")
scope=[a for a in sys.argv[2:] if a!='-v'] or None
for c in m.concrete_boxes():
    if scope and not any(c.q.startswith(s) for s in scope): continue
    if c.mod in ("discopy.biclosed","discopy.cartesian","discopy.quantum.cqmap"): continue
    n=0
    try:
        for label, build in instances(m,c):
            def run(sim):
                x=build(sim)
                y=sim.apply(sim.getattr(x,"dagger",None,c.mod),[],{},None,c.mod,x)
                return x,y
            try:
                res=explore(m,run)
            except Unsupported as e:
                print(c.q,label,"UNSUPPORTED",e); continue
            for oracle,r,sim in res:
                n+=1
                if isinstance(r,RaisesError):
                    print("  ",c.q,"[%s]"%label,oracle,"RAISES",r.what[:100]); continue
                x,y=r
                if not isinstance(y,Inst): print("  ",c.q,label,"returns",y); continue
                bad=[]
                if not same_value(sim,y.attrs.get("_dom"),x.attrs.get("_cod")): bad.append("dom %r vs cod %r"%(y.attrs.get("_dom"),x.attrs.get("_cod")))
                if not same_value(sim,y.attrs.get("_cod"),x.attrs.get("_dom")): bad.append("cod %r vs dom %r"%(y.attrs.get("_cod"),x.attrs.get("_dom")))
                if bad or "-v" in sys.argv: print("  ",c.q,"[%s]"%label,{k[:40]:v for k,v in oracle.items()},"->",y.cls.name,"OK" if not bad else "MISMATCH "+"; ".join(bad))
    except Unsupported as e:
        print(c.q,"UNSUPPORTED",e)
    print(c.q, n, "cases")
