"""C13, second part: where registers, list positions and wires must agree (R13.7, R13.9, R13.10, R13.11)."""
import ast
from ..lin import Lin, Facts
from ..words import Seq, Seg, Atom, Unlocatable
from ..beval import Unsupported
from ..core import AnalysisError
from ..fold import fold, CannotFold
from .. import shape
from .c07 import inner

TK = "discopy.quantum.tk"


class LinEv:
    """linear forms for the index arithmetic of the helpers: names are variables, len(x) is the variable |x|, L[k] the variable L[k]"""
    def __init__(self, env=None):
        self.env = dict(env or {})

    def ev(self, e):
        if isinstance(e, ast.Constant) and isinstance(e.value, int) and not isinstance(e.value, bool):
            return Lin.of(e.value)
        if isinstance(e, ast.Name):
            return self.env.get(e.id, Lin.var(e.id))
        if isinstance(e, ast.Attribute):
            return self.env.get(ast.unparse(e), Lin.var(ast.unparse(e)))
        if isinstance(e, ast.UnaryOp) and isinstance(e.op, ast.USub):
            return -self.ev(e.operand)
        if isinstance(e, ast.BinOp) and isinstance(e.op, (ast.Add, ast.Sub, ast.Mult, ast.FloorDiv)):
            l, r = self.ev(e.left), self.ev(e.right)
            try:
                if isinstance(e.op, ast.Add):
                    return l + r
                if isinstance(e.op, ast.Sub):
                    return l - r
                if isinstance(e.op, ast.Mult):
                    return l * r
                return self.env.get(ast.unparse(e), Lin.var(ast.unparse(e)))
            except TypeError as x:
                raise Unsupported(str(x))
        if isinstance(e, ast.Call) and ast.unparse(e.func) == "len" and len(e.args) == 1:
            return self.env.get(ast.unparse(e), Lin.var("|%s|" % ast.unparse(e.args[0])))
        if isinstance(e, ast.Subscript) and not isinstance(e.slice, ast.Slice):
            return Lin.var("%s[%r]" % (ast.unparse(e.value), self.ev(e.slice)))
        raise Unsupported("index expression %s" % ast.unparse(e)[:60])


def ifexp_cases(e):
    """[(conditions, value)] of a chain `a if c1 else b if c2 else c` (conditions as (test source, truth))"""
    if isinstance(e, ast.IfExp):
        t = ast.unparse(e.test)
        return [([(t, True)] + c, v) for c, v in ifexp_cases(e.body)] + [([(t, False)] + c, v) for c, v in ifexp_cases(e.orelse)]
    return [([], e)]


def check_prepare(ctx, top):
    """R13.7: prepare_qubits / prepare_bits split the register list BY VALUE (`L[offset - 1] + 1`): sound only for a sorted list"""
    mq = inner(ctx, top, "measure_qubits")
    for hname, lst, units in (("prepare_qubits", "qubits", "n_qubits"), ("prepare_bits", "bits", "n_bits")):
        fn = inner(ctx, top, hname)
        L, boxp, offp = (a.arg for a in fn.args.args[:3])
        start = next((s.value for s in fn.body if isinstance(s, ast.Assign) and ast.unparse(s.targets[0]) == "start"), None)
        ctx.need(start is not None, "%s does not compute `start`" % hname)
        ev = LinEv()
        probs, by_value = [], False
        for conds, v in ifexp_cases(start):
            c = {}
            for src, truth in conds:           # a test is the truthiness of the list / of the offset, possibly negated
                neg = src.startswith("not ")
                c[src[4:] if neg else src] = (not truth) if neg else truth
            if set(c) - {L, offp}:
                raise AnalysisError("%s: start is decided by tests outside the recognised idioms: %s" % (hname, sorted(c)))
            empty = (not c[L]) if L in c else None
            off0 = (not c[offp]) if offp in c else None
            val = ev.ev(v)
            if empty:
                ok = val == Lin.var("tk_circ." + units)
                why = "with no open wire the new registers are appended (start = tk_circ.%s)" % units
            elif off0:
                ok = val == Lin.of(0)
                why = "at offset 0 every live register moves up (start = 0)"
            else:
                ok = val == Lin.var("%s[%r]" % (L, Lin.var(offp) - 1)) + 1
                by_value = True
                why = "at offset > 0 the registers after %s[offset - 1] move up (start = %s[offset - 1] + 1: in a strictly increasing list these are exactly the entries %s[offset:])" % (L, L, L)
            if not ok:
                probs.append("%s: start = %r; %s" % (", ".join("%s is %s" % kv for kv in conds) or "always", val, why))
        ctx.ob("R13.7", "%s.to_tk.%s:start" % (TK, hname), not probs, found="; ".join(probs) or ast.unparse(start), required="the renamed registers [start, n) are the ones whose list entries are shifted (entries at positions >= offset)",
               mod=TK, node=start, sig="start:" + hname)
        # rename loop and the returned list use the same shift; new entries are the freed indices
        loop = next((s for s in fn.body if isinstance(s, ast.For) and "rename" not in ast.unparse(s.iter) and any("renaming" in ast.unparse(x) for x in s.body)), None)
        ret = next((s for s in fn.body if isinstance(s, ast.Return)), None)
        ctx.need(ret is not None, "%s has no return" % hname)
        parts = []

        def flat(e):
            if isinstance(e, ast.BinOp) and isinstance(e.op, ast.Add):
                flat(e.left)
                flat(e.right)
            else:
                parts.append(e)
        flat(ret.value)
        n = Lin.var("|%s.cod|" % boxp)
        probs = []
        if loop is not None:
            rng = [ev.ev(a) for a in loop.iter.args] if isinstance(loop.iter, ast.Call) and ast.unparse(loop.iter.func) == "range" else None
            if rng is None or len(rng) != 2 or rng[0] != Lin.var("start") or rng[1] != Lin.var("tk_circ." + units):
                probs.append("the renaming loop runs over %s, not range(start, tk_circ.%s)" % (ast.unparse(loop.iter), units))
            iv = loop.target.id if isinstance(loop.target, ast.Name) else None
            news = [s.value for s in loop.body if isinstance(s, ast.Assign) and ast.unparse(s.targets[0]) == "new"]
            shift = None
            if news and isinstance(news[0], ast.Call) and news[0].args:
                shift = ev.ev(news[0].args[-1]) - Lin.var(iv)
            if shift != n:
                probs.append("registers are renamed by %r, the box adds %r wires" % (shift, n))
        if len(parts) == 3:
            pre, mid, suf = parts
            if ast.unparse(pre) != "%s[:%s]" % (L, offp):
                probs.append("prefix `%s`" % ast.unparse(pre))
            okm = isinstance(mid, ast.Call) and ast.unparse(mid.func) == "list" and isinstance(mid.args[0], ast.Call) and ast.unparse(mid.args[0].func) == "range" and \
                [ev.ev(a) for a in mid.args[0].args] == [Lin.var("start"), Lin.var("start") + n]
            if not okm:
                probs.append("the new entries `%s` are not range(start, start + |cod|), the indices freed by the renaming" % ast.unparse(mid))
            if loop is not None:
                oks = isinstance(suf, ast.ListComp) and len(suf.generators) == 1 and ast.unparse(suf.generators[0].iter) == "%s[%s:]" % (L, offp) and \
                    ev.ev(suf.elt) - Lin.var(suf.generators[0].target.id) == n
                if not oks:
                    probs.append("the entries after the new ones `%s` are not %s[offset:] shifted by |cod|" % (ast.unparse(suf), L))
            else:
                if ast.unparse(suf) != "%s[%s:]" % (L, offp):
                    probs.append("suffix `%s`" % ast.unparse(suf))
        else:
            probs.append("the returned list is not prefix + new + suffix")
        ctx.ob("R13.7", "%s.to_tk.%s:list" % (TK, hname), not probs, found="; ".join(probs) or ast.unparse(ret.value)[:120], required="the list is updated by the same shift as the registers, the new entries are the freed indices",
               mod=TK, node=ret, sig="list:" + hname)
        # the premise: every other writer of the list keeps it strictly increasing
        if by_value and loop is not None:
            probs = []
            for st in ast.walk(mq):
                if isinstance(st, ast.Assign) and ast.unparse(st.targets[0]) == lst and isinstance(st.value, ast.BinOp):
                    ps = []

                    def flat2(e):
                        if isinstance(e, ast.BinOp) and isinstance(e.op, ast.Add):
                            flat2(e.left)
                            flat2(e.right)
                        else:
                            ps.append(e)
                    flat2(st.value)
                    ins = [p for p in ps if isinstance(p, ast.List)]
                    if not ins:
                        continue                # removal of a segment keeps a list sorted
                    # an insertion: the inserted register is the largest (len(tk_circ.bits)); sorted only if it goes to the end
                    pre = ps[0]
                    if isinstance(pre, ast.Subscript) and isinstance(pre.slice, ast.Slice) and pre.slice.upper is not None:
                        at = LinEv().ev(pre.slice.upper)
                        if at != Lin.var("|%s|" % lst):
                            probs.append("measure_qubits inserts the newest register (the largest index) at position %r of `%s`, not at its end" % (at, lst))
            # every other writer of the list, in the layer loop and in the helpers
            for fnx in [top] + [f for f in ast.walk(top) if isinstance(f, ast.FunctionDef) and f is not fn and f is not top]:
                for st in (own for own in ast.walk(fnx)):
                    tgts = []
                    if isinstance(st, ast.Assign):
                        tgts = [t for tt in st.targets for t in (tt.elts if isinstance(tt, ast.Tuple) else [tt])]
                    elif isinstance(st, ast.AugAssign):
                        tgts = [st.target]
                    for t in tgts:
                        if isinstance(t, ast.Subscript) and ast.unparse(t.value) == lst:
                            probs.append("`%s` overwrites entries of `%s` in place" % (ast.unparse(st)[:60], lst))
                        elif isinstance(t, ast.Name) and t.id == lst and isinstance(st, ast.Assign) and fnx is top:
                            v = st.value
                            ps2 = []

                            def flat3(e):
                                if isinstance(e, ast.BinOp) and isinstance(e.op, ast.Add):
                                    flat3(e.left)
                                    flat3(e.right)
                                else:
                                    ps2.append(e)
                            flat3(v)
                            removal = all(isinstance(p, ast.Subscript) and isinstance(p.slice, ast.Slice) and ast.unparse(p.value) == lst for p in ps2)
                            helper = isinstance(v, ast.Call) and isinstance(v.func, ast.Name) and v.func.id in ("prepare_qubits", "prepare_bits", "measure_qubits")
                            init = isinstance(v, (ast.List, ast.Tuple)) or (isinstance(st.targets[0], ast.Tuple) and isinstance(v, ast.Tuple))
                            if not (removal or helper or init):
                                probs.append("`%s` is not a removal of a segment nor the result of a helper" % ast.unparse(st)[:60])
            ctx.ob("R13.7", "%s.to_tk.%s:sorted-%s" % (TK, hname, lst), not probs, found="; ".join(sorted(set(probs))) or "every writer of `%s` keeps it increasing" % lst,
                   required="`%s` is strictly increasing whenever %s splits it by value and renames registers" % (lst, hname), mod=TK, node=fn, sig="sorted:" + lst)


def check_bit_positions(ctx, top):
    """R13.9: the position given to add_bit (the wire position in the post-processing) is where the register is inserted in `bits`"""
    mq = inner(ctx, top, "measure_qubits")
    loop = next((s for s in mq.body if isinstance(s, ast.For) and any(isinstance(c, ast.Call) and ast.unparse(c.func) == "tk_circ.add_bit" for c in ast.walk(s))), None)
    ctx.need(loop is not None, "measure_qubits has no loop adding bits")
    call = next(c for c in ast.walk(loop) if isinstance(c, ast.Call) and ast.unparse(c.func) == "tk_circ.add_bit")
    off = next((k.value for k in call.keywords if k.arg == "offset"), None)
    local = {s.targets[0].id: s.value for s in loop.body if isinstance(s, ast.Assign) and isinstance(s.targets[0], ast.Name)}
    if isinstance(off, ast.Name) and off.id in local:
        off = local[off.id]
    pos = None
    if isinstance(off, ast.IfExp) and "Measure" in ast.unparse(off.test) and isinstance(off.orelse, ast.Constant) and off.orelse.value is None:
        pos = off.body
    ins = None
    for st in ast.walk(loop):
        if isinstance(st, ast.Assign) and ast.unparse(st.targets[0]) == "bits" and isinstance(st.value, ast.BinOp):
            e = st.value
            while isinstance(e, ast.BinOp):
                e = e.left
            if isinstance(e, ast.Subscript) and isinstance(e.slice, ast.Slice) and e.slice.upper is not None:
                ins = e.slice.upper
    ctx.need(pos is not None and ins is not None, "measure_qubits: the offset given to add_bit / the insertion into bits were not found")
    ev = LinEv()
    a, b = ev.ev(pos), ev.ev(ins)
    ctx.ob("R13.9", TK + ".to_tk.measure_qubits:add_bit-position", a == b, found="add_bit(offset=%r), bits insertion at %r" % (a, b), required="a measured bit enters the post-processing at its wire position, the index at which its "
           "register enters `bits`", mod=TK, node=call, sig="bit-position")
    pb = inner(ctx, top, "prepare_bits")
    lp = next((s for s in pb.body if isinstance(s, ast.For) and any(isinstance(c, ast.Call) and ast.unparse(c.func) == "tk_circ.add_bit" for c in ast.walk(s))), None)
    ctx.need(lp is not None, "prepare_bits has no loop adding bits")
    call = next(c for c in ast.walk(lp) if isinstance(c, ast.Call) and ast.unparse(c.func) == "tk_circ.add_bit")
    off = next((k.value for k in call.keywords if k.arg == "offset"), None)
    iv = lp.target.id
    rng = [ev.ev(x) for x in lp.iter.args] if isinstance(lp.iter, ast.Call) and ast.unparse(lp.iter.func) == "range" else []
    ok = off is not None and len(rng) == 2 and ev.ev(off) - Lin.var(iv) == Lin.var(pb.args.args[2].arg) - rng[0]
    ctx.ob("R13.9", TK + ".to_tk.prepare_bits:add_bit-position", ok, found="add_bit(Bit(%s), offset=%s) for %s in %s" % (iv, ast.unparse(off) if off is not None else None, iv, ast.unparse(lp.iter)),
           required="the k-th new bit enters the post-processing at wire position offset + k", mod=TK, node=call, sig="bit-position-prepare")


def check_from_tk_bits(ctx, fn):
    """R13.9: from_tk — the wire of a measured bit is its register index minus the post-selected registers below it (those have no wire)"""
    tkc_ = fn.args.args[0].arg
    N0 = {tkc_: "tk_circuit"}
    cmd_loop = next((s for s in fn.body if isinstance(s, ast.For) and "get_commands" in ast.unparse(s.iter)), None)
    ctx.need(cmd_loop is not None, "from_tk has no loop over the commands")
    shape.match_stmts(ctx, "R13.9", TK + ".from_tk:wires", [s for s in fn.body[:fn.body.index(cmd_loop)] if isinstance(s, ast.Assign) and isinstance(s.targets[0], ast.Name) and s.targets[0].id in ("n_bits", "n_qubits", "circuit")],
                      ["n_bits = tk_circuit.n_bits - len(tk_circuit.post_selection)", "n_qubits = tk_circuit.n_qubits", "circuit = Id(0).tensor(*(n_qubits * [Ket(0)] + n_bits * [Bits(0)]))"], N0, mod=TK, node=fn, sig="from-tk-wires",
                      required="one qubit wire per qubit register, one bit wire per bit register that is not post-selected (those end as effects on their qubit); qubits first, all initialised to 0")
    loop = next((s for s in fn.body if isinstance(s, ast.For) and "get_commands" in ast.unparse(s.iter)), None)
    ctx.need(loop is not None, "from_tk has no loop over the commands")
    meas = next((s for s in loop.body if isinstance(s, ast.If) and "Measure" in ast.unparse(s.test)), None)
    ctx.need(meas is not None, "from_tk does not treat Measure commands")
    gv = loop.target.id if isinstance(loop.target, ast.Name) else "tk_gate"
    shape.match_stmts(ctx, "R13.9", TK + ".from_tk:measure", [s for s in meas.body if isinstance(s, ast.Assign) and isinstance(s.targets[0], ast.Name) and s.targets[0].id in ("offset", "bit_index")] +
                      [s for s in meas.body if isinstance(s, ast.If) and "post_selection" in ast.unparse(s.test)],
                      ["offset = tk_gate.qubits[0].index[0]", "bit_index = tk_gate.bits[0].index[0]", "if bit_index in tk_circuit.post_selection:\n    bras[offset] = tk_circuit.post_selection[bit_index]\n    continue"],
                      {gv: "tk_gate", tkc_: "tk_circuit"}, mod=TK, node=meas, sig="from-tk-measure", required="a measurement into a post-selected bit becomes the effect with the recorded value ON THE QUBIT MEASURED (its wire)")
    var = next((s.targets[0].id for s in meas.body if isinstance(s, ast.Assign) and isinstance(s.targets[0], ast.Name) and ".bits[0].index[0]" in ast.unparse(s.value)), None)
    ctx.need(var is not None, "from_tk does not read the bit of a Measure command")
    ps = next((s for s in meas.body if isinstance(s, ast.If) and "post_selection" in ast.unparse(s.test)), None)
    ok_ps = ps is not None and isinstance(ps.body[-1], ast.Continue)
    adj = [s for s in meas.body if (isinstance(s, ast.AugAssign) and ast.unparse(s.target) == var) or
           (isinstance(s, ast.Assign) and ast.unparse(s.targets[0]) == var and ".bits[0].index[0]" not in ast.unparse(s.value))]
    bad = []
    if not ok_ps:
        bad.append("post-selected measurements are not set aside")
    if len(adj) != 1:
        bad.append("the register index `%s` is used as a wire position as it is (%d corrections found)" % (var, len(adj)))
    else:
        st = adj[0]
        expr = st.value if isinstance(st, ast.Assign) else ast.BinOp(left=ast.Name(id=var, ctx=ast.Load()), op=st.op, right=st.value)
        ast.fix_missing_locations(expr)
        tkc = fn.args.args[0].arg

        class PS:
            def __init__(self, d):
                self.post_selection = d
        try:
            for N in range(1, 5):
                for mask in range(2 ** N):
                    sel = {i: 0 for i in range(N) if mask >> i & 1}
                    for r in range(N):
                        if r in sel:
                            continue
                        got = FoldPS({var: r, tkc: PS(sel)}).ev(expr)
                        want = r - len([i for i in sel if i < r])
                        if got != want:
                            bad.append("register %d with post-selected registers %s is sent to wire %r (wire %d)" % (r, sorted(sel), got, want))
                            raise StopIteration
        except StopIteration:
            pass
        except CannotFold as e:
            raise AnalysisError("from_tk: the correction of the bit index cannot be folded: %s" % e)
    ctx.ob("R13.9", TK + ".from_tk:bit-index", not bad, found="; ".join(bad) or "register index minus the number of post-selected registers below it (folded for up to 4 registers)",
           required="the wire of a measured bit: post-selected registers have no wire", mod=TK, node=meas, sig="from-tk-bit-index")


class FoldPS:
    """folds the correction expression of from_tk on a finite domain (comprehensions over the post-selection, comparisons, len, arithmetic)"""
    def __init__(self, env):
        self.env = env

    def ev(self, n, loc=None):
        loc = loc or {}
        if isinstance(n, ast.Constant):
            return n.value
        if isinstance(n, ast.Name):
            if n.id in loc:
                return loc[n.id]
            if n.id in self.env:
                return self.env[n.id]
            raise CannotFold(n.id)
        if isinstance(n, ast.Attribute):
            v = self.ev(n.value, loc)
            if hasattr(v, n.attr) and n.attr in ("post_selection",):
                return getattr(v, n.attr)
            raise CannotFold(ast.unparse(n))
        if isinstance(n, ast.BinOp) and isinstance(n.op, (ast.Add, ast.Sub)):
            l, r = self.ev(n.left, loc), self.ev(n.right, loc)
            return l + r if isinstance(n.op, ast.Add) else l - r
        if isinstance(n, ast.Compare) and len(n.ops) == 1:
            l, r = self.ev(n.left, loc), self.ev(n.comparators[0], loc)
            ops = {ast.Lt: lambda: l < r, ast.LtE: lambda: l <= r, ast.Gt: lambda: l > r, ast.GtE: lambda: l >= r, ast.Eq: lambda: l == r, ast.NotEq: lambda: l != r, ast.In: lambda: l in r, ast.NotIn: lambda: l not in r}
            if type(n.ops[0]) in ops:
                return ops[type(n.ops[0])]()
        if isinstance(n, (ast.ListComp, ast.GeneratorExp)) and len(n.generators) == 1 and isinstance(n.generators[0].target, ast.Name):
            g = n.generators[0]
            out = []
            for v in self.ev(g.iter, loc):
                l2 = dict(loc, **{g.target.id: v})
                if all(self.ev(c, l2) for c in g.ifs):
                    out.append(self.ev(n.elt, l2))
            return out
        if isinstance(n, ast.Call) and ast.unparse(n.func) in ("len", "sum", "sorted", "list") and len(n.args) == 1:
            return {"len": len, "sum": sum, "sorted": sorted, "list": list}[ast.unparse(n.func)](self.ev(n.args[0], loc))
        if isinstance(n, ast.Call) and isinstance(n.func, ast.Attribute) and n.func.attr in ("keys", "items", "values") and not n.args:
            return list(getattr(self.ev(n.func.value, loc), n.func.attr)())
        raise CannotFold(ast.unparse(n)[:60])


def check_adjacent(ctx, fn):
    """R13.10: make_units_adjacent — effect of one step on wire positions (gates on two qubits): afterwards the first qubit sits at `offset`
    and the second at `offset + 1`"""
    mua = inner(ctx, fn, "make_units_adjacent")
    loop = next((s for s in mua.body if isinstance(s, ast.For)), None)
    ctx.need(loop is not None and isinstance(loop.target, ast.Tuple), "make_units_adjacent has no loop over the other qubits")
    iv = loop.target.elts[0].id
    first = loop.body[0]
    gate_ = mua.args.args[0].arg
    NG = {gate_: "tk_gate", iv: "i", loop.target.elts[1].id: "tk_qubit"}
    shape.match(ctx, "R13.10", TK + ".from_tk.make_units_adjacent:others", loop.iter, "enumerate(tk_gate.qubits[1:])", NG, mod=TK, node=loop, sig="adjacent-others", required="every qubit of the gate after the first, in order")
    shape.match_stmts(ctx, "R13.10", TK + ".from_tk.make_units_adjacent:start", [s for s in mua.body if isinstance(s, ast.Assign)], ["offset = tk_gate.qubits[0].index[0]", "swaps = Id(qubit ** n_qubits @ bit ** n_bits)"], NG,
                      mod=TK, node=mua, sig="adjacent-start", required="the first qubit stays where its register is; the swaps start as the identity on all wires")
    shape.match(ctx, "R13.10", TK + ".from_tk.make_units_adjacent:source", shape.values_of(loop.body, ["source"]), "(tk_qubit.index[0],)", NG, mod=TK, node=first, sig="adjacent-source", required="the register of that qubit")
    rr = [r_ for r_ in mua.body if isinstance(r_, ast.Return)]
    shape.match(ctx, "R13.10", TK + ".from_tk.make_units_adjacent:returns", rr[-1].value if rr else None, "(offset, swaps)", {}, mod=TK, node=mua, sig="adjacent-returns")
    st_ = shape.values_of(loop.body, ["source", "target"])
    ctx.need(st_ is not None, "make_units_adjacent does not bind source, target first")
    ev0 = LinEv({iv: Lin.of(0)})
    tgt = ev0.ev(st_.elts[1])
    ctx.ob("R13.10", TK + ".from_tk.make_units_adjacent:target", tgt == Lin.var("offset") + 1, found="target = %r for the second qubit" % (tgt,), required="offset + 1: right after the first qubit", mod=TK, node=first,
           sig="adjacent-target")
    chain = next((x for x in loop.body if isinstance(x, ast.If)), None)
    ctx.need(chain is not None, "make_units_adjacent: no case distinction on source / target")
    arms, cur = [], chain
    while True:
        arms.append((cur.test, cur.body))
        if len(cur.orelse) == 1 and isinstance(cur.orelse[0], ast.If):
            cur = cur.orelse[0]
        else:
            arms.append((None, cur.orelse))
            break
    upd = loop.body[-1]
    ctx.need(isinstance(upd, ast.Assign) and ast.unparse(upd.targets[0]) == "swaps" and ast.unparse(upd.value).replace(" ", "") == "swaps>>Id(left)@swap@Id(right)",
             "make_units_adjacent: the step is not `swaps = swaps >> Id(left) @ swap @ Id(right)`")
    s, o = Lin.var("source"), Lin.var("offset")
    n_arms = 0
    for name, facts_l, cod in (
            ("source < offset", [s, o - s - 1, Lin.var("r")], [("X0", s), ("S", 1), ("X1", o - s - 1), ("O", 1), ("X2", Lin.var("r"))]),
            ("source > offset + 1", [o, s - o - 2, Lin.var("r")], [("X0", o), ("O", 1), ("X1", s - o - 1), ("S", 1), ("X2", Lin.var("r"))]),
            ("source = offset + 1", [o, Lin.var("r")], [("X0", o), ("O", 1), ("S", 1), ("X2", Lin.var("r"))])):
        facts = Facts(facts_l)
        atoms = {nm: Atom(nm, Lin.of(ln)) for nm, ln in cod}
        row = Seq([Seg(atoms[nm]) for nm, _ in cod])
        env = {"source": (o + 1) if name == "source = offset + 1" else s, "offset": o, "target": o + 1, iv: Lin.of(0)}
        ev = LinEv(env)
        # which arm is taken?
        taken = None
        for test, body in arms:
            if test is None:
                taken = body
                break
            if not (isinstance(test, ast.Compare) and len(test.ops) == 1):
                raise AnalysisError("make_units_adjacent: test `%s` outside the recognised forms" % ast.unparse(test))
            d = ev.ev(test.comparators[0]) - ev.ev(test.left)
            op = type(test.ops[0])
            t = {ast.Lt: (d - 1, -d), ast.LtE: (d, -d - 1), ast.Gt: (-d - 1, d), ast.GtE: (-d, d - 1)}.get(op)
            if t is None:
                raise AnalysisError("make_units_adjacent: test `%s` outside the recognised forms" % ast.unparse(test))
            if facts.nonneg(t[0]):
                taken = body
                break
            if not facts.nonneg(t[1]):
                raise AnalysisError("make_units_adjacent: test `%s` is not decided in the case %s" % (ast.unparse(test), name))
        n_arms += 1
        if any(isinstance(x, ast.Continue) for x in taken):
            new_row, new_off = row, o
        else:
            def sl(e):
                if not (isinstance(e, ast.Subscript) and isinstance(e.slice, ast.Slice) and ast.unparse(e.value) == "swaps.cod" and e.slice.step is None):
                    raise Unsupported("`%s` is not a slice of swaps.cod" % ast.unparse(e))
                lo = ev.ev(e.slice.lower) if e.slice.lower is not None else None
                hi = ev.ev(e.slice.upper) if e.slice.upper is not None else None
                return row.slice(lo, hi, facts), (lo if lo is not None else Lin.of(0)), (hi if hi is not None else row.length)
            try:
                lrv = shape.values_of(taken, ["left", "right"])
                if lrv is None:
                    raise StopIteration
                sw = next(x for x in taken if isinstance(x, ast.Assign) and ast.unparse(x.targets[0]) == "swap")
                ctx.need(isinstance(sw.value, ast.Call) and ast.unparse(sw.value.func).endswith(".swap") and len(sw.value.args) == 2, "make_units_adjacent: swap is not Id.swap(A, B)")
                (left, _, l_hi), (right, r_lo, _) = sl(lrv.elts[0]), sl(lrv.elts[1])
                (A, a_lo, a_hi), (B, b_lo, b_hi) = sl(sw.value.args[0]), sl(sw.value.args[1])
            except Unlocatable as e:
                ctx.ob("R13.10", "%s.from_tk.make_units_adjacent[%s]" % (TK, name), False, found=str(e), required="slices of the current row located by source / target / offset", mod=TK, node=chain, sig="adjacent:" + name)
                continue
            except (Unsupported, StopIteration) as e:
                raise AnalysisError("make_units_adjacent outside the recognised idioms: %s" % e)
            probs = []
            if not (facts.eq(l_hi, a_lo) and facts.eq(a_hi, b_lo) and facts.eq(b_hi, r_lo)):
                probs.append("left / A / B / right do not tile the row ([:%r] [%r:%r] [%r:%r] [%r:])" % (l_hi, a_lo, a_hi, b_lo, b_hi, r_lo))
            new_row = left + B + A + right
            new_off = o
            for x in taken:
                if isinstance(x, ast.If):
                    t, neg_ = x.test, False
                    while isinstance(t, ast.UnaryOp) and isinstance(t.op, ast.Not):
                        t, neg_ = t.operand, not neg_
                    if not (isinstance(t, ast.Compare) and len(t.ops) == 1 and type(t.ops[0]) in (ast.LtE, ast.Lt, ast.GtE, ast.Gt)):
                        raise AnalysisError("make_units_adjacent: test `%s` outside the recognised forms" % ast.unparse(x.test))
                    d = ev.ev(t.comparators[0]) - ev.ev(t.left)
                    holds = {ast.LtE: d, ast.Lt: d - 1, ast.GtE: -d, ast.Gt: -d - 1}[type(t.ops[0])]
                    if neg_:
                        holds = -holds - 1
                    if facts.nonneg(holds):
                        for y in x.body:
                            if isinstance(y, ast.AugAssign) and ast.unparse(y.target) == "offset":
                                new_off = new_off - ev.ev(y.value) if isinstance(y.op, ast.Sub) else new_off + ev.ev(y.value)
                            elif isinstance(y, ast.Assign) and ast.unparse(y.targets[0]) == "offset":
                                new_off = ev.ev(y.value)
                    elif not facts.nonneg(-holds - 1):
                        raise AnalysisError("make_units_adjacent: `%s` not decided in the case %s" % (ast.unparse(t), name))
            if probs:
                ctx.ob("R13.10", "%s.from_tk.make_units_adjacent[%s]" % (TK, name), False, found="; ".join(probs), required="one block move of the row", mod=TK, node=chain, sig="adjacent:" + name)
                continue
        try:
            at_o = new_row.slice(new_off, new_off + 1, facts)
            at_s = new_row.slice(new_off + 1, new_off + 2, facts)
            ok = at_o == Seq.atom(atoms["O"]) and at_s == Seq.atom(atoms["S"])
            found = "row %r, offset %r" % (new_row, new_off)
        except Unlocatable as e:
            ok, found = False, str(e)
        ctx.ob("R13.10", "%s.from_tk.make_units_adjacent[%s]" % (TK, name), ok, found=found, required="after the step the first qubit (O) is at `offset` and the second (S) right after it, the other wires keep their order",
               mod=TK, node=chain, sig="adjacent:" + name)
    ret = mua.body[-1]
    ctx.ob("R13.10", TK + ".from_tk.make_units_adjacent:result", isinstance(ret, ast.Return) and ast.unparse(ret.value) == "(offset, swaps)", found=ast.unparse(ret), required="the caller places the gate at the returned offset "
           "after the returned swaps (and undoes them with swaps[::-1])", mod=TK, node=ret, sig="adjacent-result")
    ctx.assumptions.append("R13.10 covers gates on one or two qubits (all of GATES, Rx, Rz, CRz); for three or more qubits the routine uses original indices after earlier moves and is not decided")


def check_rename_units(ctx):
    """R13.11: tk.Circuit.rename_units re-keys the recorded post-selection simultaneously: every read of the old mapping precedes every write"""
    m = ctx.model
    q = TK + ".Circuit.rename_units"
    fn = m.func(q)
    ctx.analysed(q)
    reads, writes = [], []
    order = {}
    for k, st in enumerate(fn.body):
        for x in ast.walk(st):
            order[id(x)] = k
            if isinstance(x, ast.Subscript) and ast.unparse(x.value) == "self.post_selection":
                (writes if isinstance(x.ctx, (ast.Store, ast.Del)) else reads).append((k, x))
            if isinstance(x, ast.Call) and isinstance(x.func, ast.Attribute) and ast.unparse(x.func.value) == "self.post_selection" and x.func.attr in ("update", "pop", "clear", "setdefault", "popitem"):
                writes.append((k, x))
                if x.func.attr == "pop":
                    reads.append((k, x))
    ctx.need(bool(reads) and bool(writes), "rename_units does not re-key self.post_selection")
    bad = [(ast.unparse(r), ast.unparse(w)) for kr, r in reads for kw, w in writes if kr >= kw]
    ctx.ob("R13.11", q + ":simultaneous", not bad, found=["`%s` is read while / after `%s` writes" % b for b in bad][:3] or "all reads of the old post-selection precede the writes",
           required="a renaming i -> j -> k of neighbouring post-selected bits must not read an entry that was just written (the new keys are computed first, then old keys deleted, then the update)", mod=TK, node=fn,
           sig="rename-simultaneous")
    # which renamed units carry a post-selection: bits of the default register only (swap() goes through a temporary unit of another register with index 0)
    comp = next((x for x in ast.walk(fn) if isinstance(x, (ast.ListComp, ast.GeneratorExp, ast.SetComp)) and "post_selection" in ast.unparse(x) and x.generators[0].ifs), None)
    ctx.need(comp is not None, "rename_units does not select the post-selected units among the renamed ones")
    conj = []
    for c_ in comp.generators[0].ifs:
        conj += c_.values if isinstance(c_, ast.BoolOp) and isinstance(c_.op, ast.And) else [c_]
    by_reg = any(isinstance(c_, ast.Compare) and len(c_.ops) == 1 and isinstance(c_.ops[0], ast.Eq) and any(isinstance(a, ast.Attribute) and a.attr == "reg_name" for a in ast.walk(c_)) for c_ in conj)
    by_idx = any(isinstance(c_, ast.Compare) and isinstance(c_.ops[0], ast.In) and ast.unparse(c_.comparators[0]) == "self.post_selection" for c_ in conj)
    ctx.ob("R13.11", q + ":units", by_reg and by_idx, found=[ast.unparse(c_) for c_ in conj], required="a renamed unit carries a post-selection when it is a bit of the default register whose index is a key of post_selection "
           "(index alone also matches Bit('tmp', 0))", mod=TK, node=comp, sig="rename-units-register")
    sup = [x for x in ast.walk(fn) if isinstance(x, ast.Call) and ast.unparse(x.func) == "super().rename_units"]
    ctx.ob("R13.11", q + ":delegates", len(sup) == 1 and [ast.unparse(a) for a in sup[0].args] == [fn.args.args[1].arg], found=[ast.unparse(x) for x in sup], required="the units themselves are renamed by pytket with the same mapping",
           mod=TK, node=fn, sig="rename-delegates")


def check_add_bit(ctx):
    """R13.9: tk.Circuit.add_bit(unit, offset) extends the post-processing by one wire (the new register is the last one) and moves that wire to
    position `offset`, keeping the order of the others"""
    m = ctx.model
    q = TK + ".Circuit.add_bit"
    fn = m.func(q)
    ctx.analysed(q)
    offp = fn.args.args[2].arg
    guard = next((s for s in fn.body if isinstance(s, ast.If) and ast.unparse(s.test) == "%s is not None" % offp), None)
    ctx.need(guard is not None, "add_bit does not distinguish offset=None")
    ext = [s for s in guard.body if isinstance(s, ast.AugAssign) and isinstance(s.op, ast.MatMult) and ast.unparse(s.target) == "self.post_processing"]
    perm = [s for s in guard.body if isinstance(s, ast.AugAssign) and isinstance(s.op, ast.RShift) and ast.unparse(s.target) == "self.post_processing"]
    ctx.need(len(ext) == 1 and len(perm) == 1 and guard.body.index(ext[0]) < guard.body.index(perm[0]), "add_bit is not `post_processing @= Id(bit)` followed by `post_processing >>= <permutation>`")
    ctx.ob("R13.9", q + ":extends", ast.unparse(ext[0].value) in ("Id(bit)", "Id(bit ** 1)"), found=ast.unparse(ext[0]), required="one more input and output wire at the end: the new register is the last one", mod=TK, node=ext[0],
           sig="add-bit-extends")
    o, mlen = Lin.var("offset"), Lin.var("m")
    facts = Facts([o, mlen])
    atoms = {"X0": Atom("X0", o), "X1": Atom("X1", mlen), "B": Atom("B", Lin.of(1))}
    row = Seq([Seg(atoms["X0"]), Seg(atoms["X1"]), Seg(atoms["B"])])
    ev = LinEv({offp: o})
    factors = []

    def flat(e):
        if isinstance(e, ast.BinOp) and isinstance(e.op, ast.MatMult):
            flat(e.left)
            flat(e.right)
        else:
            factors.append(e)
    flat(perm[0].value)

    def width(e, pos):
        """number of wires of a type expression: bit, bit ** k, or a slice of the post-processing's codomain (evaluated on the row)"""
        if ast.unparse(e) == "bit":
            return Lin.of(1)
        if isinstance(e, ast.BinOp) and isinstance(e.op, ast.Pow) and ast.unparse(e.left) == "bit":
            return ev.ev(e.right)
        if isinstance(e, ast.Subscript) and isinstance(e.slice, ast.Slice) and ast.unparse(e.value) == "self.post_processing.cod":
            sl = row.slice(ev.ev(e.slice.lower) if e.slice.lower is not None else None, ev.ev(e.slice.upper) if e.slice.upper is not None else None, facts)
            return sl.length
        raise Unsupported("type expression %s" % ast.unparse(e))
    probs = []
    try:
        pos, new_row = Lin.of(0), Seq()
        for f in factors:
            if isinstance(f, ast.Call) and ast.unparse(f.func) == "Id" and len(f.args) == 1:
                w = width(f.args[0], pos)
                new_row = new_row + row.slice(pos, pos + w, facts)
                pos = pos + w
            elif isinstance(f, ast.Call) and ast.unparse(f.func).endswith(".swap") and len(f.args) == 2:
                l, r = width(f.args[0], pos), width(f.args[1], pos)
                new_row = new_row + row.slice(pos + l, pos + l + r, facts) + row.slice(pos, pos + l, facts)
                pos = pos + l + r
            else:
                raise Unsupported("factor %s" % ast.unparse(f))
        if not facts.eq(pos, row.length):
            probs.append("the permutation has %r wires, the post-processing %r" % (pos, row.length))
        else:
            want = Seq([Seg(atoms["X0"]), Seg(atoms["B"]), Seg(atoms["X1"])])
            if not new_row.same(want, facts):
                probs.append("the outputs become %r" % (new_row,))
    except Unlocatable as e:
        probs.append(str(e))
    except Unsupported as e:
        raise AnalysisError("add_bit outside the recognised idioms: %s" % e)
    ctx.ob("R13.9", q + ":position", not probs, found="; ".join(probs) or "X0 B X1", required="the new (last) wire B moves to position offset, the wires X0 before and X1 after it keep their order", mod=TK, node=perm[0],
           sig="add-bit-position")
    sup = [c for c in ast.walk(fn) if isinstance(c, ast.Call) and ast.unparse(c.func) == "super().add_bit"]
    ctx.ob("R13.9", q + ":delegates", len(sup) == 1 and [ast.unparse(a) for a in sup[0].args] == [fn.args.args[1].arg], found=[ast.unparse(c) for c in sup], required="the bit itself is added by pytket", mod=TK, node=fn,
           sig="add-bit-delegates")


def check_swap_handler(ctx, top):
    """R13.13: a swap of two qubit (bit) wires exchanges the two registers at that position of the list (or, once a classical post-processing exists, is applied to it at the wire position)"""
    q = TK + ".to_tk"
    loop = next((s for s in top.body if isinstance(s, ast.For) and "layers" in ast.unparse(s.iter)), None)
    ctx.need(loop is not None and isinstance(loop.target, ast.Tuple) and len(loop.target.elts) == 3, "to_tk has no loop over the layers")
    N = {loop.target.elts[0].id: "left", loop.target.elts[1].id: "box"}
    arm = None
    cur = next((s for s in loop.body if isinstance(s, ast.If)), None)
    while cur is not None:
        if ast.unparse(cur.test) == "isinstance(%s, Swap)" % loop.target.elts[1].id:
            arm = cur
            break
        cur = cur.orelse[0] if len(cur.orelse) == 1 and isinstance(cur.orelse[0], ast.If) else None
    ctx.need(arm is not None and len(arm.body) == 1 and isinstance(arm.body[0], ast.If), "to_tk: the Swap handler is not a chain over the two kinds of wires")
    kinds = {}
    c = arm.body[0]
    while c is not None:
        t = shape.rename(c.test, N)
        kinds[ast.unparse(t)] = c
        last = c
        c = c.orelse[0] if len(c.orelse) == 1 and isinstance(c.orelse[0], ast.If) else None
    qb, bb = kinds.get("box == Swap(qubit, qubit)"), kinds.get("box == Swap(bit, bit)")
    ctx.ob("R13.13", q + ":Swap:kinds", qb is not None and bb is not None, found=sorted(kinds), required="one case for two qubit wires, one for two bit wires (a bit and a qubit live in different registers)", mod=TK, node=arm,
           sig="swap-kinds")
    tail = last.orelse
    ctx.ob("R13.13", q + ":Swap:mixed", all(isinstance(s, (ast.Continue, ast.Pass)) for s in tail), found=[ast.unparse(s)[:40] for s in tail] or "nothing", required="a swap of a bit and a qubit changes no register",
           mod=TK, node=arm, sig="swap-mixed")
    if qb is not None:
        shape.match_stmts(ctx, "R13.13", q + ":Swap:qubits", qb.body, ["off = left.count(qubit)", "swap(qubits[off], qubits[off + 1])"], N, mod=TK, node=qb, sig="swap-qubits", exact=True,
                          required="the registers of the two wires at the number of qubit wires to the left are exchanged")
    if bb is not None:
        inner_if = next((s for s in bb.body if isinstance(s, ast.If)), None)
        shape.match_stmts(ctx, "R13.13", q + ":Swap:bits:offset", [s for s in bb.body if isinstance(s, ast.Assign)], ["off = left.count(bit)"], N, mod=TK, node=bb, sig="swap-bits-offset", exact=True)
        ctx.need(inner_if is not None, "to_tk: the bit swap does not distinguish an existing post-processing")
        shape.match(ctx, "R13.13", q + ":Swap:bits:test", inner_if.test, "tk_circ.post_processing", N, mod=TK, node=inner_if, sig="swap-bits-test")
        shape.match_stmts(ctx, "R13.13", q + ":Swap:bits:post-processing", inner_if.body, ["right = Id(tk_circ.post_processing.cod[off + 2:])", "tk_circ.post_process(Id(bit ** off) @ Swap(bit, bit) @ right)"], N,
                          mod=TK, node=inner_if, sig="swap-bits-pp", exact=True, required="the swap is applied to the outputs of the post-processing at the wire position (identities on both sides)")
        shape.match_stmts(ctx, "R13.13", q + ":Swap:bits:registers", inner_if.orelse, ["swap(bits[off], bits[off + 1], unit_factory=Bit)"], N, mod=TK, node=inner_if, sig="swap-bits-registers", exact=True,
                          required="without post-processing the two bit registers are exchanged")
    sw = inner(ctx, top, "swap")
    ctx.analysed(TK + ".to_tk.swap")
    a = [x.arg for x in sw.args.args]
    d = dict(zip(a[len(a) - len(sw.args.defaults):], sw.args.defaults))
    ctx.ob("R13.13", q + ".swap:default", len(a) == 3 and ast.unparse(d.get(a[2], ast.Constant(None))) == "Qubit", found=ast.unparse(sw.args), required="swap(i, j, unit_factory=Qubit)", mod=TK, node=sw, sig="swap-default")
    if len(a) == 3:
        shape.match_stmts(ctx, "R13.13", q + ".swap", sw.body, ["old, tmp, new = unit_factory(i), unit_factory('tmp', 0), unit_factory(j)", "tk_circ.rename_units({old: tmp})", "tk_circ.rename_units({new: old})",
                                                              "tk_circ.rename_units({tmp: new})"], {a[0]: "i", a[1]: "j", a[2]: "unit_factory"}, mod=TK, node=sw, sig="swap-helper", exact=True,
                          required="the two units are exchanged through a temporary unit: i -> tmp, j -> i, tmp -> j")


def check_measurements(ctx, top):
    """R13.15: each measured wire is measured from ITS qubit register into ITS bit register: the j-th wire of the box reads qubits[qubit_offset + j] and (when overwriting) bits[bit_offset + j]"""
    mq = inner(ctx, top, "measure_qubits")
    q = TK + ".to_tk.measure_qubits"
    a = [x.arg for x in mq.args.args]
    ctx.need(len(a) == 5, "measure_qubits does not take (qubits, bits, box, bit_offset, qubit_offset)")
    N = dict(zip(a, ("qubits", "bits", "box", "bit_offset", "qubit_offset")))
    ov = next((s for s in mq.body if isinstance(s, ast.If) and "override_bits" in ast.unparse(s.test)), None)
    ctx.need(ov is not None, "measure_qubits has no case for measurements that overwrite bits")
    lp = next((s for s in ov.body if isinstance(s, ast.For)), None)
    ctx.need(lp is not None and isinstance(lp.target, ast.Tuple), "measure_qubits: no loop in the overwriting case")
    N1 = dict(N)
    N1[lp.target.elts[0].id] = "j"
    shape.match_stmts(ctx, "R13.15", q + ":overwrite", lp.body, ["i_bit = bits[bit_offset + j]", "i_qubit = qubits[qubit_offset + j]", "tk_circ.Measure(i_qubit, i_bit)"], N1, mod=TK, node=lp, sig="measure-overwrite",
                      required="the j-th qubit of the box is measured into the j-th bit of the box: Measure(qubit, bit)")
    main = next((s for s in mq.body if isinstance(s, ast.For)), None)
    ctx.need(main is not None and isinstance(main.target, ast.Tuple), "measure_qubits: no loop over the measured wires")
    N2 = dict(N)
    N2[main.target.elts[0].id] = "j"
    shape.match(ctx, "R13.15", q + ":wires", main.iter, "enumerate(box.dom)", N, mod=TK, node=main, sig="measure-wires")
    relevant = [s for s in main.body if not (isinstance(s, ast.If) and "Bra" not in ast.unparse(s.test))]
    shape.match_stmts(ctx, "R13.15", q + ":fresh-bit", relevant, ["i_bit, i_qubit = len(tk_circ.bits), qubits[qubit_offset + j]", "tk_circ.Measure(i_qubit, i_bit)",
                                                                  "if isinstance(box, Bra):\n    tk_circ.post_select({i_bit: box.bitstring[j]})"], N2, mod=TK, node=main, sig="measure-fresh",
                      required="a fresh bit register (the next free index) receives the j-th qubit; an effect records the post-selected value of that very bit: its j-th digit")
    order = [shape.head(s) for s in main.body]
    pos = {h: k for k, h in enumerate(order)}
    ok = pos.get("call:tk_circ.add_bit", 99) < pos.get("call:tk_circ.Measure", -1)
    ctx.ob("R13.15", q + ":bit-before-measure", ok, found=order, required="the bit register is added before it is measured into", mod=TK, node=main, sig="measure-order")
    ret = [r for r in mq.body if isinstance(r, ast.Return)] + [r for r in ov.body if isinstance(r, ast.Return)]
    for r in ret:
        shape.match(ctx, "R13.15", q + ":returns", r.value, "(bits, qubits)", N, mod=TK, node=r, sig="measure-returns", required="(bits, qubits), the order in which to_tk unpacks them")
    loop = next((s for s in top.body if isinstance(s, ast.For) and "layers" in ast.unparse(s.iter)), None)
    call = next((s for s in ast.walk(loop) if isinstance(s, ast.Assign) and isinstance(s.value, ast.Call) and ast.unparse(s.value.func) == "measure_qubits"), None)
    ctx.need(call is not None, "to_tk does not call measure_qubits")
    NL = {loop.target.elts[0].id: "left", loop.target.elts[1].id: "box"}
    shape.match_stmts(ctx, "R13.15", TK + ".to_tk:measure-call", [call], ["bits, qubits = measure_qubits(qubits, bits, box, left.count(bit), left.count(qubit))"], NL, mod=TK, node=call, sig="measure-call", exact=True,
                      required="offsets = numbers of bit / qubit wires to the left of the box, in the order the helper takes them")
    # the discarding of bits in the post-processing: the all-ones effect on n bits
    dis = next((s for s in ast.walk(loop) if isinstance(s, ast.Call) and ast.unparse(s.func) == "ClassicalGate" and s.args and isinstance(s.args[0], ast.Constant) and s.args[0].value == "Discard"), None)
    ctx.need(dis is not None, "to_tk: the discarding of bits is not a ClassicalGate('Discard', ...)")
    shape.match(ctx, "R13.15", TK + ".to_tk:discard-bits", dis, "ClassicalGate('Discard', n_bits, 0, 2 ** n_bits * [1])", {}, mod=TK, node=dis, sig="discard-bits", required="n bits in, none out, every entry 1 (the marginal)")
    nb = next((s for s in ast.walk(loop) if isinstance(s, ast.Assign) and isinstance(s.targets[0], ast.Name) and s.targets[0].id == "n_bits"), None)
    shape.match(ctx, "R13.15", TK + ".to_tk:discard-bits:width", nb.value if nb else None, "box.dom.count(bit)", NL, mod=TK, node=nb or loop, sig="discard-bits-width")


def check_classical_gate_types(ctx):
    """R13.15: the classical gates to_tk composes into the post-processing are given their numbers of bits as ints: each is turned into that many bit wires, domain and codomain each on its own"""
    m = ctx.model
    G = "discopy.quantum.gates"
    fn = m.func(G + ".ClassicalGate.__init__")
    ctx.analysed(G + ".ClassicalGate.__init__")
    a = [x.arg for x in fn.args.args]
    ctx.need(len(a) >= 4, "ClassicalGate.__init__ takes fewer than (name, dom, cod, ...)")
    ups = [s for s in fn.body if isinstance(s, ast.If) and "isinstance" in ast.unparse(s.test) and "int" in ast.unparse(s.test)]
    shape.match_stmts(ctx, "R13.15", G + ".ClassicalGate.__init__:wires", ups, ["if isinstance(dom, int):\n    dom = bit ** dom", "if isinstance(cod, int):\n    cod = bit ** cod"], {a[2]: "dom", a[3]: "cod"}, mod=G, node=fn,
                      sig="classical-wires", exact=True, required="an int stands for that many bits, for the domain and for the codomain separately")


def check_tk_circuit_state(ctx):
    """R13.14: what a tk.Circuit records next to the tket circuit starts neutral: no post-selection, scalar 1, the identity post-processing on the bits that are not post-selected"""
    m = ctx.model
    fn = m.func(TK + ".Circuit.__init__")
    ctx.analysed(TK + ".Circuit.__init__")
    a = [x.arg for x in fn.args.args]
    d = dict(zip(a[len(a) - len(fn.args.defaults):], [ast.unparse(x) for x in fn.args.defaults]))
    ctx.ob("R13.14", TK + ".Circuit.__init__:defaults", a[1:] == ["n_qubits", "n_bits", "post_selection", "scalar", "post_processing"] and d == {"n_qubits": "0", "n_bits": "0", "post_selection": "None", "scalar": "None",
           "post_processing": "None"}, found=ast.unparse(fn.args), required="(n_qubits=0, n_bits=0, post_selection=None, scalar=None, post_processing=None)", mod=TK, node=fn, sig="tk-init-defaults")
    shape.match_stmts(ctx, "R13.14", TK + ".Circuit.__init__:state", [s for s in fn.body if isinstance(s, ast.Assign)],
                      ["self.post_selection = post_selection or {}", "self.scalar = scalar or 1", "self.post_processing = post_processing or Id(bit ** (n_bits - len(self.post_selection)))"], mod=TK, node=fn,
                      sig="tk-init-state", exact=True, required="each recorded piece is the one given, else its neutral value (the scalar 1; the identity on the bits left after post-selection)")
    sup = next((c for c in ast.walk(fn) if isinstance(c, ast.Call) and ast.unparse(c.func) == "super().__init__"), None)
    shape.match(ctx, "R13.14", TK + ".Circuit.__init__:tket", sup, "super().__init__(n_qubits, n_bits)", {}, mod=TK, node=fn, sig="tk-init-tket")


def check_counts_pipeline(ctx):
    """R13.14: what tk.Circuit.get_counts does to the raw counts of the backend: options read under their own names, frequencies, the recorded post-selection, the recorded scalar"""
    m = ctx.model
    q = TK + ".Circuit.get_counts"
    fn = m.func(q)
    kw = fn.args.kwarg.arg if fn.args.kwarg else "params"
    n = 0
    for st in fn.body:
        if isinstance(st, ast.Assign) and isinstance(st.targets[0], ast.Name) and isinstance(st.value, ast.Call) and ast.unparse(st.value.func) == kw + ".get":
            n += 1
            a = st.value.args
            ok = len(a) >= 1 and isinstance(a[0], ast.Constant) and a[0].value == st.targets[0].id
            ctx.ob("R13.14", "%s:option[%s]" % (q, st.targets[0].id), ok, found=ast.unparse(st), required="the option is read under its own name, the default second", mod=TK, node=st, sig="option:" + st.targets[0].id, trivial=True)
    ctx.need(n >= 5, "tk.Circuit.get_counts reads fewer than 5 options (%d)" % n)
    defaults = {st.targets[0].id: ast.unparse(st.value.args[1]) for st in fn.body if isinstance(st, ast.Assign) and isinstance(st.targets[0], ast.Name) and isinstance(st.value, ast.Call)
                and ast.unparse(st.value.func) == kw + ".get" and len(st.value.args) == 2}
    want = {"scale": "True", "post_select": "True", "normalize": "True", "measure_all": "False"}
    bad = {k: defaults.get(k) for k, v in want.items() if defaults.get(k) != v}
    ctx.ob("R13.14", q + ":defaults", not bad, found=bad or want, required="by default counts are normalised, post-selected and scaled, and no measurement is added", mod=TK, node=fn, sig="option-defaults")
    blocks = {ast.unparse(s.test): s for s in fn.body if isinstance(s, ast.If)}
    self_, others_ = fn.args.args[0].arg, fn.args.vararg.arg if fn.args.vararg else "others"
    NB = {self_: "self", others_: "others"}
    for opt, stmt in (("measure_all", "for circuit in (self,) + others:\n    circuit.measure_all()"), ("compilation is not None", "for circuit in (self,) + others:\n    compilation.apply(circuit)")):
        b = blocks.get(opt)
        ctx.ob("R13.14", "%s:step[%s]" % (q, opt.split()[0]), b is not None, found=sorted(blocks), required="the step is taken exactly when its option asks for it (`if %s:`)" % opt, mod=TK, node=fn, sig="step-guard:" + opt.split()[0])
        if b is not None:
            shape.match_stmts(ctx, "R13.14", "%s:step[%s]:body" % (q, opt.split()[0]), b.body, [stmt], NB, mod=TK, node=b, sig="step-body:" + opt.split()[0], exact=True)
    nb = blocks.get("normalize")
    ctx.need(nb is not None and blocks.get("post_select") is not None and blocks.get("scale") is not None, "get_counts: the normalize / post_select / scale steps are not guarded by their options")
    shape.match_stmts(ctx, "R13.14", q + ":normalize", nb.body, ["counts = list(map(probs_from_counts, counts))"], mod=TK, node=nb, sig="normalize", exact=True, required="frequencies instead of numbers of shots, for every circuit")
    order = [ast.unparse(s.test) for s in fn.body if isinstance(s, ast.If) and ast.unparse(s.test) in ("normalize", "post_select")]
    ctx.ob("R13.14", q + ":order", order == ["normalize", "post_select"], found=order, required="frequencies are taken over ALL shots, before the outcomes that disagree with the post-selection are dropped (scaling commutes with both)",
           mod=TK, node=fn, sig="pipeline-order")
    ps = blocks["post_select"]
    lp = next((s for s in ps.body if isinstance(s, ast.For)), None)
    ctx.need(lp is not None and isinstance(lp.target, ast.Tuple), "get_counts: no loop over the circuits in the post-selection step")
    N = {lp.target.elts[0].id: "i", lp.target.elts[1].id: "circuit"}
    inner = next((s for s in lp.body if isinstance(s, ast.For)), None)
    ctx.need(inner is not None and isinstance(inner.target, ast.Tuple), "get_counts: no loop over the bitstrings in the post-selection step")
    shape.match(ctx, "R13.14", q + ":post-select:counts", inner.iter, "counts[i].items()", N, mod=TK, node=inner, sig="ps-iter")
    N2 = dict(N)
    N2.update({inner.target.elts[0].id: "bitstring", inner.target.elts[1].id: "count"})
    shape.match_stmts(ctx, "R13.14", q + ":post-select:filter", inner.body,
                      ["if all((bitstring[index] == value for index, value in circuit.post_selection.items())):\n    key = tuple((value for index, value in enumerate(bitstring) if index not in circuit.post_selection))\n    post_selected.update({key: count})"],
                      N2, mod=TK, node=inner, sig="ps-filter", exact=True, required="kept when every post-selected bit has its recorded value; keyed by the remaining bits in order")
    flat = [s for s in lp.body if not isinstance(s, ast.For)]
    shape.match_stmts(ctx, "R13.14", q + ":post-select:result", flat, ["post_selected = dict()", "counts[i] = post_selected"], N, mod=TK, node=lp, sig="ps-result", exact=True)
    sc = blocks["scale"]
    lp = next((s for s in sc.body if isinstance(s, ast.For)), None)
    ctx.need(lp is not None and isinstance(lp.target, ast.Tuple), "get_counts: no loop over the circuits in the scaling step")
    N = {lp.target.elts[0].id: "i", lp.target.elts[1].id: "circuit"}
    inner = next((s for s in lp.body if isinstance(s, ast.For)), None)
    ctx.need(inner is not None and isinstance(inner.target, ast.Name), "get_counts: no loop over the bitstrings in the scaling step")
    shape.match(ctx, "R13.14", q + ":scale:counts", inner.iter, ["counts[i]", "counts[i].keys()", "list(counts[i])"], N, mod=TK, node=inner, sig="scale-iter")
    N2 = dict(N)
    N2[inner.target.id] = "bitstring"
    shape.match_stmts(ctx, "R13.14", q + ":scale:factor", inner.body, ["counts[i][bitstring] *= circuit.scalar"], N2, mod=TK, node=inner, sig="scale-factor", exact=True, required="every frequency multiplied by the scalar recorded for that circuit")
    shape.match(ctx, "R13.14", q + ":result", next((s.value for s in reversed(fn.body) if isinstance(s, ast.Return)), None), "counts", {}, mod=TK, node=fn, sig="counts-result")
    res = next((s for s in fn.body if isinstance(s, ast.Assign) and ast.unparse(s.targets[0]) == "counts"), None)
    shape.match(ctx, "R13.14", q + ":raw", res.value if res else None, "[backend.get_result(h).get_counts() for h in handles]", {}, mod=TK, node=res or fn, sig="counts-raw", required="one table of counts per submitted circuit, in order")


def check(ctx):
    m = ctx.model
    ctx.rule("R13.14", "tk.Circuit.get_counts: options under their own names; raw counts per circuit in order; normalise, keep the outcomes agreeing with the recorded post-selection keyed by the other bits, scale by the recorded scalar")
    ctx.attempt(check_counts_pipeline, ctx)
    ctx.attempt(check_tk_circuit_state, ctx)
    top = m.func(TK + ".to_tk")
    ctx.rule("R13.15", "measurements: the j-th wire of the box goes from qubits[qubit_offset + j] into its own bit (Measure(qubit, bit)); effects post-select that bit on their j-th digit; discarded bits are the all-ones effect")
    ctx.attempt(check_measurements, ctx, top)
    ctx.attempt(check_classical_gate_types, ctx)
    ctx.rule("R13.13", "swaps in to_tk: two qubit (bit) wires exchange their registers through a temporary unit; with a classical post-processing the swap is applied to its outputs at the wire position")
    ctx.attempt(check_swap_handler, ctx, top)
    fn = m.func(TK + ".from_tk")
    ctx.attempt(check_prepare, ctx, top)
    ctx.attempt(check_bit_positions, ctx, top)
    ctx.attempt(check_add_bit, ctx)
    ctx.attempt(check_from_tk_bits, ctx, fn)
    ctx.attempt(check_adjacent, ctx, fn)
    ctx.attempt(check_rename_units, ctx)
