"""Run the pinned test-suite on a copy of the repository and compare with the stable baseline.
usage: suite.py <repo dir>   -> last line 'suite: PASS n/219' or 'suite: FAIL missing=[...]'"""
import json, os, subprocess, sys, tempfile
import xml.etree.ElementTree as ET
repo = sys.argv[1]
base = json.load(open("/root/.vp/BASELINE.json"))["stable_pass"] if os.path.exists("/root/.vp/BASELINE.json") else None
xml = tempfile.mktemp(suffix=".xml")
env = dict(os.environ, PYTHONPATH=repo, MPLBACKEND="Agg")
r = subprocess.run(["/venv/bin/python", "-m", "pytest", "-ra", "-q", "-p", "no:cacheprovider", "--timeout=%s" % os.environ.get("SUITE_TIMEOUT", "900"),
                    "--continue-on-collection-errors", "--junitxml=" + xml], cwd=repo, env=env, capture_output=True, text=True)
passed = set()
try:
    for tc in ET.parse(xml).getroot().iter("testcase"):
        if not any(c.tag in ("failure", "error", "skipped") for c in tc):
            passed.add("%s::%s" % (tc.get("classname"), tc.get("name")))
finally:
    if os.path.exists(xml):
        os.remove(xml)
if base is None:
    print("suite: %d passed (no baseline file)" % len(passed)); sys.exit(0)
missing = sorted(set(base) - passed)
print(r.stdout[-1500:] if missing else "")
print("suite: PASS %d/%d" % (len(base) - len(missing), len(base)) if not missing else "suite: FAIL missing=%s" % missing[:8])
sys.exit(1 if missing else 0)
