"""Prototype R12.2: the swap network of CQMap.tensor routes (c0 c1)(q0 q1)(q0' q1') <-> (c0 q0 q0')(c1 q1 q1')."""
import ast, sys
from .lin import Lin, Facts
from .words import Seq, Seg, Atom, Unlocatable
from .beval import Obj, Closure, Unsupported, Undecided
from .c04 import Ev, TD
from .c10 import find_method, swap_contract


def check(path="/repo/discopy/quantum/cqmap.py", out=print):
    fn = find_method(path, "CQMap", "tensor")
    # positional atoms of width 1 for the six wires of f.dom / g.dom and f.cod / g.cod
    def wires(tag):
        return [Atom(n + tag, 1) for n in ("c", "qa", "qb")]
    fd, gd, fc, gc = wires("0.dom"), wires("1.dom"), wires("0.cod"), wires("1.cod")
    W = lambda ats: Seq([Seg(a) for a in ats])
    f = Obj("Box", dom=W(fd), cod=W(fc)); g = Obj("Box", dom=W(gd), cod=W(gc))
    ev = Ev(Facts(), "CQMap.tensor")
    D = Obj("Factory", id=Closure(lambda t: TD(t, t)), swap=Closure(swap_contract))
    env = {"f": f, "g": g, "Diagram": D}
    fails = []
    found = {}
    for st in fn.body:
        if isinstance(st, ast.Assign) and isinstance(st.targets[0], ast.Name) and st.targets[0].id in ("above", "below"):
            try:
                found[st.targets[0].id] = ev.ev(st.value, env)
            except (Unlocatable, Unsupported, Undecided) as e:
                fails.append("R12.2 `%s`: %s: %s" % (st.targets[0].id, type(e).__name__, e))
    if set(found) != {"above", "below"} and not fails:
        out("ANALYSIS-ERROR: `above`/`below` networks not found in CQMap.tensor"); return 2
    fails += ["R12.2 network does not compose: %r" % o for o in ev.obligations if not o.ok]
    if "above" in found:
        want_dom = W([fd[0], gd[0], fd[1], gd[1], fd[2], gd[2]])      # classical(f,g) quantum(f,g) quantum'(f,g)
        if found["above"].f["dom"] != want_dom or found["above"].f["cod"] != W(fd) + W(gd):
            fails.append("R12.2 `above` : %r -> %r, spec %r -> %r" % (found["above"].f["dom"], found["above"].f["cod"], want_dom, W(fd) + W(gd)))
    if "below" in found:
        want_cod = W([fc[0], gc[0], fc[1], gc[1], fc[2], gc[2]])
        if found["below"].f["dom"] != W(fc) + W(gc) or found["below"].f["cod"] != want_cod:
            fails.append("R12.2 `below` : %r -> %r, spec %r -> %r" % (found["below"].f["dom"], found["below"].f["cod"], W(fc) + W(gc), want_cod))
    for x in fails:
        out("VIOLATION-CANDIDATE " + x)
    if not fails:
        out("  R12.2 ok: above : %r -> %r ; below : %r -> %r" % (found["above"].f["dom"], found["above"].f["cod"], found["below"].f["dom"], found["below"].f["cod"]))
    return 1 if fails else 0


if __name__ == "__main__":
    sys.exit(check())
