"""Engine B: abstract evaluation of the small expression language used on types, offsets and lists.

Values: Lin (ints), bool/None/str, Seq (types and lists), tuple, Obj (records), Closure.
Unsupported syntax raises Unsupported (-> ANALYSIS-ERROR), never a guess.
"""
import ast
from .lin import Lin, Facts
from .words import Seq, Seg, Item, Rep, MapSeg, Atom, Unlocatable


class Unsupported(Exception):
    pass


class Undecided(Exception):
    """A test could not be decided with the facts in scope."""
    def __init__(self, node, lin=None):
        super().__init__("undecided test: %s" % ast.unparse(node))
        self.node, self.lin = node, lin


class Refused(Exception):
    """The analysed code raises on this path."""
    def __init__(self, exc):
        super().__init__(exc)
        self.exc = exc


class Obligation:
    def __init__(self, kind, found, required, where, ok):
        self.kind, self.found, self.required, self.where, self.ok = kind, found, required, where, ok

    def __repr__(self):
        return "%s %s @%s: found %r required %r" % ("OK " if self.ok else "FAIL", self.kind, self.where, self.found, self.required)


class Obj:
    """A record with a class tag."""
    def __init__(self, kind, **fields):
        self.kind = kind
        self.f = fields

    def __repr__(self):
        return "%s(%s)" % (self.kind, ", ".join("%s=%r" % kv for kv in self.f.items()))


def Box(name, dom, cod, **extra):
    return Obj("Box", name=name, dom=dom, cod=cod, **extra)


def Layer(left, box, right):
    return Obj("Layer", left=left, box=box, right=right)


def layer_dom(l):
    return l.f["left"] + l.f["box"].f["dom"] + l.f["right"]


def layer_cod(l):
    return l.f["left"] + l.f["box"].f["cod"] + l.f["right"]


def Arrow(dom, cod, boxes, rows=None):
    return Obj("Arrow", dom=dom, cod=cod, boxes=boxes, rows=rows)


def Diagram(dom, cod, boxes, offsets, layers, cls="Diagram"):
    return Obj("Diagram", dom=dom, cod=cod, boxes=boxes, offsets=offsets, layers=layers, cls=cls)


class Closure:
    def __init__(self, fn):
        self.fn = fn

    def __call__(self, *a, **k):
        return self.fn(*a, **k)


class Evaluator:
    def __init__(self, facts=None, where="?"):
        self.facts = facts or Facts()
        self.obligations = []
        self.where = where
        self.builtins = {
            "len": self._len, "range": self._range, "tuple": lambda x: x, "list": lambda x: x,
            "isinstance": self._isinstance, "int": "int",
            "any": lambda xs: any(self.truth(x, None) for x in xs), "all": lambda xs: all(self.truth(x, None) for x in xs),
        }
        self.classes = {}   # name -> constructor closure (models with verified contracts)

    # ---------------------------------------------------------------- helpers
    def oblige(self, kind, found, required, node=None):
        ok = found == required
        if not ok and isinstance(found, Lin) and isinstance(required, Lin):
            ok = self.facts.eq(found, required)
        if not ok and isinstance(found, Seq) and isinstance(required, Seq):
            ok = found.same(required, self.facts)
        self.obligations.append(Obligation(kind, found, required, "%s:%s" % (self.where, getattr(node, "lineno", "?")), ok))
        return ok

    def _len(self, v):
        if isinstance(v, Seq):
            return v.length
        if isinstance(v, Obj) and v.kind in ("Diagram", "Arrow"):
            return v.f["boxes"].length
        if isinstance(v, tuple):
            return Lin.of(len(v))
        raise Unsupported("len of %r" % (v,))

    def _range(self, *a):
        a = [Lin.of(x) for x in a]
        lo, hi = (Lin.of(0), a[0]) if len(a) == 1 else (a[0], a[1])
        n = hi - lo
        at = Atom("range(%r,%r)" % (lo, hi), n, elem=lambda k, lo=lo: lo + k)
        return Seq.atom(at)

    def _isinstance(self, v, cls):
        names = cls if isinstance(cls, tuple) else (cls,)
        if isinstance(v, Obj):
            tags = v.f.get("isa", (v.kind,))
            return any(getattr(n, "name", n) in tags for n in names)
        raise Unsupported("isinstance on %r" % (v,))

    # ------------------------------------------------------------ expressions
    def ev(self, n, env):
        m = getattr(self, "e_" + type(n).__name__, None)
        if m is None:
            raise Unsupported("expression %s: %s" % (type(n).__name__, ast.unparse(n)))
        return m(n, env)

    def e_Constant(self, n, env):
        v = n.value
        return Lin.of(v) if isinstance(v, (int, float)) and not isinstance(v, bool) else v

    def e_Name(self, n, env):
        if n.id in env:
            return env[n.id]
        if n.id in self.classes:
            return self.classes[n.id]
        if n.id in self.builtins:
            return self.builtins[n.id]
        raise Unsupported("unbound name %s" % n.id)

    def e_Tuple(self, n, env):
        return tuple(self.ev(e, env) for e in n.elts)

    def e_List(self, n, env):
        return Seq([Item(self.ev(e, env)) for e in n.elts])

    def e_Attribute(self, n, env):
        dotted = ast.unparse(n)
        if dotted in self.classes:
            return self.classes[dotted]
        v = self.ev(n.value, env)
        return self.getattr(v, n.attr, n)

    def getattr(self, v, attr, n=None):
        if isinstance(v, Obj):
            if v.kind == "Layer" and attr in ("dom", "cod"):
                return layer_dom(v) if attr == "dom" else layer_cod(v)
            if v.kind == "Layer" and attr in ("_left", "_box", "_right"):
                return v.f[attr[1:]]
            if attr in v.f:
                return v.f[attr]
            if attr == "upgrade":
                return Closure(lambda x: x)       # contract R01.4/R02.1: upgrade preserves the four fields
            if attr == "id":
                return self.classes.get("Id") or self._unsupported("id factory")
        if isinstance(v, Seq) and attr in ("l", "r"):
            return getattr(v, attr)
        raise Unsupported("attribute .%s of %r" % (attr, v))

    def _unsupported(self, what):
        raise Unsupported(what)

    def e_UnaryOp(self, n, env):
        v = self.ev(n.operand, env)
        if isinstance(n.op, ast.USub):
            return -Lin.of(v)
        if isinstance(n.op, ast.Not):
            return not self.truth(v, n.operand)
        raise Unsupported(ast.unparse(n))

    def e_BinOp(self, n, env):
        l, r = self.ev(n.left, env), self.ev(n.right, env)
        op = type(n.op)
        if op is ast.MatMult:
            return self.tensor(l, r, n)
        if op is ast.RShift:
            return self.then(l, r, n)
        if op is ast.LShift:
            return self.then(r, l, n)
        if op is ast.Add:
            if isinstance(l, Seq) and isinstance(r, Seq):
                return l + r
            if isinstance(l, tuple) and isinstance(r, tuple):
                return l + r
            return Lin.of(l) + Lin.of(r)
        if op is ast.Sub:
            return Lin.of(l) - Lin.of(r)
        if op is ast.Mult:
            if isinstance(l, Seq) or isinstance(r, Seq):
                s, k = (l, r) if isinstance(l, Seq) else (r, l)
                if len(s.parts) == 1 and isinstance(s.parts[0], Item):
                    return Seq([Rep(Lin.of(k), s.parts[0].value)])
                raise Unsupported("repetition of %r" % (s,))
            return Lin.of(l) * Lin.of(r)
        if op is ast.Div:
            return Lin.of(l) / Lin.of(r)
        if op is ast.FloorDiv:
            q = Lin.of(l) / Lin.of(r)
            if all(v.denominator == 1 for v in list(q.t.values()) + [q.c]):
                return q
            raise Unsupported("floor division %s is not exact" % ast.unparse(n))
        raise Unsupported(ast.unparse(n))

    def tensor(self, l, r, n=None):
        if isinstance(l, Seq) and isinstance(r, Seq):
            return l + r
        raise Unsupported("@ on %r, %r" % (l, r))

    def then(self, a, b, n=None):
        """checked composition of arrows of layers (contract of cat.Arrow.then, verified by R01.3)"""
        a, b = self.as_arrow(a), self.as_arrow(b)
        self.oblige("compose", a.f["cod"], b.f["dom"], n)
        return Arrow(a.f["dom"], b.f["cod"], a.f["boxes"] + b.f["boxes"])

    def as_arrow(self, v):
        if isinstance(v, Obj) and v.kind == "Arrow":
            return v
        if isinstance(v, Obj) and v.kind == "Layer":
            return Arrow(layer_dom(v), layer_cod(v), Seq([Item(v)]))
        raise Unsupported("not an arrow: %r" % (v,))

    def e_Subscript(self, n, env):
        v = self.ev(n.value, env)
        s = n.slice
        if isinstance(s, ast.Slice):
            if s.step is not None:
                raise Unsupported("slice step")
            lo = self.ev(s.lower, env) if s.lower else None
            hi = self.ev(s.upper, env) if s.upper else None
            return self.slice(v, lo, hi, n)
        idx = self.ev(s, env)
        return self.index(v, idx, n)

    def slice(self, v, lo, hi, n=None):
        if isinstance(v, Seq):
            return v.slice(lo, hi, self.facts)
        if isinstance(v, Obj) and v.kind == "Arrow":
            # contract of cat.Arrow.__getitem__ (forward slices), verified separately
            rows = v.f.get("rows")
            if rows is None:
                raise Unsupported("slice of an arrow without rows")
            boxes = v.f["boxes"].slice(lo, hi, self.facts)
            lo_ = Lin.of(0) if lo is None else Lin.of(lo)
            hi_ = v.f["boxes"].length if hi is None else Lin.of(hi)
            return Arrow(rows(lo_), rows(hi_), boxes, rows=None)
        if isinstance(v, tuple):
            lo_ = 0 if lo is None else int(Lin.of(lo).const())
            hi_ = len(v) if hi is None else int(Lin.of(hi).const())
            return v[lo_:hi_]
        raise Unsupported("slice of %r" % (v,))

    def index(self, v, idx, n=None):
        if isinstance(v, Seq):
            return v.item(idx, self.facts)
        if isinstance(v, tuple):
            return v[int(Lin.of(idx).const())]
        if isinstance(v, Obj) and v.kind == "Arrow":
            return v.f["boxes"].item(idx, self.facts)
        raise Unsupported("index of %r" % (v,))

    def e_Compare(self, n, env):
        vals = [self.ev(n.left, env)] + [self.ev(c, env) for c in n.comparators]
        res = True
        for op, a, b, node in zip(n.ops, vals, vals[1:], [n] * len(n.ops)):
            res = res and self.compare(op, a, b, n)
            if res is False:
                return False
        return res

    def compare(self, op, a, b, n):
        t = type(op)
        if isinstance(a, (Lin, int)) and isinstance(b, (Lin, int)) and not isinstance(a, bool) and not isinstance(b, bool):
            d = Lin.of(a) - Lin.of(b)
            s = self.facts.sign(d)
            table = {ast.GtE: {"+": True, "0": True, ">=0": True, "-": False},
                     ast.Gt: {"+": True, "0": False, "-": False, "<=0": False},
                     ast.LtE: {"-": True, "0": True, "<=0": True, "+": False},
                     ast.Lt: {"-": True, "0": False, "+": False, ">=0": False},
                     ast.Eq: {"0": True, "+": False, "-": False},
                     ast.NotEq: {"0": False, "+": True, "-": True}}
            if t in table and s in table[t]:
                return table[t][s]
            raise Undecided(n, d)
        if t in (ast.Eq, ast.NotEq) and isinstance(a, Seq) and isinstance(b, Seq):
            if a == b:
                return t is ast.Eq
            raise Undecided(n)
        if t in (ast.Is, ast.IsNot):
            return (a is b) == (t is ast.Is)
        if t in (ast.Eq, ast.NotEq) and not isinstance(a, (Obj, Seq)) and not isinstance(b, (Obj, Seq)):
            return (a == b) == (t is ast.Eq)
        raise Undecided(n)

    def truth(self, v, n):
        if isinstance(v, bool) or v is None:
            return bool(v)
        if isinstance(v, Lin):
            s = self.facts.sign(v)
            if s in ("+", "-"):
                return True
            if s == "0":
                return False
            raise Undecided(n, v)
        if isinstance(v, Seq):
            return self.truth(v.length, n)
        if isinstance(v, Obj):
            if v.kind in ("Arrow", "Diagram"):
                return self.truth(v.f["boxes"].length, n)
            return True
        if isinstance(v, (tuple, str)):
            return bool(v)
        if callable(v):
            return True
        raise Undecided(n)

    def e_BoolOp(self, n, env):
        if isinstance(n.op, ast.And):
            v = True
            for e in n.values:
                v = self.ev(e, env)
                if not self.truth(v, e):
                    return v
            return v
        v = False
        for e in n.values:
            v = self.ev(e, env)
            if self.truth(v, e):
                return v
        return v

    def e_IfExp(self, n, env):
        return self.ev(n.body if self.truth(self.ev(n.test, env), n.test) else n.orelse, env)

    def e_Call(self, n, env):
        f = self.ev(n.func, env)
        args = []
        for a in n.args:
            if isinstance(a, ast.Starred):
                v = self.ev(a.value, env)
                if not isinstance(v, tuple):
                    raise Unsupported("star-arg of %r" % (v,))
                args += list(v)
            else:
                args.append(self.ev(a, env))
        kw = {k.arg: self.ev(k.value, env) for k in n.keywords}
        if callable(f):
            return f(*args, **kw)
        raise Unsupported("call of %r" % (f,))

    def e_GeneratorExp(self, n, env):
        if len(n.generators) == 1 and not n.generators[0].ifs:
            it = self.ev(n.generators[0].iter, env)
            if isinstance(it, tuple):
                out = []
                for x in it:
                    e2 = dict(env)
                    self.bind(n.generators[0].target, x, e2)
                    out.append(self.ev(n.elt, e2))
                return tuple(out)
        return self.e_ListComp(n, env)

    def e_ListComp(self, n, env):
        if len(n.generators) != 1 or n.generators[0].ifs:
            raise Unsupported("comprehension shape")
        g = n.generators[0]
        it = self.ev(g.iter, env)
        if not isinstance(it, Seq):
            raise Unsupported("comprehension over %r" % (it,))

        def fn(x, g=g, n=n, env=env):
            e2 = dict(env)
            self.bind(g.target, x, e2)
            return self.ev(n.elt, e2)
        out = []
        for p in it.parts:
            if isinstance(p, Item):
                out.append(Item(fn(p.value)))
            elif isinstance(p, Seg):
                probe = Obj("Elem", of=p.atom.name) if p.atom.elem is None else None
                key = self.fn_key(fn, p)
                out.append(MapSeg(p, fn, key))
            else:
                raise Unsupported("comprehension over part %r" % (p,))
        return Seq(out)

    def fn_key(self, fn, seg):
        """normal form of fn's body on a generic element of the segment's atom"""
        k = Lin.var("κ")
        if seg.atom.elem is not None:
            x = seg.atom.elem(k)
        else:
            x = Lin.var("elem(%s)" % seg.atom.name)
        saved = self.facts
        self.facts = self.facts.extend(k - seg.lo, seg.hi - k - 1)
        try:
            return repr(fn(x))
        except Unlocatable as e:
            raise Unlocatable("in comprehension body: %s" % e)
        except (Unsupported, Undecided) as e:
            raise Unsupported("cannot summarise comprehension body: %s" % e)
        finally:
            self.facts = saved

    # -------------------------------------------------------------- statements
    def bind(self, target, value, env):
        if isinstance(target, ast.Name):
            env[target.id] = value
        elif isinstance(target, (ast.Tuple, ast.List)):
            if isinstance(value, Obj) and value.kind == "Layer":
                value = (value.f["left"], value.f["box"], value.f["right"])
            if not isinstance(value, tuple) or len(value) != len(target.elts):
                raise Unsupported("unpack %r" % (value,))
            for t, v in zip(target.elts, value):
                self.bind(t, v, env)
        else:
            raise Unsupported("assignment target %s" % ast.unparse(target))

    def run(self, body, env):
        """execute straight-line statements; returns ('return', value) / ('raise', exc) / None"""
        for st in body:
            if isinstance(st, ast.Assign):
                v = self.ev(st.value, env)
                for t in st.targets:
                    self.bind(t, v, env)
            elif isinstance(st, ast.Expr):
                if isinstance(st.value, ast.Constant):
                    continue
                self.ev(st.value, env)
            elif isinstance(st, ast.If):
                branch = st.body if self.truth(self.ev(st.test, env), st.test) else st.orelse
                r = self.run(branch, env)
                if r is not None:
                    return r
            elif isinstance(st, ast.Return):
                return ("return", self.ev(st.value, env) if st.value else None)
            elif isinstance(st, ast.Raise):
                return ("raise", ast.unparse(st.exc) if st.exc else "re-raise")
            elif isinstance(st, (ast.ImportFrom, ast.Import, ast.Pass)):
                continue
            else:
                raise Unsupported("statement %s" % type(st).__name__)
        return None


# --------------------------------------------------------------------------- guards as facts
def assume(ev, test, value, env):
    """add to ev.facts what `test == value` tells us (only linear comparisons; anything else is ignored)."""
    if isinstance(test, ast.UnaryOp) and isinstance(test.op, ast.Not):
        return assume(ev, test.operand, not value, env)
    if isinstance(test, ast.BoolOp):
        conj = isinstance(test.op, ast.And)
        if conj == value:                      # (a and b) true  /  (a or b) false : every part has that value
            for v in test.values:
                assume(ev, v, value, env)
        return
    if isinstance(test, ast.Compare):
        vals = [test.left] + list(test.comparators)
        if not value and len(test.ops) > 1:
            return                              # negation of a chain is a disjunction: no fact
        for op, a, b in zip(test.ops, vals, vals[1:]):
            try:
                x, y = ev.ev(a, env), ev.ev(b, env)
                d = Lin.of(x) - Lin.of(y)
            except Exception:
                continue
            t = type(op)
            if not value:
                t = {ast.Lt: ast.GtE, ast.LtE: ast.Gt, ast.Gt: ast.LtE, ast.GtE: ast.Lt, ast.Eq: ast.NotEq, ast.NotEq: ast.Eq}.get(t)
            if t is ast.GtE:
                ev.facts = ev.facts.extend(d)
            elif t is ast.Gt:
                ev.facts = ev.facts.extend(d - 1)
            elif t is ast.LtE:
                ev.facts = ev.facts.extend(-d)
            elif t is ast.Lt:
                ev.facts = ev.facts.extend(-d - 1)
            elif t is ast.Eq:
                ev.facts = ev.facts.with_eq(d, 0)
