"""C08 — tensors form a dagger compact-closed category of matrices (R08.1–R08.5; engines A, B′, F)."""
import ast
from ..lin import Lin, Facts
from ..words import Seq, Seg, Atom, Unlocatable
from ..beval import Evaluator, Obj, Closure, Unsupported, Undecided
from ..layout import block_map, layout_after
from ..cfg import CFG
from ..core import AnalysisError
from .. import shape
from .c01 import neq_guard

EXPLANATION = (
    "Every Tensor operation is typed by the layout of its array: a list of axis blocks labelled by the wires they carry. "
    "Tensor.__init__ reshapes to dom @ cod, so an array handed to Tensor(dom, cod, arr) must have layout [dom | cod]. Decided from "
    "source, for symbolic (possibly empty, multi-wire) types: then contracts exactly |self.cod| axes under the guard self.cod == "
    "other.dom and yields [self.dom | other.cod]; tensor's piecewise index list is evaluated block by block and must be a bijection "
    "sending [d1 c1 d2 c2] to [d1 d2 c1 c2]; dagger sends [d c] to [c d] and conjugates; swap moves the second half of the identity on "
    "left@right to [r' l'] (every wire of left ends right of every wire of right, in order); id is identity(prod(dom)) typed dom->dom; "
    "cups are the identity array of a single wire retyped l@r -> 1 and nested by rigid.cups (C04 R04.5), caps are their daggers. Snake "
    "equations, interchange and naturality of swaps then follow from delta wiring (cited). Floating-point values are not examined.")

TEN = "discopy.tensor"


def ret_expr(body):
    for st in body:
        if isinstance(st, ast.Return):
            return st.value
    return None


def tensor_ctor_args(r):
    if isinstance(r, ast.Call) and ast.unparse(r.func) == "Tensor" and len(r.args) == 3:
        return r.args
    return None


def strip_scalar_fallback(e):
    """`X if a.shape and b.shape else a * b` -> X  (the product handles 0-d arrays, which tensordot refuses)"""
    if isinstance(e, ast.IfExp) and "shape" in ast.unparse(e.test) and isinstance(e.orelse, ast.BinOp) and isinstance(e.orelse.op, ast.Mult):
        return e.body, True
    return e, False


VIEWS = ("moveaxis", "reshape", "transpose", "swapaxes", "ravel", "squeeze", "asarray", "view", "T", "real", "imag")
MUTATING = ("sort", "fill", "put", "itemset", "resize", "partition", "setfield", "setflags", "byteswap")


def check_no_inplace(ctx):
    """R08.6: tensors are values: no method of Tensor writes into the array of an operand, directly, through an alias / view of it, or through `out=`"""
    m = ctx.model
    c = m.cls(TEN + ".Tensor")
    n = 0
    for name, (fn, kind) in sorted(c.methods.items()):
        if not isinstance(fn, ast.FunctionDef) or name == "__init__":
            continue
        n += 1
        params = {a.arg for a in fn.args.args}
        # names that may share memory with an operand's array: X.array, views of them, plain copies of such names
        shared = set()

        def may_share(e):
            if isinstance(e, ast.Attribute) and e.attr in ("array", "_array") and isinstance(e.value, ast.Name) and e.value.id in params:
                return True
            if isinstance(e, ast.Name) and e.id in shared:
                return True
            if isinstance(e, ast.Attribute) and e.attr in VIEWS:
                return may_share(e.value)
            if isinstance(e, ast.Subscript):
                return may_share(e.value)
            if isinstance(e, ast.Call):
                f = e.func
                if isinstance(f, ast.Attribute) and f.attr in VIEWS:
                    return may_share(f.value) or any(may_share(a) for a in e.args[:1])
                return False
            if isinstance(e, ast.IfExp):
                return may_share(e.body) or may_share(e.orelse)
            return False
        for _ in range(3):
            for st in ast.walk(fn):
                if isinstance(st, ast.Assign) and len(st.targets) == 1 and isinstance(st.targets[0], ast.Name) and may_share(st.value):
                    shared.add(st.targets[0].id)
        hits = []
        for x in ast.walk(fn):
            if isinstance(x, ast.Call):
                for k in x.keywords:
                    if k.arg == "out" and may_share(k.value):
                        hits.append("`%s` writes its result into %s" % (ast.unparse(x)[:60], ast.unparse(k.value)))
                if isinstance(x.func, ast.Attribute) and x.func.attr in MUTATING and may_share(x.func.value):
                    hits.append("`%s` changes %s in place" % (ast.unparse(x)[:60], ast.unparse(x.func.value)))
            elif isinstance(x, ast.AugAssign) and (may_share(x.target) or (isinstance(x.target, ast.Subscript) and may_share(x.target.value))):
                hits.append("`%s` updates %s in place" % (ast.unparse(x)[:60], ast.unparse(x.target)))
            elif isinstance(x, ast.Assign):
                for t in x.targets:
                    if isinstance(t, ast.Subscript) and may_share(t.value):
                        hits.append("`%s` writes into %s" % (ast.unparse(x)[:60], ast.unparse(t.value)))
        ctx.ob("R08.6", "%s.Tensor.%s:operands-untouched" % (TEN, name), not hits, found=hits[:2] or "no write into an operand's array (aliases and views followed: %s)" % (sorted(shared) or "none"),
               required="the arrays of self / other are only read: a tensor used again after the operation is the same matrix", mod=TEN, node=fn, sig="inplace", trivial=not shared)
    ctx.need(n >= 15, "fewer than 15 methods of Tensor scanned for in-place updates (%d)" % n)


def check(ctx):
    m = ctx.model
    ctx.rule("R08.6", "tensors are values: no method writes into an operand's array (directly, through a view or alias, or through out=)")
    ctx.attempt(check_no_inplace, ctx)
    ctx.rule("R08.1", "then: refused unless cod == dom; contracts exactly |self.cod| axes; result layout [self.dom | other.cod]")
    ctx.rule("R08.2", "tensor: outer product [d1 c1 d2 c2] re-ordered by a bijection to [d1 d2 c1 c2]")
    ctx.rule("R08.3", "dagger: [d c] -> [c d], conjugated, typed cod -> dom")
    ctx.rule("R08.4", "swap: identity on l@r with the output half re-ordered to [r' l'], typed l@r -> r@l")
    ctx.rule("R08.5", "id / cups / caps / __init__: identity(prod(dom)) : dom -> dom; cup = identity of one wire retyped l@r -> 1; caps = cups†; reshape(dom @ cod)")
    A, B, C, D = (Atom(x) for x in ["self.dom", "self.cod", "other.dom", "other.cod"])
    a, b, c, d = (x.length for x in (A, B, C, D))
    me = Obj("Tensor", dom=Seq.atom(A), cod=Seq.atom(B), isa=("Tensor",))
    other = Obj("Tensor", dom=Seq.atom(C), cod=Seq.atom(D), isa=("Tensor",))

    # ---------------------------------------------------------------- __init__
    q = TEN + ".Tensor.__init__"
    fn = m.func(q)
    ctx.analysed(q)
    asg = next((s for s in fn.body if isinstance(s, ast.Assign) and ast.unparse(s.targets[0]) == "self._array"), None)
    shape.match(ctx, "R08.5", q + ":layout", asg.value if asg else None, "Tensor.np.array(array).reshape(dom @ cod or (1,))", {}, mod=TEN, node=fn, sig="init-layout",
                required="the stored array has one axis per wire of dom @ cod, in that order")
    sup = next((c_ for c_ in ast.walk(fn) if isinstance(c_, ast.Call) and ast.unparse(c_.func) == "super().__init__"), None)
    ctx.ob("R08.5", q + ":types", sup is not None and [ast.unparse(x) for x in sup.args[1:3]] == ["dom", "cod"], found=ast.unparse(sup) if sup else None,
           required="the box is typed dom -> cod", mod=TEN, node=fn, sig="init-types")

    # ---------------------------------------------------------------- then
    q = TEN + ".Tensor.then"
    fn = m.func(q)
    ctx.analysed(q)
    self_ = fn.args.args[0].arg
    r = ret_expr(fn.body[-1:])
    args = tensor_ctor_args(r)
    ctx.need(args is not None, "Tensor.then does not end with Tensor(dom, cod, array)")
    oth = ast.unparse(args[1])[:-4] if ast.unparse(args[1]).endswith(".cod") else None
    ctx.ob("R08.1", q + ":types", ast.unparse(args[0]) == self_ + ".dom" and oth is not None, found=[ast.unparse(x) for x in args[:2]], required="self.dom -> other.cod",
           mod=TEN, node=r, sig="then-types")
    g = CFG(fn)
    guards = g.raising_guards_before(r)
    okg = oth is not None and any(lab == "T" and "AxiomError" in how and neq_guard(st.test, self_ + ".cod", oth + ".dom") for st, lab, how in guards)
    ctx.ob("R08.1", q + ":guard", okg, found=[(ast.unparse(st.test), how) for st, lab, how in guards], required="raise AxiomError unless self.cod == other.dom", mod=TEN,
           node=fn, sig="then-guard")
    arr = shape.inline(args[2], fn.body)
    arr, fb = strip_scalar_fallback(arr)
    ok, found = False, ast.unparse(arr)
    if isinstance(arr, ast.Call) and ast.unparse(arr.func).endswith("tensordot") and len(arr.args) == 3 and oth:
        x, y, n = (ast.unparse(t) for t in arr.args)
        operands = (x, y) == (self_ + ".array", oth + ".array")
        count = n in ("len(%s.cod)" % self_, "len(%s.dom)" % oth)
        ok = operands and count
        if not operands:
            found = "contracts %s with %s" % (x, y)
        elif not count:
            found = "contracts %s axes" % n
    ctx.ob("R08.1", q + ":contraction", ok, found=found, required="tensordot(self.array, other.array, len(self.cod)): last |cod| axes of [dom|cod] with the first |dom| axes of [dom|cod]",
           mod=TEN, node=r, sig="then-contraction")

    # ---------------------------------------------------------------- tensor
    q = TEN + ".Tensor.tensor"
    fn = m.func(q)
    ctx.analysed(q)
    self_ = fn.args.args[0].arg
    r = ret_expr(fn.body[-1:])
    args = tensor_ctor_args(r)
    ctx.need(args is not None, "Tensor.tensor does not end with Tensor(dom, cod, array)")
    oth = next((ast.unparse(s.targets[0]) for s in fn.body if isinstance(s, ast.Assign) and ast.unparse(s.value) in ("others[0]",)), None) or "other"
    dm = shape.inline(ast.Tuple(elts=list(args[:2]), ctx=ast.Load()), fn.body, keep=(oth,))
    shape.match(ctx, "R08.2", q + ":types", dm, "(self.dom @ other.dom, self.cod @ other.cod)", {self_: "self", oth: "other"}, mod=TEN, node=r, sig="tensor-types")
    mv = args[2]
    ctx.need(isinstance(mv, ast.Call) and ast.unparse(mv.func).endswith("moveaxis") and len(mv.args) == 3, "Tensor.tensor does not re-order axes with moveaxis")
    src_arr = shape.inline(mv.args[0], fn.body, keep=(oth,))
    src_arr, fb = strip_scalar_fallback(src_arr)
    okp = isinstance(src_arr, ast.Call) and ast.unparse(src_arr.func).endswith("tensordot") and \
        [ast.unparse(t) for t in src_arr.args] == [self_ + ".array", oth + ".array", "0"]
    ctx.ob("R08.2", q + ":outer-product", okp, found=ast.unparse(src_arr), required="tensordot(self.array, other.array, 0): layout [d1 c1 d2 c2]", mod=TEN, node=r, sig="outer-product")
    comp = shape.inline(mv.args[2], fn.body, keep=(oth, 'source', 'dom', 'cod'))
    srcrange = shape.inline(mv.args[1], fn.body, keep=(oth, 'dom', 'cod'))
    inverted = False
    if not isinstance(comp, ast.ListComp) and isinstance(srcrange, ast.ListComp):
        comp, srcrange, inverted = srcrange, comp, True       # moveaxis(a, <piecewise list>, range): the inverse permutation
    ev = Evaluator(Facts(), q)
    env = {self_: me, oth: other}
    probs = []
    try:
        ctx.need(isinstance(comp, ast.ListComp), "target of moveaxis in Tensor.tensor is not a comprehension")
        # the comprehension iterates `source`: bind it
        for st in fn.body:
            tn = {x.id for x in ast.walk(st.targets[0]) if isinstance(x, ast.Name)} if isinstance(st, ast.Assign) else set()
            if tn and tn <= {"dom", "cod", "source"} and st.lineno < r.lineno:
                try:
                    ev.run([st], env)
                except (Unsupported, Undecided):
                    pass
        rng = ev.ev(srcrange, env)
        seg = rng.parts[0] if isinstance(rng, Seq) and rng.parts else None
        if seg is None or not (ev.facts.eq(seg.atom.elem(Lin.of(0)), 0) and ev.facts.eq(seg.atom.length, a + b + c + d)):
            probs.append(("source", rng, "all axes range(|d1|+|c1|+|d2|+|c2|)"))
        old_blocks = [("d1", Lin.of(0), a), ("c1", a, b), ("d2", a + b, c), ("c2", a + b + c, d)]
        if not inverted:
            moved = block_map(ev, comp, env, old_blocks)
            order = layout_after(moved, ev.facts)
        else:
            # the list gives, for each NEW position, the OLD axis placed there: evaluate it on the blocks of the required layout
            new_blocks = [("d1", Lin.of(0), a), ("d2", a, c), ("c1", a + c, b), ("c2", a + c + b, d)]
            img = block_map(ev, comp, env, new_blocks)
            order = []
            for (lab, st, w) in img:
                hit = [ol for (ol, os_, ow) in old_blocks if ev.facts.eq(os_, st) and ev.facts.eq(ow, w)]
                if ev.facts.zero(w):
                    order.append(lab)
                    continue
                if not hit:
                    raise Unlocatable("new block %s is filled from old axes starting at %r, which is not the start of a block of that width" % (lab, st))
                order.append(hit[0] if hit[0] == lab else "%s<-%s" % (lab, hit[0]))
        if order != ["d1", "d2", "c1", "c2"]:
            probs.append(("order", order, ["d1", "d2", "c1", "c2"]))
    except Unlocatable as e:
        probs.append(("bijection", str(e), "each block translated rigidly, blocks tile"))
    except (Unsupported, Undecided) as e:
        raise AnalysisError("Tensor.tensor outside the recognised idioms: %s" % e)
    if probs:
        for what, found, req in probs:
            ctx.ob("R08.2", q + ":" + what, False, found=found, required=req, mod=TEN, node=r, sig="tensor-" + what)
    else:
        ctx.ob("R08.2", q + ":reorder", True, found="[d1 c1 d2 c2] -> [d1 d2 c1 c2]", required="bijection of axis blocks", mod=TEN, node=r)

    # ---------------------------------------------------------------- dagger
    q = TEN + ".Tensor.dagger"
    fn = m.func(q)
    ctx.analysed(q)
    self_ = fn.args.args[0].arg
    for extra in [x for x in ast.walk(fn) if isinstance(x, ast.Return) and x is not fn.body[-1]]:
        ea = tensor_ctor_args(extra.value)
        ctx.need(ea is not None, "Tensor.dagger has an early return that does not construct a Tensor: %s" % ast.unparse(extra)[:60])
        earr = shape.inline(ea[2], fn.body)
        econj = isinstance(earr, ast.Call) and ast.unparse(earr.func).endswith("conjugate")
        ctx.ob("R08.3", q + ":early-return", econj and [ast.unparse(x) for x in ea[:2]] == [self_ + ".cod", self_ + ".dom"], found=ast.unparse(extra.value)[:100],
               required="every path of dagger swaps the types and conjugates the array", mod=TEN, node=extra, sig="dagger-early-return")
    r = ret_expr(fn.body[-1:])
    via_method = isinstance(r, ast.Call) and isinstance(r.func, ast.Attribute) and r.func.attr == "conjugate" and not r.args and tensor_ctor_args(r.func.value) is not None
    args = tensor_ctor_args(r.func.value if via_method else r)
    ctx.need(args is not None, "Tensor.dagger does not end with Tensor(dom, cod, array)")
    ctx.ob("R08.3", q + ":types", [ast.unparse(x) for x in args[:2]] == [self_ + ".cod", self_ + ".dom"], found=[ast.unparse(x) for x in args[:2]], required="cod -> dom",
           mod=TEN, node=r, sig="dagger-types")
    arr = shape.inline(args[2], fn.body)
    conj = via_method or (isinstance(arr, ast.Call) and ast.unparse(arr.func).endswith("conjugate"))
    inner = arr if via_method else (arr.args[0] if conj and arr.args else arr)
    # Tensor.conjugate itself conjugates on every path (dagger, CQMap.pure and user code rely on it)
    cj = m.func(TEN + ".Tensor.conjugate")
    cself = cj.args.args[0].arg
    rets = [x for x in ast.walk(cj) if isinstance(x, ast.Return)]
    badc = [ast.unparse(x)[:70] for x in rets if not (tensor_ctor_args(x.value) is not None and [ast.unparse(a) for a in tensor_ctor_args(x.value)[:2]] == [cself + ".dom", cself + ".cod"]
                                                       and ast.unparse(tensor_ctor_args(x.value)[2]) in ("Tensor.np.conjugate(%s.array)" % cself, "%s.array.conjugate()" % cself, "%s.array.conj()" % cself))]
    ctx.ob("R08.3", TEN + ".Tensor.conjugate", bool(rets) and not badc, found=badc or "every path returns the entry-wise conjugate with the same types", required="Tensor(self.dom, self.cod, conjugate(self.array)) on every path "
           "(no dtype-dependent shortcut: complex64, object arrays of complex numbers, … are not `complex`)", mod=TEN, node=cj, sig="conjugate")
    ctx.ob("R08.3", q + ":conjugate", conj, found=ast.unparse(arr)[:80], required="the array handed to Tensor passes through conjugate", mod=TEN, node=r, sig="dagger-conjugate")
    inner = shape.inline(inner, fn.body)
    probs = []
    try:
        if isinstance(inner, ast.Call) and ast.unparse(inner.func).endswith("transpose") and not inner.args[1:] and not inner.keywords:
            # full axis reversal: [d c] -> [rev(c) rev(d)]: the wires inside dom and inside cod are reversed as well
            raise Unlocatable("numpy transpose reverses all axes: layout [rev(cod) | rev(dom)], equal to [cod | dom] only for one-wire types")
        ctx.need(isinstance(inner, ast.Call) and ast.unparse(inner.func).endswith("moveaxis") and len(inner.args) == 3, "Tensor.dagger does not use moveaxis")
        ev = Evaluator(Facts(), q)
        env = {self_: me}
        if ast.unparse(inner.args[0]) != self_ + ".array":
            probs.append(("operand", ast.unparse(inner.args[0]), "self.array"))
        src_e, tgt_e, inverted = inner.args[1], inner.args[2], False
        if isinstance(src_e, ast.ListComp) and not isinstance(tgt_e, ast.ListComp):
            src_e, tgt_e, inverted = tgt_e, src_e, True          # moveaxis(a, <piecewise list>, range): the inverse permutation
        rng = ev.ev(src_e, env)
        seg = rng.parts[0] if isinstance(rng, Seq) and rng.parts else None
        if seg is None or not (ev.facts.eq(seg.atom.elem(Lin.of(0)), 0) and ev.facts.eq(seg.atom.length, a + b)):
            probs.append(("source", rng, "all axes"))
        old_blocks = [("d", Lin.of(0), a), ("c", a, b)]
        if not inverted:
            moved = block_map(ev, tgt_e, env, old_blocks)
            order = layout_after(moved, ev.facts)
        else:
            # the list gives, for each NEW position, the OLD axis placed there: evaluate it on the blocks of the required layout [c d]
            img = block_map(ev, tgt_e, env, [("c", Lin.of(0), b), ("d", b, a)])
            order = []
            for (lab, st, w) in img:
                hit = [ol for (ol, os_, ow) in old_blocks if ev.facts.eq(os_, st) and ev.facts.eq(ow, w)]
                if ev.facts.zero(w):
                    order.append(lab)
                elif not hit:
                    raise Unlocatable("the positions of the new block %s are filled from old axes starting at %r, which is not the start of a block of that width "
                                      "(the index list is read as sources: the inverse rotation)" % (lab, st))
                else:
                    order.append(hit[0] if hit[0] == lab else "%s<-%s" % (lab, hit[0]))
        if order != ["c", "d"]:
            probs.append(("order", order, ["c", "d"]))
    except Unlocatable as e:
        probs.append(("bijection", str(e), "each block translated rigidly, blocks tile"))
    except (Unsupported, Undecided) as e:
        raise AnalysisError("Tensor.dagger outside the recognised idioms: %s" % e)
    if probs:
        for what, found, req in probs:
            ctx.ob("R08.3", q + ":" + what, False, found=found, required=req, mod=TEN, node=r, sig="dagger-" + what)
    else:
        ctx.ob("R08.3", q + ":reorder", True, found="[d c] -> [c d]", required="transpose of the two blocks", mod=TEN, node=r)

    # ---------------------------------------------------------------- swap
    q = TEN + ".Tensor.swap"
    fn = m.func(q)
    ctx.analysed(q)
    l_, r_ = fn.args.args[0].arg, fn.args.args[1].arg
    r = ret_expr(fn.body[-1:])
    args = tensor_ctor_args(r)
    ctx.need(args is not None, "Tensor.swap does not end with Tensor(dom, cod, array)")
    shape.match(ctx, "R08.4", q + ":types", ast.Tuple(elts=list(args[:2]), ctx=ast.Load()), "(left @ right, right @ left)", {l_: "left", r_: "right"}, body=fn.body,
                mod=TEN, node=r, sig="swap-types")
    mv = shape.inline(args[2], [s for s in fn.body if not (isinstance(s, ast.Assign) and ast.unparse(s.targets[0]) in ("source", "target"))])
    Lt, Rt = Atom("left"), Atom("right")
    l, rr = Lt.length, Rt.length
    probs = []
    try:
        ctx.need(isinstance(mv, ast.Call) and ast.unparse(mv.func).endswith("moveaxis") and len(mv.args) == 3, "Tensor.swap does not use moveaxis")
        base = shape.inline(mv.args[0], fn.body)
        shape.match(ctx, "R08.4", q + ":identity", base, "Tensor.id(left @ right).array", {l_: "left", r_: "right"}, mod=TEN, node=r, sig="swap-identity",
                    required="starts from the identity on left @ right: layout [l r | l' r']")
        ev = Evaluator(Facts(), q)
        env = {l_: Seq.atom(Lt), r_: Seq.atom(Rt)}
        src = shape.inline(mv.args[1], fn.body)
        tgt = shape.inline(mv.args[2], fn.body)
        rng = ev.ev(src, env)
        seg = rng.parts[0] if isinstance(rng, Seq) and rng.parts else None
        if seg is None or not (ev.facts.eq(seg.atom.elem(Lin.of(0)), l + rr) and ev.facts.eq(seg.atom.length, l + rr)):
            probs.append(("source", rng, "the output half [|l|+|r|, 2(|l|+|r|))"))
        ctx.need(isinstance(tgt, ast.ListComp), "target of moveaxis in Tensor.swap is not a comprehension")
        moved = block_map(ev, tgt, env, [("l'", l + rr, l), ("r'", l + rr + l, rr)])
        order = layout_after([("l", Lin.of(0), l), ("r", l, rr)] + moved, ev.facts)
        if order != ["l", "r", "r'", "l'"]:
            probs.append(("order", order, ["l", "r", "r'", "l'"]))
    except Unlocatable as e:
        probs.append(("bijection", str(e), "each block translated rigidly, blocks tile"))
    except (Unsupported, Undecided) as e:
        raise AnalysisError("Tensor.swap outside the recognised idioms: %s" % e)
    if probs:
        for what, found, req in probs:
            ctx.ob("R08.4", q + ":" + what, False, found=found, required=req, mod=TEN, node=r, sig="swap-" + what)
    else:
        ctx.ob("R08.4", q + ":reorder", True, found="[l r l' r'] -> [l r r' l']", required="every wire of left ends right of every wire of right, in order", mod=TEN, node=r)

    # ---------------------------------------------------------------- id / cups / caps / Dim adjoints
    q = TEN + ".Tensor.id"
    fn = m.func(q)
    ctx.analysed(q, TEN + ".Tensor.cups", TEN + ".Tensor.caps")
    dparam = fn.args.args[0].arg
    shape.match(ctx, "R08.5", q, ret_expr(fn.body), ["Tensor(dom, dom, Tensor.np.identity(int(prod(dom))))", "Tensor(dom, dom, Tensor.np.identity(int(numpy.prod(dom))))"],
                {dparam: "dom"}, mod=TEN, node=fn, sig="id", required="the identity matrix of size prod(dom), typed dom -> dom (layout [dom | dom'])")
    fn = m.func(TEN + ".Tensor.cups")
    a_ = [x.arg for x in fn.args.args]
    shape.match(ctx, "R08.5", TEN + ".Tensor.cups", ret_expr(fn.body),
                "rigid.cups(left, right, ar_factory=Tensor, cup_factory=lambda left, right: Tensor(left @ right, Dim(1), Tensor.id(left).array))",
                {a_[0]: "left", a_[1]: "right"}, mod=TEN, node=fn, sig="cups", required="one-wire cup = the delta of `left` typed left @ right -> 1, nested by rigid.cups")
    fn = m.func(TEN + ".Tensor.caps")
    a_ = [x.arg for x in fn.args.args]
    shape.match(ctx, "R08.5", TEN + ".Tensor.caps", ret_expr(fn.body), "Tensor.cups(left, right).dagger()", {a_[0]: "left", a_[1]: "right"}, mod=TEN, node=fn, sig="caps")
    for d_ in ("l", "r"):
        fn = m.func(TEN + ".Dim." + d_)
        ctx.analysed(TEN + ".Dim." + d_)
        shape.match(ctx, "R08.5", TEN + ".Dim." + d_, ret_expr(fn.body), ["Dim(*self[::-1])", "Dim(*reversed(self))"], {}, mod=TEN, node=fn, sig="dim-" + d_,
                    required="adjoint of a dimension = the reversed dimension (self-dual wires)")
    from .c01 import check_then_guards
    check_then_guards(ctx, rule="R08.1", only=("discopy.tensor.Tensor.then",))
    ctx.floor("R08.1", 3)
    ctx.floor("R08.2", 3)
    ctx.floor("R08.3", 3)
    ctx.floor("R08.4", 3)
    ctx.floor("R08.5", 7)
    ctx.not_decided += ["floating-point values", "snake equations / interchange / naturality as numeric identities (they follow from delta wiring; cited)"]
