"""Prototype of rules R05.1-R05.3 on rewriting.interchange using engine B."""
import ast, sys
from .lin import Lin, Facts
from .words import Seq, Seg, Item, Atom, Unlocatable
from .beval import Evaluator, Obj, Box, Layer, Arrow, Diagram, Closure, Unsupported, Undecided, layer_dom, layer_cod


def W(*atoms):
    return Seq([Seg(a) for a in atoms])


def generic_instance(case):
    """generic well-typed diagram with two distinguished adjacent layers i, i+1 in configuration `case`."""
    A = {n: Atom(n) for n in "P M B dom0 cod0 dom1 cod1 Row0 RowN".split()}
    P, M, B, d0, c0, d1, c1 = (A[k] for k in "P M B dom0 cod0 dom1 cod1".split())
    box0, box1 = Box("box0", W(d0), W(c0)), Box("box1", W(d1), W(c1))
    if case == "R":   # box0 (upper) to the right of box1 (lower)
        l0, r0, l1, r1 = W(P, d1, M), W(B), W(P), W(M, c0, B)
        exp1, exp0 = Layer(W(P), box1, W(M, d0, B)), Layer(W(P, c1, M), box0, W(B))
    else:             # box0 (upper) to the left of box1 (lower)
        l0, r0, l1, r1 = W(P), W(M, d1, B), W(P, c0, M), W(B)
        exp1, exp0 = Layer(W(P, d0, M), box1, W(B)), Layer(W(P), box0, W(M, c1, B))
    lay0, lay1 = Layer(l0, box0, r0), Layer(l1, box1, r1)
    assert layer_cod(lay0) == layer_dom(lay1)
    i, n = Lin.var("i"), Lin.var("n")
    facts = Facts([n - i - 2])            # 0 <= i, i + 1 < n
    top, mid, bot = layer_dom(lay0), layer_cod(lay0), layer_cod(lay1)

    def at(k, table, what):
        for key, val in table:
            if facts.eq(k, key):
                return val
        raise Unsupported("%s[%r] is not part of the generic instance" % (what, k))
    rows = lambda k: at(k, [(i, top), (i + 1, mid), (i + 2, bot), (Lin.of(0), Seq.atom(A["Row0"])), (n, Seq.atom(A["RowN"]))], "row")
    LAY = Atom("layers", n, elem=lambda k: at(k, [(i, lay0), (i + 1, lay1)], "layers"))
    BOX = Atom("boxes", n, elem=lambda k: at(k, [(i, box0), (i + 1, box1)], "boxes"))
    OFF = Atom("offsets", n, elem=lambda k: at(k, [(i, l0.length), (i + 1, l1.length)], "offsets"))
    d = Diagram(Seq.atom(A["Row0"]), Seq.atom(A["RowN"]), Seq.atom(BOX), Seq.atom(OFF),
                Arrow(Seq.atom(A["Row0"]), Seq.atom(A["RowN"]), Seq.atom(LAY), rows=rows))
    expected = dict(layer1=exp1, layer0=exp0, i=i, n=n, rows=rows, LAY=LAY, BOX=BOX, OFF=OFF, box0=box0, box1=box1)
    return d, facts, expected


def find_chain(fn):
    for node in ast.walk(fn):
        if isinstance(node, ast.If):
            chain, cur = [], node
            while True:
                chain.append((cur.test, cur.body))
                if len(cur.orelse) == 1 and isinstance(cur.orelse[0], ast.If):
                    cur = cur.orelse[0]
                else:
                    break
            if cur.orelse and isinstance(cur.orelse[0], ast.Raise) and "InterchangerError" in ast.unparse(cur.orelse[0]):
                return node, chain
    return None, None


def split_flag(test, flag):
    """test is `flag and C` or `C`; return (needs_flag, C)"""
    if isinstance(test, ast.BoolOp) and isinstance(test.op, ast.And) and len(test.values) == 2 \
            and isinstance(test.values[0], ast.Name) and test.values[0].id == flag:
        return True, test.values[1]
    return False, test


def same_layer(a, b):
    return a.f["left"] == b.f["left"] and a.f["right"] == b.f["right"] and a.f["box"] is b.f["box"]


def check(path="/repo/discopy/rewriting.py", out=print):
    mod = ast.parse(open(path).read())
    fn = next(n for n in mod.body if isinstance(n, ast.FunctionDef) and n.name == "interchange")
    params = [a.arg for a in fn.args.args]
    self_, i_, j_, flag = params[:4]
    if_node, chain = find_chain(fn)
    if chain is None:
        out("ANALYSIS-ERROR: no predicate chain ending in `raise InterchangerError` in interchange"); return 2
    idx = fn.body.index(if_node)
    prologue, epilogue = fn.body[:idx], fn.body[idx + 1:]
    failures, spec_preds = [], {}
    # spec predicates on each generic instance, by construction valid
    for bno, (test, body) in enumerate(chain):
        needs_flag, cond = split_flag(test, flag)
        chosen = []
        for case in "RL":
            d, facts, exp = generic_instance(case)
            ev = Evaluator(facts, "interchange")
            ev.classes.update(Layer=Closure(Layer), Diagram=Closure(lambda dom, cod, boxes, offsets, layers=None: Diagram(dom, cod, boxes, offsets, layers)))
            env = {self_: d, i_: exp["i"], j_: exp["i"] + 1, flag: needs_flag}
            r = ev.run(prologue, env)
            assert r is None, r
            try:
                if ev.truth(ev.ev(cond, env), cond):
                    chosen.append((case, ev, env, exp))
            except Undecided:
                pass
        if len(chosen) != 1:
            failures.append("R05.1 line %d: branch test `%s` is valid on %d generic configurations (need exactly 1)" % (test.lineno, ast.unparse(cond), len(chosen)))
            continue
        case, ev, env, exp = chosen[0]
        spec_preds.setdefault(case, []).append((bno, needs_flag))
        try:
            r = ev.run(body, env)
            assert r is None
            r = ev.run(epilogue, env)
        except (Unlocatable, Unsupported, Undecided) as e:
            failures.append("R05.2 line %d (%s-exchange): %s: %s" % (test.lineno, case, type(e).__name__, e)); continue
        kind, res = r
        i = exp["i"]
        want_boxes = Seq.atom(exp["BOX"]).slice(None, i, ev.facts) + Seq([Item(exp["box1"]), Item(exp["box0"])]) + Seq.atom(exp["BOX"]).slice(i + 2, None, ev.facts)
        want_lay = lambda l1, l0: Seq.atom(exp["LAY"]).slice(None, i, ev.facts) + Seq([Item(l1), Item(l0)]) + Seq.atom(exp["LAY"]).slice(i + 2, None, ev.facts)
        lays = res.f["layers"].f["boxes"]
        got1, got0 = lays.item(i, ev.facts), lays.item(i + 1, ev.facts)
        probs = []
        if not same_layer(got1, exp["layer1"]): probs.append("layer at i is %r, spec %r" % (got1, exp["layer1"]))
        if not same_layer(got0, exp["layer0"]): probs.append("layer at i+1 is %r, spec %r" % (got0, exp["layer0"]))
        if res.f["boxes"] != want_boxes: probs.append("boxes %r, spec %r" % (res.f["boxes"], want_boxes))
        offs = res.f["offsets"]
        o1, o0 = offs.item(i, ev.facts), offs.item(i + 1, ev.facts)
        if not ev.facts.eq(o1, got1.f["left"].length): probs.append("offset[i]=%r but |left|=%r" % (o1, got1.f["left"].length))
        if not ev.facts.eq(o0, got0.f["left"].length): probs.append("offset[i+1]=%r but |left|=%r" % (o0, got0.f["left"].length))
        if res.f["dom"] != d_dom(exp) or res.f["cod"] != d_cod(exp): probs.append("dom/cod changed")
        probs += ["composition side condition fails: %r" % o for o in ev.obligations if not o.ok]
        n_ob = len(ev.obligations)
        if probs:
            failures += ["R05.2 line %d (%s-exchange): %s" % (test.lineno, case, p) for p in probs]
        else:
            out("  R05.2 ok: branch line %d = %s-exchange%s; layers %r , %r ; %d composition side conditions proved" % (
                test.lineno, case, " (only with %s)" % flag if needs_flag else "", got1, got0, n_ob))
    # R05.1 coverage: both configurations handled without the flag, flag-branch first
    for case in "RL":
        if not any(not nf for _, nf in spec_preds.get(case, [])):
            failures.append("R05.1: no unconditional branch handles the %s configuration (would raise InterchangerError on disconnected boxes)" % case)
    if chain and not split_flag(chain[0][0], flag)[0]:
        failures.append("R05.1: the `%s` preference is not tested first" % flag)
    for f in failures:
        out("VIOLATION-CANDIDATE " + f)
    return 1 if failures else 0


def d_dom(exp):
    return exp["rows"](Lin.of(0))


def d_cod(exp):
    return exp["rows"](exp["n"])


if __name__ == "__main__":
    sys.exit(check(*(sys.argv[1:2])))
