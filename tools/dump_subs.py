import sys
from sa.model import Model
from sa.objsim import explore, Inst, RaisesError, Unsupported, Sym, Lam
from sa.generic import instances, same_value, KEY
m=Model("/repo/discopy")
scope=[a for a in sys.argv[1:] if a!='-v'] or None
for c in m.concrete_boxes():
    if scope and not any(c.q.startswith(s) for s in scope): continue
    if c.mod in ("discopy.quantum.cqmap",): continue
    for meth in ("subs","lambdify"):
        n=0; seen=set()
        try:
            for label, build in instances(m,c):
                def run(sim):
                    x=build(sim)
                    f=sim.getattr(x,meth,None,c.mod)
                    if meth=="subs":
                        y=sim.apply(f,[Sym("var"),Sym("expr")],{},None,c.mod,x)
                    else:
                        g=sim.apply(f,[Sym("var")],{},None,c.mod,x)
                        y=sim.apply(g,[Sym("val")],{},None,c.mod,x) if isinstance(g,Lam) else g
                    return x,y
                try: res=explore(m,run)
                except Unsupported as e:
                    print(c.q,meth,label,"UNSUPPORTED",e); continue
                for oracle,r,sim in res:
                    n+=1
                    if isinstance(r,RaisesError):
                        try:
                            from sa.objsim import Sim
                            build(Sim(m,oracle)); msg="RAISES "+r.what[:110]
                        except Exception: continue
                    else:
                        x,y=r
                        if y is x: msg="same object"
                        elif not isinstance(y,Inst): msg="returns %r"%(y,)
                        else:
                            bad=[a for a in KEY if (a in x.attrs or a in y.attrs) and a!="_data" and not same_value(sim,x.attrs.get(a),y.attrs.get(a))]
                            msg=("OK data=%r"%(y.attrs.get('_data'),))[:150] if not bad and y.cls is x.cls else "CHANGED cls=%s %s"%(y.cls.name, [(a,x.attrs.get(a),y.attrs.get(a)) for a in bad])
                    key=(label.split(',')[0] if False else '', msg)
                    if msg not in seen:
                        seen.add(msg); print("  ",c.q,meth,"[%s]"%label,msg[:230])
        except Unsupported as e:
            print(c.q,meth,"UNSUPPORTED",e)
