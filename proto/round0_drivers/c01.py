"""Prototype R01.1 / R02.1: representation invariant RI1-RI4 and functional summaries of then / tensor / [i:j]."""
import ast, sys
from .lin import Lin, Facts
from .words import Seq, Seg, Item, Rep, MapSeg, Atom, Unlocatable
from .beval import Evaluator, Obj, Box, Layer, Arrow, Diagram, Closure, Unsupported, Undecided, layer_dom, layer_cod
from .c10 import find_method


class Gen:
    """generic well-typed diagram `name` with n boxes; element k is Layer(l[k], box[k], r[k])."""
    def __init__(self, name, dom=None):
        self.name = name
        self.n = Lin.var("n_" + name)
        self.memo = {}
        self.DOM = dom if dom is not None else Seq.atom(Atom("dom_" + name))
        self.COD = Seq.atom(Atom("cod_" + name))
        self.LAY = Atom("layers_" + name, self.n, elem=self.layer)
        self.BOX = Atom("boxes_" + name, self.n, elem=lambda k: self.layer(k).f["box"])
        self.OFF = Atom("offsets_" + name, self.n, elem=lambda k: self.layer(k).f["left"].length)
        self.value = Diagram(self.DOM, self.COD, Seq.atom(self.BOX), Seq.atom(self.OFF),
                             Arrow(self.DOM, self.COD, Seq.atom(self.LAY), rows=self.row))
        self.value.f["isa"] = ("Diagram", "Arrow")

    def layer(self, k):
        key = repr(Lin.of(k))
        if key not in self.memo:
            t = "%s[%s]" % (self.name, key)
            b = Box("box_" + t, Seq.atom(Atom("d_" + t)), Seq.atom(Atom("c_" + t)))
            self.memo[key] = Layer(Seq.atom(Atom("l_" + t)), b, Seq.atom(Atom("r_" + t)))
        return self.memo[key]

    def row(self, k):
        k = Lin.of(k)
        if k == 0:
            return self.DOM
        if k == self.n:
            return self.COD
        return layer_dom(self.layer(k))


class Ev01(Evaluator):
    """adds: slice objects, the T2 loop idiom, constructor capture."""
    def __init__(self, facts, where):
        super().__init__(facts, where)
        self.classes.update({
            "Layer": Closure(Layer),
            "cat.Id": Closure(lambda t: Arrow(t, t, Seq())),
            "Diagram": Closure(self.mk_diagram),
        })
        self.loops = []

    def mk_diagram(self, dom, cod, boxes, offsets, layers=None):
        return Diagram(dom, cod, boxes, offsets, layers)

    def run(self, body, env):
        out = []
        for st in body:
            if isinstance(st, ast.For):
                self.loop_T2(st, env)
            else:
                r = super().run([st], env)
                if r is not None:
                    return r
        return None

    def loop_T2(self, st, env):
        """for l, b, r in <xs.layers>: acc = acc >> Layer(X @ l, b, r @ Y)"""
        it = self.ev(st.iter, env)
        if not (isinstance(it, Obj) and it.kind == "Arrow" and it.f.get("rows")):
            raise Unsupported("loop over %s is not a loop over the layers of a diagram" % ast.unparse(st.iter))
        if len(st.body) != 1 or not isinstance(st.body[0], ast.Assign) or not isinstance(st.body[0].value, ast.BinOp) \
                or not isinstance(st.body[0].value.op, ast.RShift) or not isinstance(st.body[0].value.left, ast.Name) \
                or ast.unparse(st.body[0].targets[0]) != st.body[0].value.left.id:
            raise Unsupported("loop body is not `acc = acc >> <layer>`")
        acc_name = st.body[0].value.left.id
        acc = env[acc_name]
        seg = it.f["boxes"].parts[0] if len(it.f["boxes"].parts) == 1 else None
        if not isinstance(seg, Seg) or not seg.is_full():
            raise Unsupported("loop over a partial layer list")
        k = Lin.var("κ")
        saved = self.facts
        self.facts = self.facts.extend(k, seg.atom.length - k - 1)

        def fn(elem):
            e2 = dict(env)
            self.bind(st.target, elem, e2)
            return self.ev(st.body[0].value.right, e2)
        try:
            elem = seg.atom.elem(k)
            new = fn(elem)
            l, r = elem.f["left"], elem.f["right"]
            nl, nr = new.f["left"], new.f["right"]
            if new.f["box"] is not elem.f["box"]:
                raise Unlocatable("the mapped layer holds another box")
            if nl.parts[len(nl.parts) - len(l.parts):] != l.parts or nr.parts[:len(r.parts)] != r.parts:
                raise Unlocatable("mapped layer %r does not extend the element's wires %r | %r" % (new, l, r))
            X, Y = Seq(nl.parts[:len(nl.parts) - len(l.parts)]), Seq(nr.parts[len(r.parts):])
            elem_atoms = {id(p.atom) for w in (l, r, elem.f["box"].f["dom"], elem.f["box"].f["cod"]) for p in w.parts}
            if any(id(p.atom) in elem_atoms for w in (X, Y) for p in w.parts):
                raise Unlocatable("the context of the mapped layer depends on the element")
        finally:
            self.facts = saved
        rows = it.f["rows"]
        self.oblige("compose(junction)", acc.f["cod"], X + rows(Lin.of(0)) + Y, st)
        env[acc_name] = Arrow(acc.f["dom"], X + rows(seg.atom.length) + Y,
                              acc.f["boxes"] + Seq([MapSeg(seg, fn, "ctx(%r | %r)" % (X, Y))]))
        self.loops.append((st.lineno, X, Y))


def elems_at(part, k, facts):
    """the element of a sequence part at (generic) absolute index k of the underlying atom"""
    if isinstance(part, Item):
        return part.value
    if isinstance(part, Seg):
        return part.atom.elem(k)
    if isinstance(part, MapSeg):
        return part.fn(part.seg.atom.elem(k))
    raise Unsupported("part %r" % (part,))


def check_RI(res, ev, fails, tag):
    lay, boxes, offs = res.f["layers"], res.f["boxes"], res.f["offsets"]
    F = ev.facts
    if lay is None:
        fails.append("%s: built without layers (goes through the scan; nothing to check)" % tag); return
    if not (F.eq(lay.f["boxes"].length, boxes.length) and F.eq(boxes.length, offs.length)):
        fails.append("%s RI1: %r layers, %r boxes, %r offsets" % (tag, lay.f["boxes"].length, boxes.length, offs.length))
    if not lay.f["dom"].same(res.f["dom"], F):
        fails.append("%s RI2: layers.dom = %r but dom = %r" % (tag, lay.f["dom"], res.f["dom"]))
    if not lay.f["cod"].same(res.f["cod"], F):
        fails.append("%s RI2: layers.cod = %r but cod = %r" % (tag, lay.f["cod"], res.f["cod"]))
    lp, bp, op = lay.f["boxes"].parts, boxes.parts, offs.parts
    if not (len(lp) == len(bp) == len(op)) or any(not (F.eq(a.length, b.length) and F.eq(b.length, c.length)) for a, b, c in zip(lp, bp, op)):
        fails.append("%s RI3: layers / boxes / offsets are cut differently: %r / %r / %r" % (tag, lay.f["boxes"], boxes, offs)); return
    for a, b, c in zip(lp, bp, op):
        def under(p):
            return p.seg if isinstance(p, MapSeg) else p
        if isinstance(a, Item):
            k = None
        else:
            ua, ub, uc = under(a), under(b), under(c)
            if not (ua.lo == ub.lo == uc.lo and ua.hi == ub.hi == uc.hi):
                fails.append("%s RI3: segments differ: %r / %r / %r" % (tag, a, b, c)); continue
            k = Lin.var("κ")
            ev.facts = F.extend(k - ua.lo, ua.hi - k - 1)
        try:
            layer, box, off = elems_at(a, k, ev.facts), elems_at(b, k, ev.facts), elems_at(c, k, ev.facts)
            if layer.f["box"] is not box:
                fails.append("%s RI3: layer holds %r but boxes holds %r" % (tag, layer.f["box"], box))
            if not ev.facts.eq(layer.f["left"].length, off):
                fails.append("%s RI3: offset %r but |left| = %r" % (tag, off, layer.f["left"].length))
        finally:
            ev.facts = F
    fails += ["%s RI4: %r" % (tag, o) for o in ev.obligations if not o.ok]


def check(path="/repo/discopy/monoidal.py", out=print):
    fails, oks = [], []
    # ---- then: other.dom is self.cod (the layer composition is checked at run time: obligation must hold with that identification)
    fn = find_method(path, "Diagram", "then")
    a = Gen("a"); b = Gen("b", dom=a.COD)
    ev = Ev01(Facts(), "monoidal.Diagram.then")
    env = {"self": a.value, "others": (b.value,), "Sum": Obj("cls", name="Sum"), "super": None}
    ev.builtins["isinstance"] = lambda v, c: (getattr(c, "f", {}).get("name") or "Diagram") in v.f.get("isa", ()) if isinstance(v, Obj) else False
    try:
        r = ev.run(fn.body, env)
        res = r[1]
        check_RI(res, ev, fails, "then")
        want = (a.DOM, b.COD, Seq.atom(a.BOX) + Seq.atom(b.BOX), Seq.atom(a.OFF) + Seq.atom(b.OFF))
        got = (res.f["dom"], res.f["cod"], res.f["boxes"], res.f["offsets"])
        if got != want:
            fails.append("R02.1 then: summary %r, spec %r" % (got, want))
        else:
            oks.append("then: summary (a.dom, b.cod, a.boxes++b.boxes, a.offsets++b.offsets); RI ok")
    except (Unlocatable, Unsupported, Undecided) as e:
        fails.append("then: %s: %s" % (type(e).__name__, e))
    # ---- tensor
    fn = find_method(path, "Diagram", "tensor")
    a = Gen("a"); b = Gen("b")
    ev = Ev01(Facts(), "monoidal.Diagram.tensor")
    env = {"self": a.value, "other": b.value, "rest": (), "Sum": Obj("cls", name="Sum"), "Diagram": Obj("cls", name="Diagram")}
    ev.classes["Diagram"] = Closure(ev.mk_diagram)
    env["Diagram"] = None
    del env["Diagram"]
    ev.builtins["isinstance"] = lambda v, c: (getattr(c, "f", {}).get("name") or "Diagram") in v.f.get("isa", ()) if isinstance(v, Obj) else False
    try:
        r = ev.run(fn.body, env)
        res = r[1]
        check_RI(res, ev, fails, "tensor")
        if (res.f["dom"], res.f["cod"], res.f["boxes"]) != (a.DOM + b.DOM, a.COD + b.COD, Seq.atom(a.BOX) + Seq.atom(b.BOX)):
            fails.append("R02.1 tensor: dom/cod/boxes %r" % ((res.f["dom"], res.f["cod"], res.f["boxes"]),))
        off = res.f["offsets"]
        k = Lin.var("κ")
        shift = off.parts[1].fn(Lin.var("o")) - Lin.var("o") if len(off.parts) == 2 and isinstance(off.parts[1], MapSeg) else None
        if len(off.parts) != 2 or off.parts[0] != Seg(a.OFF) or shift != a.COD.length:
            fails.append("R02.1 tensor: offsets %r, spec a.offsets ++ [o + |a.cod|]" % (off,))
        else:
            oks.append("tensor: summary (a.dom·b.dom, a.cod·b.cod, a.boxes++b.boxes, a.offsets++[o+|a.cod|]); layer contexts %r; RI ok"
                       % [(x, y) for _, x, y in ev.loops])
    except (Unlocatable, Unsupported, Undecided) as e:
        fails.append("tensor: %s: %s" % (type(e).__name__, e))
    for o in oks:
        out("  R01.1/R02.1 ok: " + o)
    for f in fails:
        out("VIOLATION-CANDIDATE " + f)
    return 1 if fails else 0


if __name__ == "__main__":
    sys.exit(check())
