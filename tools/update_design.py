"""Refresh the generated tables of DESIGN.md (seeded changes) between their markers."""
import os, re, subprocess
VERIF = os.path.dirname(os.path.dirname(os.path.abspath(__file__)))
p = os.path.join(VERIF, "DESIGN.md")
s = open(p).read()
table = subprocess.run(["/venv/bin/python", os.path.join(VERIF, "tools", "seed_table.py")], capture_output=True, text=True).stdout.strip()
s = re.sub(r"<!-- seeds:begin -->.*?<!-- seeds:end -->", lambda m: "<!-- seeds:begin -->\n" + table + "\n<!-- seeds:end -->", s, flags=re.S)
open(p, "w").write(s)
print("DESIGN.md: %d seed rows" % (table.count("\n") - 1))
