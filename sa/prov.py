"""Engine C: constructor provenance, rebuild analysis (signature conformance + attribute flow)."""
import ast
from .model import Model, AnchorError


class BindError(Exception):
    pass


def E(kind, *a):
    return (kind,) + a


def show(e, depth=0):
    if not isinstance(e, tuple):
        return repr(e)
    k = e[0]
    if k == "param":
        return e[1]
    if k == "self":
        return "self." + e[1]
    if k == "const":
        return repr(e[1])
    if k == "call":
        return "%s(%s)" % (e[1], ", ".join([show(x) for x in e[2]] + ["%s=%s" % (n, show(v)) for n, v in e[3]]))
    if k == "attr":
        return "%s.%s" % (show(e[1]), e[2])
    if k == "ite":
        return "(%s if %s else %s)" % (show(e[2]), e[1], show(e[3]))
    if k == "op":
        return "%s(%s)" % (e[1], ", ".join(show(x) for x in e[2:]))
    if k == "tuple":
        return "(%s)" % ", ".join(show(x) for x in e[1])
    if k == "dict":
        return "{%s}" % ", ".join("%s: %s" % (n, show(v)) for n, v in sorted(e[1].items()))
    if k == "raw":
        return "‹%s›" % e[1]
    if k == "missing":
        return "MISSING(%s)" % e[1]
    return repr(e)


class Sim:
    """abstractly executes the __init__ chain of one class."""
    def __init__(self, model, cls):
        self.M, self.cls, self.attrs, self.trace = model, cls, {}, []

    # -- expressions -------------------------------------------------------
    def ex(self, n, env, owner):
        if n is None:
            return E("const", None)
        if isinstance(n, ast.Constant):
            return E("const", n.value)
        if isinstance(n, ast.Name):
            if n.id in env:
                return env[n.id]
            return E("raw", n.id, ())
        if isinstance(n, ast.Attribute):
            if isinstance(n.value, ast.Name) and n.value.id == "self":
                return self.self_attr(n.attr, owner)
            return E("attr", self.ex(n.value, env, owner), n.attr)
        if isinstance(n, ast.Call):
            f = n.func
            if isinstance(f, ast.Attribute) and f.attr == "get" and not n.keywords:
                d = self.ex(f.value, env, owner)
                if d[0] == "dict" and isinstance(n.args[0], ast.Constant):
                    default = self.ex(n.args[1], env, owner) if len(n.args) > 1 else E("const", None)
                    return d[1].get(n.args[0].value, default)
            if isinstance(f, ast.Name) and f.id == "dict" and n.args and not any(isinstance(a, ast.Starred) for a in n.args):
                d = self.ex(n.args[0], env, owner)
                if d[0] == "dict":
                    nd = dict(d[1])
                    for k in n.keywords:
                        nd[k.arg] = self.ex(k.value, env, owner)
                    return E("dict", nd)
            args = tuple(self.ex(a.value if isinstance(a, ast.Starred) else a, env, owner) for a in n.args)
            kws = tuple((k.arg or "**", self.ex(k.value, env, owner)) for k in n.keywords)
            return E("call", ast.unparse(f), args, kws)
        if isinstance(n, ast.IfExp):
            a, b = self.ex(n.body, env, owner), self.ex(n.orelse, env, owner)
            return a if a == b else E("ite", self.cond(n.test, env, owner), a, b)
        if isinstance(n, ast.Tuple):
            return E("tuple", tuple(self.ex(e, env, owner) for e in n.elts))
        if isinstance(n, ast.UnaryOp):
            op = {ast.USub: "neg", ast.Not: "not", ast.UAdd: "pos", ast.Invert: "inv"}[type(n.op)]
            v = self.ex(n.operand, env, owner)
            if v[0] == "op" and v[1] == op and op in ("neg", "not"):
                return v[2]
            return E("op", op, v)
        if isinstance(n, ast.BinOp):
            return E("op", type(n.op).__name__, self.ex(n.left, env, owner), self.ex(n.right, env, owner))
        deps = tuple(sorted({x.id for x in ast.walk(n) if isinstance(x, ast.Name) and x.id in env}))
        sub = {d: show(env[d]) for d in deps}
        return E("raw", ast.unparse(n), tuple(sorted(sub.items())))

    def cond(self, n, env, owner):
        return show(self.ex(n, env, owner)) if not isinstance(n, ast.Compare) else \
            ast.unparse(n) + "".join(" [%s=%s]" % (x.id, show(env[x.id])) for x in ast.walk(n) if isinstance(x, ast.Name) and x.id in env)

    def self_attr(self, attr, owner):
        if attr in self.attrs:
            return self.attrs[attr]
        # property of the class under construction, e.g. self.dom -> self._dom
        r = self.M.lookup(self.cls, attr)
        if r and r[2] == "property":
            body = [s for s in r[1].body if not (isinstance(s, ast.Expr) and isinstance(s.value, ast.Constant))]
            if len(body) == 1 and isinstance(body[0], ast.Return):
                return self.ex(body[0].value, {}, r[0])
        return E("self", attr)

    # -- statements --------------------------------------------------------
    def bind(self, fn, args, kw, what):
        a = fn.args
        names = [x.arg for x in a.args][1:]
        defaults = dict(zip(names[len(names) - len(a.defaults):], a.defaults))
        env = {}
        if len(args) > len(names) and not a.vararg:
            raise BindError("%s takes %d positional arguments (%s) but %d were given" % (what, len(names), ", ".join(names), len(args)))
        for n, v in zip(names, args):
            env[n] = v
        extra = {}
        kwonly = [x.arg for x in a.kwonlyargs]
        for k, v in kw.items():
            if k in env:
                raise BindError("%s got multiple values for argument %r" % (what, k))
            if k in names or k in kwonly:
                env[k] = v
            elif a.kwarg:
                extra[k] = v
            else:
                raise BindError("%s got an unexpected keyword argument %r" % (what, k))
        for n in names:
            if n not in env:
                if n in defaults:
                    env[n] = self.ex(defaults[n], {}, None)
                else:
                    raise BindError("%s missing required argument %r" % (what, n))
        for x, d in zip(a.kwonlyargs, a.kw_defaults):
            if x.arg not in env:
                if d is None:
                    raise BindError("%s missing keyword-only argument %r" % (what, x.arg))
                env[x.arg] = self.ex(d, {}, None)
        if a.kwarg:
            env[a.kwarg.arg] = E("dict", extra)
        if a.vararg:
            env[a.vararg.arg] = E("tuple", tuple(args[len(names):]))
        return env

    def run_init(self, owner, fn, args, kw):
        env = self.bind(fn, args, kw, "%s.__init__" % owner.q)
        self.trace.append(owner.q)
        self.block(fn.body, env, owner)

    def block(self, body, env, owner):
        for st in body:
            if isinstance(st, ast.Assign):
                val = self.ex(st.value, env, owner)
                for t in st.targets:
                    self.assign(t, val, env)
            elif isinstance(st, ast.Expr) and isinstance(st.value, ast.Call):
                self.call(st.value, env, owner)
            elif isinstance(st, ast.If):
                if any(isinstance(s, ast.Raise) for s in st.body) and not st.orelse:
                    continue                                    # validation guard
                before_env, before_attrs = dict(env), dict(self.attrs)
                self.block(st.body, env, owner)
                env_t, attrs_t = dict(env), dict(self.attrs)
                env.clear(); env.update(before_env); self.attrs = dict(before_attrs)
                self.block(st.orelse, env, owner)
                c = self.cond(st.test, before_env, owner)
                for k in set(env_t) | set(env):
                    a, b = env_t.get(k, E("missing", k)), env.get(k, E("missing", k))
                    env[k] = a if a == b else E("ite", c, a, b)
                for k in set(attrs_t) | set(self.attrs):
                    a, b = attrs_t.get(k, E("missing", k)), self.attrs.get(k, E("missing", k))
                    self.attrs[k] = a if a == b else E("ite", c, a, b)

    def assign(self, t, val, env):
        if isinstance(t, ast.Tuple):
            vals = val[1] if val[0] == "tuple" and len(val[1]) == len(t.elts) else [E("op", "item%d" % i, val) for i in range(len(t.elts))]
            for a, v in zip(t.elts, vals):
                self.assign(a, v, env)
        elif isinstance(t, ast.Name):
            env[t.id] = val
        elif isinstance(t, ast.Attribute) and isinstance(t.value, ast.Name) and t.value.id == "self":
            self.attrs[t.attr] = val

    def call(self, c, env, owner):
        f = c.func
        if not (isinstance(f, ast.Attribute) and f.attr == "__init__"):
            return
        args = [self.ex(a, env, owner) for a in c.args if not isinstance(a, ast.Starred)]
        star = [self.ex(a.value, env, owner) for a in c.args if isinstance(a, ast.Starred)]
        if star:
            args.append(E("op", "star", *star))          # lands in the callee's *vararg (or a positional slot): keeps the dependence
        kw = {}
        for k in c.keywords:
            v = self.ex(k.value, env, owner)
            if k.arg:
                kw[k.arg] = v
            elif v[0] == "dict":
                kw.update(v[1])
        if isinstance(f.value, ast.Call) and ast.unparse(f.value.func) == "super":
            r = self.M.lookup(self.cls, "__init__", after=owner)
        else:
            k = self.M.resolve_class(owner.mod, ast.unparse(f.value))
            if k is None:
                return
            args = args[1:]
            r = self.M.lookup(k, "__init__")
        if r:
            self.run_init(r[0], r[1], args, kw)


def init_prov(M, cls, args=None, kw=None):
    """attribute expressions after constructing `cls`; by default from its own formal parameters"""
    r = M.lookup(cls, "__init__")
    sim = Sim(M, cls)
    if args is None:
        fn = r[1]
        names = [x.arg for x in fn.args.args][1:]
        args = [E("param", n) for n in names]
        kw = {x.arg: E("param", x.arg) for x in fn.args.kwonlyargs}
        if fn.args.kwarg:      # seed the known pass-through keys
            for k in ("data", "_dagger"):
                kw[k] = E("param", k)
    sim.run_init(r[0], r[1], list(args), dict(kw or {}))
    return sim.attrs


def rebuild_sites(M, cls, mname):
    """[(owner, return-node, target class or None('type(self)'), args, kw)] for the method as resolved on cls"""
    r = M.lookup(cls, mname)
    if not r or not isinstance(r[1], ast.FunctionDef):
        return None, []
    owner, fn = r[0], r[1]
    out = []
    for node in ast.walk(fn):
        if isinstance(node, ast.Return) and node.value is not None:
            calls = [node.value] if isinstance(node.value, ast.Call) else []
            if isinstance(node.value, ast.Lambda) and isinstance(node.value.body, ast.Call):
                calls = [node.value.body]
            for c in calls:
                fname = ast.unparse(c.func)
                if fname == "type(self)":
                    out.append((owner, node, cls, c))
                else:
                    k = M.resolve_class(owner.mod, fname)
                    if k is not None and M.cls("discopy.cat.Arrow") in M.mro(k):
                        out.append((owner, node, k, c))
    return owner, out


def analyse_rebuild(M, cls, mname):
    """returns list of findings (strings) and the attribute map of the rebuilt object"""
    owner, sites = rebuild_sites(M, cls, mname)
    res = []
    for owner, node, target, call in sites:
        sim = Sim(M, cls)            # used only to express the call's arguments over self.*
        env = {}
        args = [sim.ex(a, env, owner) for a in call.args if not isinstance(a, ast.Starred)]
        kw = {k.arg: sim.ex(k.value, env, owner) for k in call.keywords if k.arg}
        try:
            attrs = init_prov(M, target, args, kw)
            res.append((node.lineno, target, None, attrs))
        except BindError as e:
            res.append((node.lineno, target, str(e), None))
    return owner, res


if __name__ == "__main__":
    M = Model()
    import sys
    for q in ["discopy.quantum.gates.Scalar", "discopy.quantum.circuit.Measure"]:
        print("==", q)
        for a, v in sorted(init_prov(M, M.cls(q)).items()):
            if a in ("_dom", "_cod", "_name", "_data", "_dagger", "_mixed"):
                print("   %-8s <- %s" % (a, show(v)))
    print()
    KEY = ("_dom", "_cod", "_name", "_data", "_dagger", "_mixed")
    n_sites = n_bind = 0
    for c in M.concrete_boxes():
        for m in ("dagger", "subs", "lambdify"):
            owner, res = analyse_rebuild(M, c, m)
            for line, target, err, attrs in res:
                n_sites += 1
                if err:
                    n_bind += 1
                    print("BIND  %-34s %-8s (defined in %s:%d) -> %s: %s" % (c.q.replace("discopy.", ""), m, owner.q.replace("discopy.", ""), line, target.name, err))
    print(n_sites, "rebuild sites,", n_bind, "binding failures")
