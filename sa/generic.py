"""Generic instances of box classes for engine C′: abstract constructor arguments enumerated from the __init__ signature."""
import ast
import itertools
from .lin import Lin
from .words import Seq, Seg, Atom
from .objsim import Sym, Sim, Inst, explore, RaisesError, Unsupported, NeedOracle

TYPE_PARAMS = ("dom", "cod")
WIRE_PARAMS = ("left", "right")
DATA_PARAMS = ("data", "phase", "array", "function", "func")
INT_PARAMS = ("n_qubits", "n_bits", "n_legs_in", "n_legs_out", "n_wires", "dim")
OBJ_PARAMS = ("inside", "controlled", "diagram", "box")


def own_init(m, cls):
    r = m.lookup(cls, "__init__")
    return (r[0], r[1]) if r and isinstance(r[1], ast.FunctionDef) else (None, None)


def mentions(fn, text):
    return any(text in ast.unparse(n) for n in ast.walk(fn) if isinstance(n, (ast.Compare, ast.Call)))


def param_domains(m, cls, label_prefix=""):
    """[(param name, [(label, value factory)])] for the constructor of cls; value factories take a Sim"""
    owner, fn = own_init(m, cls)
    if fn is None:
        return None
    a = fn.args
    names = [x.arg for x in a.args][1:]
    defaults = dict(zip(names[len(names) - len(a.defaults):], a.defaults))
    doms = []
    src = ast.unparse(fn)
    dag_src = ""
    r = m.lookup(cls, "dagger")
    if r and isinstance(r[1], ast.FunctionDef):
        dag_src = ast.unparse(r[1])
    for nm in names:
        d = defaults.get(nm)
        if nm == "name":
            doms.append((nm, [("", lambda s: "name")]))
        elif nm in TYPE_PARAMS and cls.mod in ("discopy.quantum.circuit", "discopy.quantum.gates"):
            # circuit types are words over {bit, qubit}: dom and cod of one generic instance are of the same kind (bits / qubits)
            def mkty(nm):
                def f(s):
                    kind = getattr(s, "_wire_kind", "qubit")
                    from .objsim import type_pow
                    return type_pow(s.global_name("discopy.quantum.circuit", kind), Lin.var("n_" + nm))
                return f
            if nm == "dom" or "dom" not in names:
                def with_kind(kind, nm=nm):
                    def f(s):
                        s._wire_kind = kind
                        return mkty(nm)(s)
                    return f
                kinds = ("bit",) if any(k.q == "discopy.quantum.gates.ClassicalGate" for k in m.mro(cls)) else ("qubit", "bit")
                alts = [("%ss" % k, with_kind(k)) for k in kinds]
            else:
                alts = [("", mkty(nm))]
            if "isinstance(%s, int)" % nm in src:
                alts.append(("%s:int" % nm, (lambda nm: lambda s: Lin.var("n_" + nm))(nm)))
            doms.append((nm, alts))
        elif nm in TYPE_PARAMS or nm in ("over", "under"):
            alts = [("", (lambda nm: lambda s: Seq.atom(Atom(nm)))(nm))]
            if "isinstance(%s, int)" % nm in src:
                alts.append(("%s:int" % nm, (lambda nm: lambda s: Lin.var("n_" + nm))(nm)))
            doms.append((nm, alts))
        elif nm in WIRE_PARAMS and not (isinstance(d, ast.Constant) and isinstance(d.value, bool)):
            if cls.mod.startswith("discopy.quantum.circuit") or cls.mod.startswith("discopy.quantum.gates"):
                doms.append((nm, [("%s=%s" % (nm, w), (lambda w: lambda s: s.global_name("discopy.quantum.circuit", w))(w)) for w in ("qubit", "bit")]))
            else:
                doms.append((nm, [("", (lambda nm: lambda s: Seq.atom(Atom(nm, 1)))(nm))]))
        elif nm in DATA_PARAMS:
            doms.append((nm, [("", (lambda nm: lambda s: Sym("param:" + nm))(nm))]))
        elif nm == "_dagger":
            alts = [("", lambda s: False), ("daggered", lambda s: True)]
            if "is None" in dag_src or "is None" in src or cls.mod == "discopy.quantum.gates":
                alts.append(("hermitian", lambda s: None))          # gates flagged self-adjoint (X, Z, H, CZ are built with _dagger=None)
            doms.append((nm, alts))
        elif isinstance(d, ast.Constant) and isinstance(d.value, bool):
            doms.append((nm, [("%s=%s" % (nm, v), (lambda v: lambda s: v)(v)) for v in (False, True)]))
        elif nm in INT_PARAMS or nm.startswith("n_"):
            doms.append((nm, [("", (lambda nm: lambda s: Lin.var(nm))(nm))]))
        elif isinstance(d, ast.Constant) and isinstance(d.value, int):
            doms.append((nm, [("", (lambda v: lambda s: Lin.of(v))(d.value))]))
        elif nm in OBJ_PARAMS:
            doms.append((nm, [("", (lambda nm: lambda s: generic_object(m, cls, nm, s))(nm))]))
        elif nm == "datatype":
            doms.append((nm, [("", lambda s: Sym("param:datatype"))]))
        elif d is not None:
            doms.append((nm, [("", (lambda d, owner: lambda s: s.ev(d, {}, owner.mod))(d, owner))]))
        else:
            doms.append((nm, [("", (lambda nm: lambda s: Sym("param:" + nm))(nm))]))
    extra = []
    if a.vararg:
        extra.append(("*" + a.vararg.arg, [("", (lambda nm: lambda s: ("star", Sym("param:" + nm)))(a.vararg.arg))]))
    kwonly = []
    for x, d in zip(a.kwonlyargs, a.kw_defaults):
        nm = x.arg
        if nm == "_dagger":
            kwonly.append((nm, [("", lambda s: False), ("daggered", lambda s: True)]))
        elif nm == "dim":
            kwonly.append((nm, [("", lambda s: Lin.var("dim"))]))
        elif d is not None:
            kwonly.append((nm, [("", (lambda d, owner: lambda s: s.ev(d, {}, owner.mod))(d, owner))]))
    if a.kwarg:
        # pass-through keywords of the box constructors
        if "data" not in names:
            kwonly.append(("data", [("", lambda s: Sym("param:data"))]))
        kwonly.append(("_dagger", [("", lambda s: False), ("daggered", lambda s: True)]))
    return doms, extra, kwonly


def generic_object(m, cls, nm, sim):
    """a generic argument object: a box of the same category (inside / diagram) or a generic quantum gate (controlled)"""
    if nm == "controlled":
        k = m.cls("discopy.quantum.gates.QuantumGate")
        return sim.construct(k, ["U", Lin.var("n_controlled"), Sym("param:controlled.array")], {"data": Sym("param:controlled.data")})
    mod_box = m.classes.get(cls.mod + ".Box") or m.cls("discopy.monoidal.Box")
    dom, cod = Seq.atom(Atom(nm + ".dom")), Seq.atom(Atom(nm + ".cod"))
    if mod_box.q == "discopy.tensor.Box":
        return sim.construct(mod_box, [nm, dom, cod, Sym("param:%s.data" % nm)], {})
    return sim.construct(mod_box, [nm, dom, cod], {"data": Sym("param:%s.data" % nm)})


def instances(m, cls, max_cases=48):
    """yield (label, builder) where builder(sim) -> Inst; all combinations of the finite parameter domains"""
    pd = param_domains(m, cls)
    if pd is None:
        return
    doms, extra, kwonly = pd
    pos = doms + extra
    axes = [alts for _, alts in pos] + [alts for _, alts in kwonly]
    n = 0
    for combo in itertools.product(*axes):
        n += 1
        if n > max_cases:
            break
        label = ",".join(l for l, _ in combo if l)

        def build(sim, combo=combo):
            args = [f(sim) for (_, f) in combo[:len(pos)]]
            kw = {nm: f(sim) for (nm, _), (_, f) in zip(kwonly, combo[len(pos):])}
            return sim.construct(cls, args, kw)
        yield label, build


KEY = ("_name", "_dom", "_cod", "_data", "_dagger", "_mixed")


def attr_of(sim, inst, a):
    return inst.attrs.get(a, Sym("unset"))


def same_value(sim, x, y):
    if isinstance(x, Seq) and isinstance(y, Seq):
        return x.same(y, sim.facts)
    if isinstance(x, Lin) and isinstance(y, Lin):
        return sim.facts.eq(x, y)
    if isinstance(x, Inst) and isinstance(y, Inst):
        return x is y or (x.cls is y.cls and all(same_value(sim, x.attrs.get(k), y.attrs.get(k)) for k in set(x.attrs) | set(y.attrs) if not k.startswith("draw")))
    if isinstance(x, (list, tuple)) and isinstance(y, (list, tuple)) and len(x) == len(y):
        return all(same_value(sim, a, b) for a, b in zip(x, y))
    return type(x) == type(y) and x == y or (x is None and y is None)
