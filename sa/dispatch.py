"""Engine D: isinstance dispatch chains."""
import ast


class Branch:
    def __init__(self, node, classes, names, body, returns, extra):
        self.node, self.classes, self.names, self.body, self.returns, self.extra = node, classes, names, body, returns, extra

    def __repr__(self):
        return "%s%s" % ("|".join(self.names), "" if self.returns else "(falls through)")


def always_leaves(body):
    """every path through the statement list ends in return/raise"""
    if not body:
        return False
    last = body[-1]
    if isinstance(last, (ast.Return, ast.Raise)):
        return True
    if isinstance(last, ast.If):
        return bool(last.orelse) and always_leaves(last.body) and always_leaves(last.orelse)
    return False


def isinstance_tests(test, param):
    """class-name expressions tested by `isinstance(param, X)` / `isinstance(param, (X, Y))` inside `test`;
    returns (names, extra) where extra is True when the test has other conjuncts"""
    names, extra = [], False
    parts = test.values if isinstance(test, ast.BoolOp) and isinstance(test.op, ast.And) else [test]
    for p in parts:
        if isinstance(p, ast.Call) and ast.unparse(p.func) == "isinstance" and len(p.args) == 2 and ast.unparse(p.args[0]) == param:
            t = p.args[1]
            names += [ast.unparse(e) for e in (t.elts if isinstance(t, ast.Tuple) else [t])]
        else:
            extra = True
    return names, extra


def chain(model, mod, fn, param, body=None):
    """the top-level sequence of `if isinstance(param, K): ...` statements (and elif chains) of a function body"""
    out = []

    def visit(st):
        names, extra = isinstance_tests(st.test, param)
        if names:
            classes = [model.resolve_class(mod, n) for n in names]
            out.append(Branch(st, classes, names, st.body, always_leaves(st.body), extra))
        if len(st.orelse) == 1 and isinstance(st.orelse[0], ast.If):
            visit(st.orelse[0])
    for st in (body if body is not None else fn.body):
        if isinstance(st, ast.If):
            visit(st)
    return out


def shadowed(model, branches):
    """[(later branch, class, earlier branch, super)] : a test on D after an unconditional returning test on a superclass of D"""
    res = []
    for i, b in enumerate(branches):
        for d in b.classes:
            if d is None:
                continue
            dead_for_all = True
            for a in branches[:i]:
                if a.returns and not a.extra and any(s is not None and s in model.mro(d) for s in a.classes):
                    sup = next(s for s in a.classes if s is not None and s in model.mro(d))
                    res.append((b, d, a, sup))
    return res


def first_handler(model, branches, cls):
    """the first branch whose test accepts an instance of cls (ignoring extra conjuncts)"""
    for b in branches:
        if any(k is not None and k in model.mro(cls) for k in b.classes):
            return b
    return None
