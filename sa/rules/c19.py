"""C19 — cartesian diagrams compute the function they draw (rules R19.x) and wire counting shared with C01."""
import ast
from ..lin import Lin, Facts
from ..beval import Unsupported, Undecided

CART = "discopy.cartesian"


class T:
    """a cartesian diagram up to its wire counts (all wires have type 1, so PRO types are their lengths)"""
    def __init__(self, dom, cod):
        self.dom, self.cod = Lin.of(dom), Lin.of(cod)

    def __repr__(self):
        return "%r -> %r" % (self.dom, self.cod)


class CountEval:
    def __init__(self, ctx, mod, facts=None):
        self.ctx, self.m, self.mod = ctx, ctx.model, mod
        self.facts = facts or Facts()
        self.problems = []

    def const_box(self, name):
        v = self.m.module_assigns.get(self.mod, {}).get(name)
        if isinstance(v, ast.Call) and self.m.resolve_class(self.mod, ast.unparse(v.func)) is self.m.cls(CART + ".Box") and len(v.args) >= 3:
            return T(self.ev(v.args[1], {}), self.ev(v.args[2], {}))
        return None

    def ev(self, n, env):
        if isinstance(n, ast.Constant) and isinstance(n.value, int):
            return Lin.of(n.value)
        if isinstance(n, ast.Name):
            if n.id in env:
                return env[n.id]
            b = self.const_box(n.id)
            if b is not None:
                return b
            raise Unsupported("name %s" % n.id)
        if isinstance(n, ast.BinOp):
            l, r = self.ev(n.left, env), self.ev(n.right, env)
            if isinstance(n.op, ast.MatMult):
                return T(l.dom + r.dom, l.cod + r.cod)
            if isinstance(n.op, ast.RShift):
                if not self.facts.eq(l.cod, r.dom):
                    self.problems.append("composition %s: %r wires meet %r wires" % (ast.unparse(n), l.cod, r.dom))
                return T(l.dom, r.cod)
            if isinstance(l, tuple) or isinstance(r, tuple):
                raise Unsupported(ast.unparse(n))
            if isinstance(n.op, ast.Mult) and isinstance(r, list):
                return ("rep", l, r[0])
            if isinstance(n.op, ast.Mult) and isinstance(l, list):
                return ("rep", r, l[0])
            if isinstance(n.op, ast.Add):
                return l + r
            if isinstance(n.op, ast.Sub):
                return l - r
            if isinstance(n.op, ast.Mult):
                return l * r
        if isinstance(n, ast.List) and len(n.elts) == 1:
            return [self.ev(n.elts[0], env)]
        if isinstance(n, ast.Call):
            f = ast.unparse(n.func)
            k = self.m.resolve_class(self.mod, f)
            if k is self.m.cls(CART + ".Id"):
                d = self.ev(n.args[0], env)
                return T(d, d)
            if isinstance(n.func, ast.Attribute) and n.func.attr == "tensor":
                acc = self.ev(n.func.value, env)
                for a in n.args:
                    if isinstance(a, ast.Starred):
                        v = self.ev(a.value, env)
                        if not (isinstance(v, tuple) and v[0] == "rep"):
                            raise Unsupported("starred %s" % ast.unparse(a))
                        _, cnt, b = v
                        if not self.facts.nonneg(cnt):
                            raise Undecided(a, cnt)
                        acc = T(acc.dom + b.dom * cnt, acc.cod + b.cod * cnt)
                    else:
                        b = self.ev(a, env)
                        acc = T(acc.dom + b.dom, acc.cod + b.cod)
                return acc
        raise Unsupported("expression %s" % ast.unparse(n))

    def run(self, body, env, stop):
        for st in body:
            if st is stop or st.lineno >= stop.lineno:
                break
            if isinstance(st, ast.Assign) and isinstance(st.targets[0], ast.Name):
                env[st.targets[0].id] = self.ev(st.value, env)
            elif isinstance(st, ast.For):
                self.loop(st, env)
            elif isinstance(st, ast.Expr) and isinstance(st.value, ast.Constant):
                continue
            else:
                raise Unsupported("statement %s" % ast.unparse(st)[:60])

    def loop(self, st, env):
        if not (isinstance(st.iter, ast.Call) and ast.unparse(st.iter.func) == "range" and isinstance(st.target, ast.Name)):
            raise Unsupported("loop %s" % ast.unparse(st.iter))
        a = [self.ev(x, env) for x in st.iter.args]
        lo, hi = (Lin.of(0), a[0]) if len(a) == 1 else (a[0], a[1])
        i = Lin.var("i@%d" % st.lineno)
        last = st.body[-1]
        if not (isinstance(last, ast.Assign) and isinstance(last.targets[0], ast.Name) and isinstance(last.value, ast.BinOp)
                and isinstance(last.value.left, ast.Name) and last.value.left.id == last.targets[0].id):
            raise Unsupported("loop body does not end with `acc = acc <op> E`")
        acc = last.targets[0].id
        saved = self.facts
        self.facts = self.facts.extend(i - lo, hi - i - 1)
        try:
            e2 = dict(env)
            e2[st.target.id] = i
            for s in st.body[:-1]:
                if not (isinstance(s, ast.Assign) and isinstance(s.targets[0], ast.Name)):
                    raise Unsupported("loop statement %s" % ast.unparse(s)[:60])
                e2[s.targets[0].id] = self.ev(s.value, e2)
            E = self.ev(last.value.right, e2)
            if any(v.startswith("i@") for v in (E.dom.vars() | E.cod.vars())):
                raise Unsupported("per-iteration type %r depends on the loop index" % E)
            cur = env[acc]
            if isinstance(last.value.op, ast.MatMult):          # T1 additive accumulation
                n = hi - lo
                if not saved.nonneg(n):
                    raise Undecided(st.iter, n)
                env[acc] = T(cur.dom + E.dom * n, cur.cod + E.cod * n)
            elif isinstance(last.value.op, ast.RShift):         # type-preserving fold of >>
                if not (self.facts.eq(E.dom, cur.cod) and self.facts.eq(E.cod, cur.cod)):
                    self.problems.append("loop line %d: step typed %r applied to %r wires (must preserve the row)" % (st.lineno, E, cur.cod))
                env[acc] = T(cur.dom, cur.cod)
            else:
                raise Unsupported("loop accumulation %s" % ast.unparse(last))
        finally:
            self.facts = saved


def pro_type_of(ctx, mod, fn, name, before):
    """(dom, cod) wire counts of local `name` just before statement containing `before` in constructor fn"""
    ev = CountEval(ctx, mod)
    env = {a.arg: Lin.var(a.arg) for a in fn.args.args[1:]}
    stop = next(s for s in fn.body if any(x is before for x in ast.walk(s)))
    ev.run(fn.body, env, stop)
    if ev.problems:
        raise Undecided(before)
    ctx.count_problems = ev.problems
    v = env.get(name)
    if not isinstance(v, T):
        raise Unsupported("%s is not a diagram value" % name)
    return (v.dom, v.cod)


# ---------------------------------------------------------------------------------------------------------------------
# C19 proper
# ---------------------------------------------------------------------------------------------------------------------
from ..words import Seq, Seg, Atom, Unlocatable
from ..core import AnalysisError
from ..cfg import CFG
from .. import shape
from .c01 import neq_guard, own_nodes

EXPLANATION = (
    "cartesian.py is analysed from source. Decided: (R19.1) a typestate / partition analysis of the closures built by Function.then, "
    "Function.tensor and Function.id: values are either argument tuples or raw results in the tuple-or-single-value convention; raw results "
    "must pass through tuplify before they are concatenated or splatted, every closure returns a raw result, `self` and `other` are applied "
    "to exactly their own wires (the slices of the argument tuple partition it at len(self.dom), decided on symbolic widths including 0 and 1), "
    "outputs are concatenated in order, the arity guards raise; tuplify / untuplify have their defining shape; (R19.2) Diagram.__call__ "
    "applies the functor whose ar_factory is Function to the box's own function, Box.__call__ is Diagram.__call__; (R19.3) the generating "
    "boxes SWAP, COPY, DISCARD and the constructors Swap(l, r), Copy(n), Discard(n) are evaluated on wire labels by a reference interpreter "
    "for all widths up to a bound (boxes / offsets lists and the loops of Copy are folded from the source) and compared with the permutation, "
    "duplication and deletion they must realise; (R19.4) the functor wiring that applies each box at its offset is the one decided by C04. "
    "Not decided: behaviour of user functions that return a tuple as a single value (the convention cannot distinguish them); widths above the bound.")


class Problem(Exception):
    pass


class Tup:
    def __init__(self, seq):
        self.seq = seq

    def __repr__(self):
        return "tuple(%r)" % (self.seq,)


class Raw:
    def __init__(self, seq):
        self.seq = seq

    def __repr__(self):
        return "result(%r)" % (self.seq,)


class Callee:
    def __init__(self, name, dom, cod):
        self.name, self.dom, self.cod = name, dom, cod


class ClosureEval:
    """abstract evaluation of the closures of Function.then / tensor / id on symbolic wire rows"""
    def __init__(self, env, facts, helpers):
        self.env, self.facts, self.helpers = dict(env), facts, helpers

    def call_callable(self, f, args):
        """f: ast.Lambda / ast.FunctionDef / 'untuplify' / 'tuplify' applied to python-level args (list of (starred, value))"""
        if isinstance(f, str):
            return self.builtin(f, args)
        a = f.args
        env = dict(self.env)
        if a.vararg and not a.args:
            env[a.vararg.arg] = self.pack(args)
        elif not a.vararg and len(args) == 1 and args[0][0]:
            raise Unsupported("positional parameters bound from a splat")
        else:
            raise Unsupported("parameter list of %s" % ast.unparse(f)[:40])
        sub = ClosureEval(env, self.facts, self.helpers)
        if isinstance(f, ast.Lambda):
            return sub.ev(f.body)
        for st in f.body:
            if isinstance(st, ast.Assign) and len(st.targets) == 1 and isinstance(st.targets[0], ast.Name):
                sub.env[st.targets[0].id] = sub.ev(st.value)
            elif isinstance(st, ast.Assign) and len(st.targets) == 1 and isinstance(st.targets[0], ast.Tuple) and isinstance(st.value, ast.Tuple) and \
                    len(st.targets[0].elts) == len(st.value.elts) and all(isinstance(t, ast.Name) for t in st.targets[0].elts):
                vals = [sub.ev(v) for v in st.value.elts]
                for t, v in zip(st.targets[0].elts, vals):
                    sub.env[t.id] = v
            elif isinstance(st, ast.Return):
                return sub.ev(st.value)
            elif isinstance(st, ast.Expr) and isinstance(st.value, ast.Constant):
                continue
            else:
                raise Unsupported("statement %s" % ast.unparse(st)[:50])
        raise Problem("the closure returns nothing")

    def pack(self, args):
        seq = Seq()
        for starred, v in args:
            if starred:
                if isinstance(v, Raw):
                    raise Problem("a raw result %r is splatted (`*`) without tuplify: a single value is not iterable as wires" % (v,))
                seq = seq + v.seq
            else:
                if isinstance(v, Tup):
                    raise Problem("a tuple %r is passed as ONE argument" % (v,))
                raise Unsupported("a raw result passed as one positional argument")
        return Tup(seq)

    def builtin(self, name, args):
        if name == "tuplify":
            if len(args) != 1 or args[0][0]:
                raise Problem("tuplify takes ONE value; it is called with a splat / several arguments (fails unless there is exactly one wire)")
            return Tup(args[0][1].seq)
        if name == "untuplify":
            if len(args) == 1 and not args[0][0] and isinstance(args[0][1], Raw):
                return args[0][1]
            return Raw(self.pack(args).seq)
        raise Unsupported(name)

    def ev(self, n):
        if isinstance(n, ast.Name):
            if n.id in self.env:
                return self.env[n.id]
            if n.id in self.env.get("__outer__", {}):
                return self.ev(self.env["__outer__"][n.id])
            raise Unsupported("name %s" % n.id)
        if isinstance(n, ast.Constant) and isinstance(n.value, int):
            return Lin.of(n.value)
        if isinstance(n, ast.Tuple):
            return self.pack([(isinstance(e, ast.Starred), self.ev(e.value if isinstance(e, ast.Starred) else e)) for e in n.elts])
        if isinstance(n, ast.Call):
            f = ast.unparse(n.func)
            if f == "len" and len(n.args) == 1:
                v = ast.unparse(n.args[0])
                if v in self.env and isinstance(self.env[v], Seq):
                    return self.env[v].length
                x = self.ev(n.args[0])
                if isinstance(x, Tup):
                    return x.seq.length
                raise Unsupported("len(%s)" % v)
            args = [(isinstance(a, ast.Starred), self.ev(a.value if isinstance(a, ast.Starred) else a)) for a in n.args]
            if f in ("tuplify", "untuplify"):
                return self.builtin(f, args)
            c = self.env.get(f)
            if isinstance(c, Callee):
                got = self.pack(args)
                if not got.seq.same(c.dom, self.facts):
                    raise Problem("`%s` is applied to %r, its inputs are %r" % (c.name, got.seq, c.dom))
                return Raw(c.cod)
            if f in self.helpers:
                return self.call_callable(self.helpers[f], args)
            raise Unsupported("call %s" % f)
        if isinstance(n, ast.IfExp):
            t = self.ev(n.test)
            if isinstance(t, Tup):
                L = t.seq.simplify(self.facts).length
                if self.facts.zero(L):
                    return self.ev(n.orelse)
                if self.facts.nonneg(L - 1):
                    return self.ev(n.body)
            raise Unsupported("test %s is not decided" % ast.unparse(n.test))
        if isinstance(n, ast.Subscript) and isinstance(n.slice, ast.Slice) and n.slice.step is None:
            v = self.ev(n.value)
            if isinstance(v, Raw):
                raise Problem("a raw result %r is sliced without tuplify" % (v,))
            lo = self.ev(n.slice.lower) if n.slice.lower is not None else None
            hi = self.ev(n.slice.upper) if n.slice.upper is not None else None
            try:
                return Tup(v.seq.slice(lo, hi, self.facts))
            except Unlocatable as e:
                raise Problem("%s: %s" % (ast.unparse(n), e))
        if isinstance(n, ast.BinOp) and isinstance(n.op, ast.Add):
            l, r = self.ev(n.left), self.ev(n.right)
            if isinstance(l, Lin) and isinstance(r, Lin):
                return l + r
            if isinstance(l, Raw) or isinstance(r, Raw):
                raise Problem("a raw result is concatenated (`+`) without tuplify: %s" % ast.unparse(n))
            return Tup(l.seq + r.seq)
        if isinstance(n, ast.BinOp) and isinstance(n.op, ast.Sub):
            return self.ev(n.left) - self.ev(n.right)
        raise Unsupported("expression %s" % ast.unparse(n)[:60])


def function_ctor(ctx, fn):
    """the `Function(dom, cod, callable)` returned at the end of a method"""
    F = ctx.model.cls(CART + ".Function")
    ret = [s for s in fn.body if isinstance(s, ast.Return)]
    ctx.need(bool(ret) and isinstance(ret[-1].value, ast.Call) and ctx.model.resolve_class(CART, ast.unparse(ret[-1].value.func)) is F and len(ret[-1].value.args) == 3,
             "%s does not end with `return Function(dom, cod, callable)`" % fn.name)
    return ret[-1].value


def callable_of(fn, expr):
    if isinstance(expr, ast.Lambda):
        return expr
    if isinstance(expr, ast.Name):
        d = next((s for s in fn.body if isinstance(s, ast.FunctionDef) and s.name == expr.id), None)
        if d is not None:
            return d
        if expr.id in ("untuplify", "tuplify"):
            return expr.id
    raise Unsupported("callable %s" % ast.unparse(expr)[:40])


def type_word(expr, env, local):
    """the wire row denoted by a dom / cod expression (self.dom, self.dom @ other.dom, a local assigned from those)"""
    if isinstance(expr, ast.Name) and expr.id in local:
        return type_word(local[expr.id], env, local)
    s = ast.unparse(expr)
    if s in env and isinstance(env[s], Seq):
        return env[s]
    if isinstance(expr, ast.BinOp) and isinstance(expr.op, ast.MatMult):
        return type_word(expr.left, env, local) + type_word(expr.right, env, local)
    raise Unsupported("type expression %s" % s)


def check_function_algebra(ctx):
    m = ctx.model
    from ..fold import fold, CannotFold
    DOMAIN = {"tuplify": [5, "s", None, (), (1,), (1, 2), ((1, 2),), [1, 2], [], {1: 2}], "untuplify": [(), (1,), (1, 2), ((1, 2),), ((),), (None,), (1, 2, 3)]}
    REF = {"tuplify": lambda x: x if isinstance(x, tuple) else (x,), "untuplify": lambda x: x[0] if len(x) == 1 else x}
    for name in ("tuplify", "untuplify"):
        fn = m.func(CART + "." + name)
        ctx.analysed(CART + "." + name)
        ret = [s for s in fn.body if isinstance(s, ast.Return)]
        ctx.need(len(ret) == 1 and all(isinstance(s, ast.Return) or (isinstance(s, ast.Expr) and isinstance(s.value, ast.Constant)) for s in fn.body), "%s is not a single return expression" % name)
        p = fn.args.vararg.arg if fn.args.vararg else fn.args.args[0].arg
        ok_sig = (name == "untuplify") == bool(fn.args.vararg) and len(fn.args.args) == (0 if name == "untuplify" else 1)
        ctx.ob("R19.1", "%s.%s:signature" % (CART, name), ok_sig, found=ast.unparse(fn.args), required="tuplify(stuff) / untuplify(*stuff)", mod=CART, node=fn, sig=name + "-sig")
        bad = []
        for x in DOMAIN[name]:
            try:
                got = fold(ret[0].value, {p: x, "isinstance": isinstance, "tuple": tuple, "len": len, "list": list})
            except CannotFold as e:
                raise AnalysisError("%s.%s: `%s` cannot be folded (%s)" % (CART, name, ast.unparse(ret[0].value), e))
            except Exception as e:           # the folded expression itself fails on this input (e.g. IndexError)
                got = "raises %s" % type(e).__name__
            if got != REF[name](x) or type(got) is not type(REF[name](x)):
                bad.append("%s(%s%r) = %r, expected %r" % (name, "*" if name == "untuplify" else "", x, got, REF[name](x)))
        ctx.ob("R19.1", "%s.%s" % (CART, name), not bad, found=bad[:3] or "agrees with the convention on %d inputs" % len(DOMAIN[name]),
               required="the tuple-or-single-value convention (folded on a finite domain of shapes: empty, single, pair, nested)", mod=CART, node=fn, sig=name)
    for meth in ("then", "tensor", "id"):
        q = "%s.Function.%s" % (CART, meth)
        fn = m.func(q)
        ctx.analysed(q)
        ctor = function_ctor(ctx, fn)
        # every other way out delegates to the diagram-level operation (n-ary calls, sums) or refuses: a shortcut that hands an operand back skips the closure
        # in which results are put into the tuple-or-single-value form
        others_ = [r for r in own_nodes(fn) if isinstance(r, ast.Return) and r.value is not ctor]
        stray = [ast.unparse(r.value)[:60] for r in others_ if not (isinstance(r.value, ast.Call) and ast.unparse(r.value.func) in ("monoidal.Diagram.then", "monoidal.Diagram.tensor"))]
        ctx.ob("R19.1", q + ":exits", not stray, found=stray or "one Function(...) construction; the other returns delegate to monoidal.Diagram.%s" % meth, required="no return hands back an operand or anything "
               "else than the checked Function(dom, cod, closure) (identities included: the closure is where results are normalised and arities checked)", mod=CART, node=fn, sig=meth + "-exits", trivial=True)
        local = {s.targets[0].id: s.value for s in fn.body if isinstance(s, ast.Assign) and len(s.targets) == 1 and isinstance(s.targets[0], ast.Name)}
        for s in fn.body:
            if isinstance(s, ast.Assign) and isinstance(s.targets[0], ast.Tuple) and isinstance(s.value, ast.Tuple):
                local.update({t.id: v for t, v in zip(s.targets[0].elts, s.value.elts) if isinstance(t, ast.Name)})
        if meth == "id":
            d = fn.args.args[0].arg
            D = Seq.atom(Atom(d))
            env = {d: D}
            want_dom, want_cod, inp, out = D, D, D, D
            callees = {}
        else:
            self_ = fn.args.args[0].arg
            other = next((s.targets[0].id for s in fn.body if isinstance(s, ast.Assign) and isinstance(s.targets[0], ast.Name) and isinstance(s.value, ast.Subscript)
                          and ast.unparse(s.value) == "%s[0]" % fn.args.vararg.arg), None) if fn.args.vararg else None
            ctx.need(other is not None, "%s does not bind `other = others[0]`" % q)
            SD, SC, OD, OC = (Seq.atom(Atom(x)) for x in (self_ + ".dom", self_ + ".cod", other + ".dom", other + ".cod"))
            env = {self_ + ".dom": SD, self_ + ".cod": SC, other + ".dom": OD, other + ".cod": OC}
            if meth == "then":
                want_dom, want_cod, inp, out = SD, OC, SD, OC
                callees = {self_: Callee(self_, SD, SC), other: Callee(other, SC, OC)}      # len(self.cod) == len(other.dom) under the guard
            else:
                want_dom, want_cod, inp, out = SD + OD, SC + OC, SD + OD, SC + OC
                callees = {self_: Callee(self_, SD, SC), other: Callee(other, OD, OC)}
        try:
            dom, cod = type_word(ctor.args[0], env, local), type_word(ctor.args[1], env, local)
        except Unsupported as e:
            raise AnalysisError("%s: %s" % (q, e))
        ctx.ob("R19.1", q + ":type", dom == want_dom and cod == want_cod, found="%r -> %r" % (dom, cod), required="%r -> %r" % (want_dom, want_cod), mod=CART, node=ctor, sig=meth + "-type")
        try:
            f = callable_of(fn, ctor.args[2])
            bad = None
            doms = [a.parts[0].atom.length for a in ([SD, OD] if meth != "id" else [D])]
            import itertools as _it
            for signs in _it.product((0, 1), repeat=len(doms)):          # each domain empty / non-empty: tests on emptiness of argument tuples are decided per case
                facts = Facts()
                for ln, sg in zip(doms, signs):
                    facts = facts.with_eq(ln, 0) if sg == 0 else facts.extend(ln - 1)
                ev = ClosureEval(dict(env, __outer__=local, **callees), facts, {k: callable_of(fn, ast.Name(id=k)) for k in [s.name for s in fn.body if isinstance(s, ast.FunctionDef)]})
                case = ", ".join("%r %s" % (ln, "= 0" if sg == 0 else ">= 1") for ln, sg in zip(doms, signs))
                try:
                    res = ev.call_callable(f, [(True, Tup(inp))])
                    if not isinstance(res, Raw):
                        bad = "the closure returns %r, a tuple even when there is a single output (callers expect the single value)" % (res,)
                    elif not res.seq.same(out, facts):
                        bad = "when %s the closure returns %r" % (case, res)
                except Problem as e:
                    bad = str(e)
                if bad:
                    break
            ctx.ob("R19.1", q + ":closure", bad is None, found=bad or "returns result(%r) for inputs %r" % (out, inp), required="inputs %r are fed to the callees on their own wires, outputs %r in order, in the "
                   "tuple-or-single-value convention" % (inp, out), mod=CART, node=ctor, sig=meth + "-closure")
        except Unsupported as e:
            raise AnalysisError("%s: closure outside the recognised idioms: %s" % (q, e))
        if meth == "then":
            g = CFG(fn)
            guards = g.raising_guards_before(ctor)
            ok = any(lab == "T" and "AxiomError" in how and neq_guard(st.test, "len(%s.cod)" % self_, "len(%s.dom)" % other) for st, lab, how in guards)
            ctx.ob("R19.1", q + ":guard", ok, found=[(ast.unparse(st.test), how) for st, lab, how in guards], required="`len(self.cod) != len(other.dom)` raises AxiomError before the closure is built",
                   mod=CART, node=ctor, sig="then-guard")
        if meth in ("then", "tensor"):
            g = CFG(fn)
            guards = g.raising_guards_before(ctor)
            ok = any(lab == "T" and "TypeError" in how and ast.unparse(st.test) == "not isinstance(%s, Function)" % other for st, lab, how in guards)
            ctx.ob("R19.1", q + ":operand", ok, found=[(ast.unparse(st.test), how) for st, lab, how in guards], required="operands that are not Functions raise TypeError", mod=CART, node=ctor,
                   sig=meth + "-operand")
    # Function.__call__
    q = CART + ".Function.__call__"
    fn = m.func(q)
    ctx.analysed(q)
    self_, vals = fn.args.args[0].arg, fn.args.vararg.arg if fn.args.vararg else None
    ctx.need(vals is not None, "Function.__call__ takes no *values")
    ret = [s for s in fn.body if isinstance(s, ast.Return)]
    ctx.need(len(ret) == 1, "Function.__call__ has not exactly one return")
    shape.match(ctx, "R19.1", q + ":apply", ret[0].value, ["self.function(*values)", "self._function(*values)"], {self_: "self", vals: "values"}, body=fn.body, mod=CART, node=ret[0], sig="call-apply")
    g = CFG(fn)
    guards = g.raising_guards_before(ret[0])
    ok = any(lab == "T" and "TypeError" in how and neq_guard(st.test, "len(%s)" % vals, "len(%s.dom)" % self_) for st, lab, how in guards)
    ctx.ob("R19.1", q + ":guard", ok, found=[(ast.unparse(st.test), how) for st, lab, how in guards], required="a wrong number of inputs raises TypeError", mod=CART, node=ret[0], sig="call-guard")
    c = m.cls(CART + ".Function")
    prop = m.lookup(c, "function")
    init = m.func(CART + ".Function.__init__")
    stores = [s for s in init.body if isinstance(s, ast.Assign) and ast.unparse(s.targets[0]) == "self._function"]
    ok = len(stores) == 1 and ast.unparse(stores[0].value) == init.args.args[3].arg and prop is not None and "return self._function" in ast.unparse(prop[1] if isinstance(prop, tuple) else prop)
    ctx.ob("R19.1", CART + ".Function:function", ok, found=[ast.unparse(s) for s in stores], required="the callable given to the constructor is the one `function` returns", mod=CART, node=init, sig="function-store")


def check_call(ctx):
    m = ctx.model
    q = CART + ".Diagram.__call__"
    fn = m.func(q)
    ctx.analysed(q)
    self_, vals = fn.args.args[0].arg, fn.args.vararg.arg if fn.args.vararg else None
    ctx.need(vals is not None, "Diagram.__call__ takes no *values")
    ret = [s for s in own_nodes(fn) if isinstance(s, ast.Return)]
    ctx.need(len(ret) >= 1, "Diagram.__call__ returns nothing")
    for k, r in enumerate(sorted(ret, key=lambda r: r.lineno)):
        if r.value is None or not any(isinstance(c, ast.Call) and ast.unparse(c.func) == "PythonFunctor" for c in ast.walk(shape.inline(r.value, fn.body))):
            ctx.ob("R19.2", q + ("" if len(ret) == 1 else "@%d" % k), False, found="`return %s` does not apply the functor" % (ast.unparse(r.value)[:60] if r.value is not None else ""),
                   required="every call goes through the functor into Functions (the only place where the number of inputs is checked)", mod=CART, node=r, sig="diagram-call-bypass")
            continue
        shape.match(ctx, "R19.2", q + ("" if len(ret) == 1 else "@%d" % k), r.value, "PythonFunctor(ob=lambda t: PRO(len(t)), ar=lambda f: Function(len(f.dom), len(f.cod), f.function))(self)(*values)",
                    {self_: "self", vals: "values"}, body=fn.body, mod=CART, node=r, sig="diagram-call",
                    required="every call goes through the functor into Functions (the only place where the number of inputs is checked), applied to the diagram, called on the values")
    init = m.func(CART + ".PythonFunctor.__init__")
    ctx.analysed(CART + ".PythonFunctor.__init__")
    sup = next((c for c in ast.walk(init) if isinstance(c, ast.Call) and ast.unparse(c.func) == "super().__init__"), None)
    kw = {k.arg: ast.unparse(k.value) for k in sup.keywords} if sup else {}
    ok = sup is not None and [ast.unparse(a) for a in sup.args] == [a.arg for a in init.args.args[1:3]] and kw == {"ob_factory": "PRO", "ar_factory": "Function"}
    ctx.ob("R19.2", CART + ".PythonFunctor.__init__", ok, found=ast.unparse(sup) if sup else None, required="super().__init__(ob, ar, ob_factory=PRO, ar_factory=Function): identities and composites are Functions", mod=CART, node=init,
           sig="python-functor")
    B = m.cls(CART + ".Box")
    alias = [s for s in B.node.body if isinstance(s, ast.Assign) and ast.unparse(s.targets[0]) == "__call__"]
    ok = len(alias) == 1 and m.resolve_class(CART, ast.unparse(alias[0].value).rsplit(".", 1)[0]) is m.cls(CART + ".Diagram") and ast.unparse(alias[0].value).endswith(".__call__")
    ctx.ob("R19.2", CART + ".Box.__call__", ok, found=[ast.unparse(s) for s in alias] or "inherits %s" % "rigid.Box / cat.Box __call__", required="Box.__call__ = Diagram.__call__ (a box is called like the diagram it is)",
           mod=CART, node=B.node, sig="box-call")
    init = m.func(CART + ".Box.__init__")
    stores = [s for s in ast.walk(init) if isinstance(s, ast.Assign) and ast.unparse(s.targets[0]) == "self._function"]
    prop = m.func(CART + ".Box.function")
    guard = next((s for s in ast.walk(init) if isinstance(s, ast.If) and stores and any(x is stores[0] for x in ast.walk(s))), None)
    ok = len(stores) == 1 and ast.unparse(stores[0].value) == "function" and "return self._function" in ast.unparse(prop) and \
        (guard is None or shape.key(guard.test) == shape.key(shape.parse("function is not None")))
    ctx.ob("R19.2", CART + ".Box:function", ok, found=[ast.unparse(s) for s in stores], required="the function given to the constructor (any callable that is not None: a callable may be falsy, e.g. a diagram without boxes) is the one `function` returns", mod=CART, node=init, sig="box-function-store")


# -- R19.3: reference evaluation of the structural diagrams on wire labels ------------------------------------------------
class RefError(Exception):
    pass


class RD:
    """a cartesian diagram in the reference algebra: number of inputs and a list of (generator, offset)"""
    def __init__(self, dom, items, gens):
        self.dom, self.items, self.gens = dom, list(items), gens

    @property
    def cod(self):
        n = self.dom
        for b, off in self.items:
            d, c, _ = self.gens[b]
            if off < 0 or off + d > n:
                raise RefError("generator %s at offset %r does not fit a row of %d wires" % (b, off, n))
            n += c - d
        return n

    def __matmul__(self, o):
        if isinstance(o, int):
            raise RefError("tensor of a diagram with a number")
        return RD(self.dom + o.dom, self.items + [(b, off + self.cod) for b, off in o.items], self.gens)

    def __rshift__(self, o):
        if self.cod != o.dom:
            raise RefError("composition of %d outputs with %d inputs" % (self.cod, o.dom))
        return RD(self.dom, self.items + o.items, self.gens)

    def tensor(self, *others):
        r = self
        for o in others:
            r = r @ o
        return r

    @property
    def boxes(self):
        return [b for b, _ in self.items]

    @property
    def offsets(self):
        return [off for _, off in self.items]

    @property
    def layers(self):
        return ("layers-of", tuple(self.items), self.dom)

    def run(self, labels):
        row = tuple(labels)
        if len(row) != self.dom:
            raise RefError("called on %d values, %d inputs" % (len(row), self.dom))
        for b, off in self.items:
            d, c, f = self.gens[b]
            if off < 0 or off + d > len(row):
                raise RefError("generator %s at offset %r does not fit a row of %d wires" % (b, off, len(row)))
            out = f(row[off:off + d])
            row = row[:off] + out + row[off + d:]
        return row


class MiniEval:
    """folds the integer / list / diagram expressions of the structural constructors (whitelisted node kinds; nothing from /repo runs)"""
    def __init__(self, env):
        self.env = env

    def ev(self, n, env):
        if isinstance(n, ast.Constant) and isinstance(n.value, (int, type(None))):
            return n.value
        if isinstance(n, ast.Name):
            if n.id in env:
                return env[n.id]
            if n.id in self.env:
                return self.env[n.id]
            raise Unsupported("name %s" % n.id)
        if isinstance(n, ast.BinOp):
            l, r = self.ev(n.left, env), self.ev(n.right, env)
            if isinstance(n.op, ast.MatMult):
                return l + r if isinstance(l, int) and isinstance(r, int) else l @ r        # PRO types are their widths
            if isinstance(n.op, ast.RShift):
                return l >> r
            if isinstance(n.op, ast.LShift):
                return r >> l
            if isinstance(n.op, ast.Add):
                return l + r
            if isinstance(n.op, ast.Sub):
                return l - r
            if isinstance(n.op, ast.Mult):
                return l * r
            if isinstance(n.op, ast.FloorDiv):
                return l // r
            raise Unsupported(ast.unparse(n))
        if isinstance(n, ast.UnaryOp) and isinstance(n.op, ast.USub):
            return -self.ev(n.operand, env)
        if isinstance(n, (ast.List, ast.Tuple)):
            out = []
            for e in n.elts:
                if isinstance(e, ast.Starred):
                    out += list(self.ev(e.value, env))
                else:
                    out.append(self.ev(e, env))
            return out if isinstance(n, ast.List) else tuple(out)
        if isinstance(n, (ast.ListComp, ast.GeneratorExp)):
            out = []

            def rec(k, e2):
                if k == len(n.generators):
                    out.append(self.ev(n.elt, e2))
                    return
                g = n.generators[k]
                if not isinstance(g.target, ast.Name):
                    raise Unsupported("comprehension target")
                for v in self.ev(g.iter, e2):
                    e3 = dict(e2, **{g.target.id: v})
                    if all(self.ev(c, e3) for c in g.ifs):
                        rec(k + 1, e3)
            rec(0, env)
            return out
        if isinstance(n, ast.Attribute):
            v = self.ev(n.value, env)
            if isinstance(v, RD) and n.attr in ("boxes", "offsets", "layers", "dom", "cod"):
                return getattr(v, n.attr)
            raise Unsupported(ast.unparse(n))
        if isinstance(n, ast.Call):
            f = ast.unparse(n.func)
            args = []
            for a in n.args:
                if isinstance(a, ast.Starred):
                    args += list(self.ev(a.value, env))
                else:
                    args.append(self.ev(a, env))
            if f == "range":
                return list(range(*args))
            if f == "len":
                return len(args[0]) if not isinstance(args[0], int) else args[0]
            if f == "PRO":
                return args[0] if args else 0
            if f == "Id":
                return RD(args[0] if args else 0, [], self.env["__gens__"])
            if isinstance(n.func, ast.Attribute) and n.func.attr == "tensor":
                return self.ev(n.func.value, env).tensor(*args)
            if f in self.env.get("__ctors__", {}):
                return self.env["__ctors__"][f](*args)
            raise Unsupported("call %s" % f)
        raise Unsupported("expression %s" % ast.unparse(n)[:60])

    def run_init(self, init, args):
        """fold the constructor body; returns the arguments of the final super().__init__(dom, cod, boxes, offsets[, layers=])"""
        env = dict(zip([a.arg for a in init.args.args[1:]], args))

        def block(body):
            for st in body:
                if isinstance(st, ast.Expr) and isinstance(st.value, ast.Constant):
                    continue
                if isinstance(st, ast.Assign) and len(st.targets) == 1:
                    v = self.ev(st.value, env)
                    t = st.targets[0]
                    if isinstance(t, ast.Name):
                        env[t.id] = v
                    elif isinstance(t, ast.Tuple) and all(isinstance(e, ast.Name) for e in t.elts) and len(t.elts) == len(v):
                        env.update({e.id: x for e, x in zip(t.elts, v)})
                    else:
                        raise Unsupported("assignment %s" % ast.unparse(st)[:50])
                    continue
                if isinstance(st, ast.For) and isinstance(st.target, ast.Name) and not st.orelse:
                    for v in self.ev(st.iter, env):
                        env[st.target.id] = v
                        r = block(st.body)
                        if r is not None:
                            return r
                    continue
                if isinstance(st, ast.Expr) and isinstance(st.value, ast.Call) and ast.unparse(st.value.func) == "super().__init__":
                    c = st.value
                    pos = [self.ev(a, env) for a in c.args]
                    kw = {k.arg: self.ev(k.value, env) for k in c.keywords}
                    return pos, kw
                raise Unsupported("statement %s" % ast.unparse(st)[:50])
            return None
        r = block(init.body)
        if r is None:
            raise Unsupported("constructor does not call super().__init__")
        return r


def lambda_on_labels(lam):
    """the function of a generating box, interpreted on tuples of labels"""
    a = lam.args

    def f(xs):
        if a.vararg and not a.args:
            env = {a.vararg.arg: tuple(xs)}
        elif not a.vararg:
            if len(a.args) != len(xs):
                raise RefError("lambda with %d parameters applied to %d wires" % (len(a.args), len(xs)))
            env = dict(zip([p.arg for p in a.args], xs))
        else:
            raise Unsupported("lambda parameters")
        v = MiniEval({}).ev(lam.body, env)
        return v if isinstance(v, tuple) else (v,)
    return f


BOUND = {"quick": 3, "thorough": 5}


def check_disco(ctx):
    """R19.2: the decorator disco(dom, cod, name) stores the decorated function in a Box with the declared arities, in this order"""
    m = ctx.model
    fn = m.func(CART + ".disco")
    ctx.analysed(CART + ".disco")
    dec = next((s for s in fn.body if isinstance(s, ast.FunctionDef)), None)
    ctx.need(dec is not None, "disco has no inner decorator")
    d, c, nm = (a.arg for a in fn.args.args[:3])
    f = dec.args.args[0].arg
    rets = [r for r in ast.walk(dec) if isinstance(r, ast.Return)]
    ctx.need(bool(rets), "disco's decorator returns nothing")
    for k, r in enumerate(rets):
        shape.match(ctx, "R19.2", "%s.disco:box@%d" % (CART, k), r.value, ["Box(func.__name__, dom, cod, func)", "Box(name, dom, cod, func)"], {d: "dom", c: "cod", nm: "name", f: "func"}, mod=CART, node=r,
                    sig="disco-box", required="Box(<name>, dom, cod, func): the declared number of inputs first, then of outputs, then the function itself")


def check_identity(ctx):
    """R19.3: Id(n) — which Swap / Copy / Discard are built from and the reference interpreter reads as `no box` — is the diagram on n wires without boxes"""
    m = ctx.model
    fn = m.func(CART + ".Id.__init__")
    ctx.analysed(CART + ".Id.__init__", CART + ".Diagram.id")
    sup = next((c for c in ast.walk(fn) if isinstance(c, ast.Call) and ast.unparse(c.func) == "super().__init__"), None)
    shape.match(ctx, "R19.3", CART + ".Id.__init__", sup, ["super().__init__(PRO(dom), PRO(dom), [], [], layers=None)", "super().__init__(PRO(dom), PRO(dom), [], [])", "super().__init__(dom, dom, [], [])",
                                                           "super().__init__(dom, dom, [], [], layers=None)"], {fn.args.args[1].arg: "dom"}, mod=CART, node=fn, sig="id-init",
                required="the diagram from dom to dom wires with no boxes")
    di = m.func(CART + ".Diagram.id")
    r = next((s.value for s in di.body if isinstance(s, ast.Return)), None)
    shape.match(ctx, "R19.3", CART + ".Diagram.id", r, "Id(dom)", {di.args.args[0].arg: "dom"}, mod=CART, node=di, sig="diagram-id")


def check_structural(ctx):
    m = ctx.model
    check_identity(ctx)
    consts = m.module_assigns.get(CART, {})
    gens = {}
    for g, want, spec in (("SWAP", (2, 2), lambda x: (x[1], x[0])), ("COPY", (1, 2), lambda x: (x[0], x[0])), ("DISCARD", (1, 0), lambda x: ())):
        v = consts.get(g)
        ctx.need(isinstance(v, ast.Call) and m.resolve_class(CART, ast.unparse(v.func)) is m.cls(CART + ".Box") and len(v.args) >= 4 and isinstance(v.args[3], ast.Lambda),
                 "generating box %s is not Box(name, dom, cod, lambda)" % g)
        try:
            d, c = MiniEval({}).ev(v.args[1], {}), MiniEval({}).ev(v.args[2], {})
            f = lambda_on_labels(v.args[3])
            labels = tuple("abc"[:d])
            try:
                got = f(labels) if d == want[0] else None
            except (TypeError, IndexError, ValueError) as e:
                got = "raises %s" % type(e).__name__
        except RefError as e:
            got = str(e)
        except Unsupported as e:
            raise AnalysisError("generating box %s: %s" % (g, e))
        ctx.ob("R19.3", "%s.%s" % (CART, g), (d, c) == want and got == spec(labels), found="%d -> %d, %s -> %s" % (d, c, labels, got), required="%d -> %d, %s -> %s" % (want + (tuple("abc"[:want[0]]), spec(tuple("abc"[:want[0]])))),
               mod=CART, node=v, sig="gen-" + g)
        gens[g] = (d, c, f)
    N = BOUND.get(ctx.tier, 3)
    base = {"__gens__": gens}
    for g in gens:
        base[g] = RD(gens[g][0], [(g, 0)], gens)
    me = MiniEval(base)

    def instance(cname, args, want):
        init = m.func("%s.%s.__init__" % (CART, cname))
        try:
            pos, kw = me.run_init(init, args)
            if len(pos) != 4:
                raise Unsupported("super().__init__ with %d positional arguments" % len(pos))
            dom, cod, boxes, offsets = pos
            if len(boxes) != len(offsets):
                return "boxes and offsets have different lengths (%d, %d)" % (len(boxes), len(offsets))
            names = []
            for b in boxes:
                if isinstance(b, RD) and len(b.items) == 1 and b.items[0][1] == 0:
                    names.append(b.items[0][0])
                elif isinstance(b, str):
                    names.append(b)
                else:
                    raise Unsupported("box list element %r" % (b,))
            d = RD(dom, zip(names, offsets), gens)
            labels = tuple(range(dom))
            if dom != len(want[0]):
                return "%d inputs, expected %d" % (dom, len(want[0]))
            got = d.run(want[0])
            if got != want[1]:
                return "%s -> %s" % (want[0], got)
            if cod != len(want[1]):
                return "declared with %d outputs, expected %d" % (cod, len(want[1]))
            if "layers" in kw and kw["layers"] is not None and kw["layers"] != ("layers-of", tuple(d.items), dom):
                return "the layers passed on belong to another diagram"
            return None
        except RefError as e:
            return str(e)
        except (TypeError, ZeroDivisionError, IndexError) as e:          # the arithmetic of the constructor itself fails on these arguments
            return "the constructor raises %s: %s" % (type(e).__name__, str(e)[:80])

    n_inst = 0
    for cname, domain, want in (
            ("Swap", [(l, r) for l in range(N + 1) for r in range(N + 1)], lambda l, r: (tuple(range(l + r)), tuple(range(l, l + r)) + tuple(range(l)))),
            ("Copy", [(n,) for n in range(N + 2)], lambda n: (tuple(range(n)), tuple(range(n)) * 2)),
            ("Discard", [(n,) for n in range(N + 2)], lambda n: (tuple(range(n)), ()))):
        ctx.analysed("%s.%s.__init__" % (CART, cname))
        bad = []
        try:
            for args in domain:
                r = instance(cname, list(args), want(*args))
                n_inst += 1
                if r:
                    bad.append("%s%r: %s" % (cname, tuple(args), r))
        except Unsupported as e:
            raise AnalysisError("%s.%s.__init__ outside the recognised idioms: %s" % (CART, cname, e))
        ctx.ob("R19.3", "%s.%s" % (CART, cname), not bad, found=bad[:3] or "%d widths evaluated on labels" % len(domain),
               required={"Swap": "(x, y) -> (y, x) as whole blocks", "Copy": "x -> (x, x) as whole blocks", "Discard": "x -> ()"}[cname] + " for all widths up to %d" % N, mod=CART,
               node=m.func("%s.%s.__init__" % (CART, cname)), sig="struct-" + cname)
    ctx.assumptions.append("R19.3 evaluates the structural constructors for widths up to %d (%d instances); larger widths follow the same comprehension / loop" % (N, n_inst))


def check(ctx):
    ctx.rule("R19.1", "Function algebra: typestate of the tuple-or-single-value convention, partition of the argument tuple, order of outputs, guards")
    ctx.rule("R19.2", "Diagram.__call__ is the functor into Functions on the boxes' own functions; Box.__call__ is Diagram.__call__")
    ctx.rule("R19.3", "generating boxes and Swap / Copy / Discard evaluated on wire labels by the reference interpreter")
    ctx.rule("R19.4", "the functor wiring (each box applied at its offset between identities) is the one decided by C04")
    ctx.attempt(check_function_algebra, ctx)
    ctx.attempt(check_call, ctx)
    ctx.attempt(check_disco, ctx)
    ctx.attempt(check_structural, ctx)
    try:
        ctx.depend("R19.4", "C04", "monoidal.Functor.__call__ applies id(left) @ F(box) @ id(right) layer by layer (C04)", rules={"R04.1", "R04.2"}, mod="discopy.monoidal")
    except AnalysisError:
        if not any(not o.ok for o in ctx.obs):
            raise
    ctx.floor("R19.1", 17)
    ctx.floor("R19.2", 6)
    ctx.floor("R19.3", 6)
    ctx.not_decided += ["user functions returning a tuple as a single value", "widths above the bound of R19.3"]
