import sys; sys.path.insert(0, '/tmp/spike')
from sa import c08
src = open('/repo/discopy/tensor.py').read()
muts = {
 'tensor: shifts exchanged': ("else i - len(self.cod) if i >= len(self.dom @ self.cod)\n            else i + len(other.dom) for i in source]", "else i + len(other.dom) if i >= len(self.dom @ self.cod)\n            else i - len(self.cod) for i in source]"),
 'tensor: -len(self.dom)': ("else i - len(self.cod) if i >= len(self.dom @ self.cod)", "else i - len(self.dom) if i >= len(self.dom @ self.cod)"),
 'tensor: boundary <= ': ("i if i < len(self.dom) or i >= len(self.dom @ self.cod @ other.dom)", "i if i <= len(self.dom) or i >= len(self.dom @ self.cod @ other.dom)"),
 'dagger: +len(self.dom)': ("[i + len(self.cod) if i < len(self.dom) else", "[i + len(self.dom) if i < len(self.dom) else"),
 'dagger: no conjugate': ("return Tensor(self.cod, self.dom, Tensor.np.conjugate(array))", "return Tensor(self.cod, self.dom, array)"),
 'swap: + len(left)': ("target = [i + len(right) if i < len(left @ right @ left)", "target = [i + len(left) if i < len(left @ right @ left)"),
 'swap: moves first half': ("source = range(len(left @ right), 2 * len(left @ right))", "source = range(0, len(left @ right))"),
 'BENIGN tensor temps': ("        source = range(len(dom @ cod))\n        target = [", "        n_sd = len(self.dom)\n        source = range(len(dom @ cod))\n        target = ["),
}
for name, (a, b) in muts.items():
    assert a in src, name
    open('/tmp/spike/m.py', 'w').write(src.replace(a, b, 1))
    msgs = []
    try: rc = c08.check('/tmp/spike/m.py', out=msgs.append)
    except Exception as e: rc = 'EXC %s: %s' % (type(e).__name__, e)
    v = [m for m in msgs if 'VIOLATION' in m or 'ANALYSIS' in m]
    print('%-32s rc=%s %s' % (name, rc, (v[0] if v else '')[:200]))
