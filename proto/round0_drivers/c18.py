"""Prototype R18.1: type preservation of rigid.Diagram.fa/ba/fc/bc/fx/bx/curry on symbolic multi-wire types."""
import ast, sys, itertools
from .lin import Lin, Facts
from .words import Seq, Seg, Atom, Unlocatable
from .beval import Obj, Closure, Unsupported, Undecided, Obligation
from .c04 import Ev, TD
from .c10 import find_method, swap_contract


def spec_over(a, b):      # F(a << b) = F a . (F b).l
    return a + b.l


def spec_under(a, b):     # F(a >> b) = (F a).r . F b
    return a.r + b


def make_env(ev):
    def cups(l, r):
        ok = l.r.same(r, ev.facts) or l.same(r.r, ev.facts)
        ev.obligations.append(Obligation("adjoint", (l, r), "l.r == r or l == r.r", ev.where, ok))
        return TD(l + r, Seq())

    def caps(l, r):
        ok = l.r.same(r, ev.facts) or l.same(r.r, ev.facts)
        ev.obligations.append(Obligation("adjoint", (l, r), "l.r == r or l == r.r", ev.where, ok))
        return TD(Seq(), l + r)
    D = Obj("Factory", id=Closure(lambda t: TD(t, t)), cups=Closure(cups), caps=Closure(caps), swap=Closure(swap_contract))
    return {"Id": Closure(lambda t=Seq(): TD(t, t)), "Diagram": D}


def forks(atoms):
    """all assignments of {=0, >=1} to the lengths of the given atoms"""
    for choice in itertools.product((0, 1), repeat=len(atoms)):
        f = Facts()
        for a, c in zip(atoms, choice):
            f = f.with_eq(a.length, 0) if c == 0 else f.extend(a.length - 1)
        yield choice, f


def run_method(path, name, args, facts):
    fn = find_method(path, "Diagram", name)
    ev = Ev(facts, "rigid.Diagram." + name)
    env = make_env(ev)
    for p, v in zip([a.arg for a in fn.args.args], args):
        env[p] = v
    for p, d in zip(reversed([a.arg for a in fn.args.args]), reversed(fn.args.defaults)):
        env.setdefault(p, ev.ev(d, {}))
    r = ev.run(fn.body, env)
    assert r and r[0] == "return", r
    return ev, r[1]


def check(path="/repo/discopy/rigid.py", out=print):
    A, B, C = Atom("A"), Atom("B"), Atom("C")
    a, b, c = Seq.atom(A), Seq.atom(B), Seq.atom(C)
    fails, n_ok = [], 0
    # (method, args as routed by biclosed.Functor, spec dom, spec cod)
    table = [
        ("fa", (spec_over(a, b), b), spec_over(a, b) + b, a),                                   # FA(a << b): (a<<b) @ b -> a
        ("ba", (a, spec_under(a, b)), a + spec_under(a, b), b),                                   # BA(a >> b): a @ (a>>b) -> b
        ("fc", (a, b, c), spec_over(a, b) + spec_over(b, c), spec_over(a, c)),                    # FC(a<<b, b<<c)
        ("bc", (a, b, c), spec_under(a, b) + spec_under(b, c), spec_under(a, c)),                 # BC(a>>b, b>>c)
        ("fx", (a, b, c), spec_over(a, b) + spec_under(c, b), spec_under(c, a)),                  # FX(a<<b, c>>b) -> c >> a
        ("bx", (a, b, c), spec_over(b, a) + spec_under(b, c), spec_over(c, a)),                   # BX(b<<a, b>>c) -> c << a
    ]
    for name, args, sdom, scod in table:
        for choice, facts in forks([A, B, C]):
            try:
                ev, res = run_method(path, name, args, facts)
            except (Unlocatable, Unsupported, Undecided) as e:
                fails.append("R18.1 %s %r: %s: %s" % (name, choice, type(e).__name__, e)); continue
            bad = [o for o in ev.obligations if not o.ok]
            if not res.f["dom"].same(sdom, ev.facts) or not res.f["cod"].same(scod, ev.facts) or bad:
                fails.append("R18.1 %s %r: type %r -> %r, spec %r -> %r%s" % (name, choice, res.f["dom"], res.f["cod"], sdom, scod,
                                                                           "; " + "; ".join(map(repr, bad)) if bad else ""))
            else:
                n_ok += 1
    # curry: diagram : X @ Wr -> Y  (right)  /  Wl @ X -> Y (left), n_wires = |W| >= 1
    X, Y, Wt = Atom("X"), Atom("Y"), Atom("W")
    x, y, w = Seq.atom(X), Seq.atom(Y), Seq.atom(Wt)
    for left in (False, True):
        for choice, facts in forks([X]):
            facts = facts.extend(Wt.length - 1)
            dg = TD(w + x, y) if left else TD(x + w, y)
            try:
                ev, res = run_method(path, "curry", (dg, Wt.length, left), facts)
            except (Unlocatable, Unsupported, Undecided) as e:
                fails.append("R18.1 curry left=%s %r: %s: %s" % (left, choice, type(e).__name__, e)); continue
            sdom, scod = x, (spec_under(w, y) if left else spec_over(y, w))
            bad = [o for o in ev.obligations if not o.ok]
            if not res.f["dom"].same(sdom, ev.facts) or not res.f["cod"].same(scod, ev.facts) or bad:
                fails.append("R18.1 curry left=%s: type %r -> %r, spec %r -> %r %s" % (left, res.f["dom"], res.f["cod"], sdom, scod, bad))
            else:
                n_ok += 1
    for f in fails:
        out("VIOLATION-CANDIDATE " + f)
    if not fails:
        out("  R18.1 ok: %d (method, emptiness case) instances type-preserving" % n_ok)
    return 1 if fails else 0


if __name__ == "__main__":
    sys.exit(check())
