"""Normalisations that undo the commonest clean-up refactorings (all behaviour-preserving, all driven by what the tree looked like when the
rules were confirmed -- sa/exits_table.json lists every function of that tree, sa/ifs_table.json its one-armed conditional assignments):

  * a function that did not exist then, whose body is one `return E`, is an extracted helper: its calls are replaced by E with the
    parameters substituted (the duplicated expression the rules were written against comes back);
  * a function that did not exist then, whose name (modulo a leading underscore) and parameters are those of a nested function that has
    disappeared from its recorded parent, is that nested function moved out: it is put back (the calls in the parent are renamed);
  * a local that did not exist then, assigned once from an expression without mutating calls whose inputs are not re-bound afterwards, is
    a hoisted / explaining variable however often it is read: it is substituted back;
  * `if c: x = E` that did not exist then is `x = E if c else x`.

Nothing here decides a property: the rules run on the tree that results, and that tree denotes the same program."""
import ast
import copy
import json
import os

from . import alpha
from .names import index_functions, EXITS_TABLE

IFS_TABLE = os.path.join(os.path.dirname(os.path.abspath(__file__)), "ifs_table.json")


def load_exits():
    return json.load(open(EXITS_TABLE)) if os.path.exists(EXITS_TABLE) else {}


def _body_wo_doc(fn):
    b = fn.body
    if b and isinstance(b[0], ast.Expr) and isinstance(b[0].value, ast.Constant) and isinstance(b[0].value.value, str):
        b = b[1:]
    return b


class _ParamSubst(ast.NodeTransformer):
    def __init__(self, mapping):
        self.mapping = mapping

    def visit_Name(self, n):
        if isinstance(n.ctx, ast.Load) and n.id in self.mapping:
            return copy.deepcopy(self.mapping[n.id])
        return n


def _bind(fn, call, receiver):
    """parameter name -> argument expression of `call` against the signature of `fn` (None when the call cannot be bound statically)"""
    a = fn.args
    if a.vararg or a.kwarg or a.kwonlyargs or a.posonlyargs or any(isinstance(x, ast.Starred) for x in call.args) or any(k.arg is None for k in call.keywords):
        return None
    params = [p.arg for p in a.args]
    args = list(call.args)
    if receiver is not None:
        args = [receiver] + args
    if len(args) > len(params):
        return None
    m = dict(zip(params, args))
    for k in call.keywords:
        if k.arg not in params or k.arg in m:
            return None
        m[k.arg] = k.value
    defaults = dict(zip(params[len(params) - len(a.defaults):], a.defaults))
    for p in params:
        if p not in m:
            if p not in defaults:
                return None
            m[p] = defaults[p]
    return m


def _is_static(fn):
    return any(isinstance(d, ast.Name) and d.id in ("staticmethod",) for d in fn.decorator_list)


def inline_new_helpers(modules, exits):
    """returns the list of 'module.qualname' of helpers inlined (the definitions are removed when every call was replaced)"""
    done = []
    # ---- discover: new single-return functions, by bare name (must be unique in the package among NEW functions and not clash with a recorded one)
    cands = {}
    recorded_names = set()
    for mod, tree in modules.items():
        rec = exits.get(mod)
        funcs, classes = index_functions(mod, tree)
        for q, f in funcs.items():
            bare = q.rsplit(".", 1)[-1]
            if rec is not None and q not in rec:
                body = _body_wo_doc(f)
                if len(body) == 1 and isinstance(body[0], ast.Return) and body[0].value is not None and not f.decorator_list[1:] and \
                        not any(isinstance(n, (ast.Yield, ast.YieldFrom, ast.Lambda)) for n in ast.walk(body[0].value)):
                    parent = q.rsplit(".", 1)[0] if "." in q else None
                    kind = "method" if parent in classes else "nested" if parent else "module"
                    cands.setdefault(bare, []).append((mod, q, f, kind))
            else:
                recorded_names.add(bare)
    for bare, lst in sorted(cands.items()):
        if len(lst) != 1 or bare in recorded_names or bare.startswith("__"):
            continue
        mod, q, f, kind = lst[0]
        if kind == "method" and f.decorator_list and not _is_static(f):
            continue
        # a recursive helper is not inlined
        if any(isinstance(n, ast.Name) and n.id == bare or (kind == "method" and isinstance(n, ast.Attribute) and n.attr == bare) for n in ast.walk(f)):
            continue
        expr = _body_wo_doc(f)[0].value
        replaced, failed = [0], [0]

        class T(ast.NodeTransformer):
            def visit_Call(self, c):
                self.generic_visit(c)
                recv = None
                if isinstance(c.func, ast.Name) and c.func.id == bare and kind in ("module", "nested"):
                    pass
                elif isinstance(c.func, ast.Attribute) and c.func.attr == bare:
                    if kind == "method" and not _is_static(f):
                        # Class.helper(self, ...) passes the receiver explicitly; obj.helper(...) passes obj
                        if isinstance(c.func.value, ast.Name) and c.func.value.id[:1].isupper():
                            recv = None
                        else:
                            recv = c.func.value
                    elif kind == "nested":
                        return c
                else:
                    return c
                m = _bind(f, c, recv)
                if m is None:
                    failed[0] += 1
                    return c
                replaced[0] += 1
                return ast.copy_location(_ParamSubst(m).visit(copy.deepcopy(expr)), c)

        for m2, t2 in modules.items():
            if kind != "module" and m2 != mod and kind == "nested":
                continue
            t = T()
            for i, st in enumerate(t2.body):
                t2.body[i] = t.visit(st)
        # the helper passed as a value is the lambda with the same parameters and body (plain positional parameters only)
        a_ = f.args
        if kind in ("module", "nested") and not (a_.vararg or a_.kwarg or a_.kwonlyargs or a_.posonlyargs):
            class V(ast.NodeTransformer):
                def visit_Call(self, c):
                    if isinstance(c.func, ast.Name) and c.func.id == bare:
                        c.args = [self.visit(x) for x in c.args]
                        c.keywords = [self.visit(x) for x in c.keywords]
                        return c
                    return self.generic_visit(c)

                def visit_Name(self, n_):
                    if n_.id == bare and isinstance(n_.ctx, ast.Load):
                        replaced[0] += 1
                        return ast.copy_location(ast.Lambda(args=copy.deepcopy(f.args), body=copy.deepcopy(expr)), n_)
                    return n_

                def visit_FunctionDef(self, d):
                    return d if d is f else self.generic_visit(d)
            for m2, t2 in modules.items():
                if kind == "nested" and m2 != mod:
                    continue
                if kind == "module" and m2 != mod:
                    continue
                for i, st in enumerate(t2.body):
                    t2.body[i] = V().visit(st)
        # bare mentions that remain keep the definition alive
        left = sum(1 for t2 in modules.values() for n in ast.walk(t2) if (isinstance(n, ast.Name) and n.id == bare and isinstance(n.ctx, ast.Load)) or (kind != "nested" and isinstance(n, ast.Attribute) and n.attr == bare))
        if replaced[0] and not failed[0] and not left:
            _remove_def(modules[mod], f)
            done.append("%s.%s (%d call%s)" % (mod, q, replaced[0], "" if replaced[0] == 1 else "s"))
        elif replaced[0]:
            done.append("%s.%s (%d calls; definition kept)" % (mod, q, replaced[0]))
    for t in modules.values():
        ast.fix_missing_locations(t)
    return done


def _remove_def(tree, f):
    for node in ast.walk(tree):
        for field in ("body", "orelse", "finalbody"):
            body = getattr(node, field, None)
            if isinstance(body, list) and f in body:
                body.remove(f)
                if not body and field == "body":
                    body.append(ast.copy_location(ast.Pass(), f))
                return


def renest_moved_functions(modules, exits):
    """a recorded nested function P.g that is gone from P, while a NEW function g / _g exists (module level or method) whose trailing parameters are
    those g had, that only P uses, and whose extra leading parameters (what the closure captured) get the same plain expression at every call in P:
    the definition is moved back into P (captured parameters substituted, calls renamed)."""
    done = []
    nested = _nested_params()
    for mod, tree in modules.items():
        rec = exits.get(mod)
        if rec is None:
            continue
        funcs, classes = index_functions(mod, tree)
        missing = [q for q in rec if q not in funcs and "." in q and q.rsplit(".", 1)[0] in funcs and q.rsplit(".", 1)[0] not in classes]
        for q in sorted(missing):
            old_params = nested.get(mod, {}).get(q)
            if old_params is None:
                continue
            parent_q, g = q.rsplit(".", 1)
            parent = funcs[parent_q]
            new = [(q2, f2) for q2, f2 in funcs.items() if q2 not in rec and q2.rsplit(".", 1)[-1].lstrip("_") == g.lstrip("_") and f2 is not parent]
            if len(new) != 1:
                continue
            q2, f2 = new[0]
            bare2 = q2.rsplit(".", 1)[-1]
            is_method = "." in q2 and q2.rsplit(".", 1)[0] in classes and not _is_static(f2)
            if f2.decorator_list and not _is_static(f2):
                continue
            params = [p.arg for p in f2.args.args]
            captured = [p_ for p_ in params if p_ not in old_params]
            if [p_ for p_ in params if p_ in old_params] != old_params or (f2.args.defaults and any(p_ in captured for p_ in params[len(params) - len(f2.args.defaults):])):
                continue

            def mentions(node):
                return [n for n in ast.walk(node) if (isinstance(n, ast.Name) and n.id == bare2 and isinstance(n.ctx, ast.Load)) or (isinstance(n, ast.Attribute) and n.attr == bare2)]
            calls = [c for c in ast.walk(parent) if isinstance(c, ast.Call) and c.func in mentions(c.func)[:1]]
            everywhere = sum(len(mentions(t2)) for t2 in modules.values()) - len(mentions(f2))
            if not calls or everywhere != len(calls):
                continue              # also used elsewhere (or passed as a value): it really is a shared function now
            bound, ok = [], True
            for c in calls:
                recv = None
                if is_method and isinstance(c.func, ast.Attribute) and not (isinstance(c.func.value, ast.Name) and c.func.value.id[:1].isupper()):
                    recv = c.func.value
                m = _bind(f2, c, recv)
                if m is None:
                    ok = False
                    break
                explicit = {p for p, v in m.items() if not any(v is d for d in f2.args.defaults)}
                bound.append((c, m, explicit))
            if not ok:
                continue
            cap = {}
            for p in captured:
                dumps = {ast.dump(m[p]) for _, m, _ in bound}
                v = bound[0][1][p]
                if len(dumps) != 1 or not isinstance(v, (ast.Name, ast.Attribute, ast.Call)) or any(isinstance(x, ast.Call) and not (isinstance(x.func, ast.Name) and x.func.id == "type") for x in ast.walk(v)):
                    ok = False
                    break
                cap[p] = v
            if not ok:
                continue
            nf = copy.deepcopy(f2)
            nf.name, nf.decorator_list = g, []
            nf.args.args = [a_ for a_ in nf.args.args if a_.arg not in captured]
            sub = _ParamSubst({p: v for p, v in cap.items() if not (isinstance(v, ast.Name) and v.id == p)})
            nf.body = [sub.visit(st) for st in nf.body]
            if bare2 != g:                       # recursive mentions
                for x in ast.walk(nf):
                    if isinstance(x, ast.Name) and x.id == bare2:
                        x.id = g
            for c, m, explicit in bound:
                c.func = ast.copy_location(ast.Name(id=g, ctx=ast.Load()), c.func)
                c.args = [m[p] for p in old_params if p in explicit]
                c.keywords = []
            doc = 1 if parent.body and isinstance(parent.body[0], ast.Expr) and isinstance(parent.body[0].value, ast.Constant) and isinstance(parent.body[0].value.value, str) else 0
            # put back just before the statement that calls it when all the calls sit in one statement of one block (where a closure is usually defined), else on top
            spot = None
            for node in ast.walk(parent):
                for field in ("body", "orelse", "finalbody"):
                    blk = getattr(node, field, None)
                    if isinstance(blk, list) and blk and all(isinstance(x, ast.stmt) for x in blk):
                        holders = [k for k, x in enumerate(blk) if not isinstance(x, (ast.If, ast.For, ast.While, ast.Try, ast.With, ast.FunctionDef)) and any(c_ is y for c_, _, _ in bound for y in ast.walk(x))]
                        inner = sum(1 for x in blk for c_, _, _ in bound if any(c_ is y for y in ast.walk(x)))
                        if len(holders) == 1 and inner == len(bound) and node is not parent:
                            spot = (blk, holders[0])
            if spot is not None:
                spot[0].insert(spot[1], nf)
            else:
                parent.body.insert(doc, nf)
            _remove_def(tree, f2)
            ast.fix_missing_locations(tree)
            done.append("%s.%s <- %s" % (mod, q, q2))
    return done


_NP = None


def _nested_params():
    global _NP
    if _NP is None:
        _NP = json.load(open(IFS_TABLE)).get("nested_params", {}) if os.path.exists(IFS_TABLE) else {}
    return _NP


# ---------------------------------------------------------------------------------------------------------------------
# hoisted / explaining variables read more than once
# ---------------------------------------------------------------------------------------------------------------------
class _SubstAll(ast.NodeTransformer):
    """substitutes loads of one name, also inside comprehensions (evaluated on the spot) unless they re-bind a name the value reads; refuses closures"""

    def __init__(self, name, value, reads):
        self.name, self.value, self.reads, self.n, self.blocked = name, value, reads, 0, False

    def visit_Name(self, n):
        if n.id == self.name and isinstance(n.ctx, ast.Load):
            self.n += 1
            return copy.deepcopy(self.value)
        return n

    def _closure(self, n):
        if any(isinstance(x, ast.Name) and x.id == self.name for x in ast.walk(n)):
            self.blocked = True
        return n

    visit_Lambda = visit_FunctionDef = visit_AsyncFunctionDef = _closure

    def _comp(self, n):
        bound = {x.id for g in n.generators for x in ast.walk(g.target) if isinstance(x, ast.Name)}
        if bound & (self.reads | {self.name}):
            if any(isinstance(x, ast.Name) and x.id == self.name for x in ast.walk(n)):
                self.blocked = True
            return n
        return self.generic_visit(n)

    visit_ListComp = visit_SetComp = visit_DictComp = visit_GeneratorExp = _comp


def mutated_through(fn, t):
    """the object bound to `t` is changed in place somewhere in fn: t[i] = .. / t.a = .. / del t[i] / t.append(..) ... (then `t` is not an explaining variable)"""
    for n in ast.walk(fn):
        if isinstance(n, (ast.Subscript, ast.Attribute)) and isinstance(n.ctx, (ast.Store, ast.Del)):
            b = n
            while isinstance(b, (ast.Subscript, ast.Attribute)):
                b = b.value
            if isinstance(b, ast.Name) and b.id == t:
                return True
        if isinstance(n, ast.AugAssign):
            b = n.target
            while isinstance(b, (ast.Subscript, ast.Attribute)):
                b = b.value
            if isinstance(b, ast.Name) and b.id == t:
                return True
        if isinstance(n, ast.Call) and isinstance(n.func, ast.Attribute) and n.func.attr in alpha.MUTATORS and isinstance(n.func.value, ast.Name) and n.func.value.id == t:
            return True
    return False


def inline_hoisted(tree, expected):
    removed = []
    for key, fn in alpha.scopes(tree):
        exp = expected.get(key)
        if exp is None or not isinstance(fn, (ast.FunctionDef, ast.AsyncFunctionDef)):
            continue
        changed = True
        while changed:
            changed = False
            new = [b for b in alpha.bindings(fn) if b not in exp]
            if not new:
                break
            for owner in [fn] + [n for n in alpha.own_nodes(fn) if not isinstance(n, alpha.SCOPES)]:
                for field in ("body", "orelse", "finalbody"):
                    body = getattr(owner, field, None)
                    if not (isinstance(body, list) and body and all(isinstance(s, ast.stmt) for s in body)):
                        continue
                    for i, st in enumerate(body):
                        if not (isinstance(st, ast.Assign) and len(st.targets) == 1 and isinstance(st.targets[0], ast.Name) and st.targets[0].id in new and alpha._pure_looking(st.value)):
                            continue
                        t = st.targets[0].id
                        own = list(alpha.own_nodes(fn))
                        stores = sum(1 for n in own if isinstance(n, ast.Name) and n.id == t and isinstance(n.ctx, (ast.Store, ast.Del)))
                        if stores != 1 or mutated_through(fn, t) or any(t in alpha.free_names(n) for n in own if isinstance(n, alpha.SCOPES) and not isinstance(n, (ast.ListComp, ast.SetComp, ast.DictComp, ast.GeneratorExp))):
                            continue
                        reads = {n.id for n in ast.walk(st.value) if isinstance(n, ast.Name)} - {n.id for n in ast.walk(st.value) if isinstance(n, ast.Name) and isinstance(n.ctx, ast.Store)}
                        rest = body[i + 1:]
                        loads_total = sum(1 for n in own if isinstance(n, ast.Name) and n.id == t and isinstance(n.ctx, ast.Load))
                        for s in [x for r in rest for x in ast.walk(r)]:
                            pass
                        loads_rest = sum(1 for r in rest for n in ast.walk(r) if isinstance(n, ast.Name) and n.id == t and isinstance(n.ctx, ast.Load))
                        # comprehension-internal loads are not `own` nodes of fn in every implementation of own_nodes: count by walking the whole function
                        loads_all = sum(1 for n in ast.walk(fn) if isinstance(n, ast.Name) and n.id == t and isinstance(n.ctx, ast.Load))
                        if loads_rest == 0 or loads_rest != loads_all:
                            continue              # read before the assignment or outside the rest of its block (e.g. in the next iteration of a loop)
                        rebound, dirty = False, False
                        heapy = any(isinstance(n, (ast.Attribute, ast.Subscript, ast.Call)) for n in ast.walk(st.value))
                        for r in rest:                 # a read name re-bound BEFORE a later read of the temporary changes what the expression means there
                            has_load = any(isinstance(n, ast.Name) and n.id == t and isinstance(n.ctx, ast.Load) for n in ast.walk(r))
                            has_store = any(isinstance(n, ast.Name) and n.id in reads and isinstance(n.ctx, (ast.Store, ast.Del)) for n in ast.walk(r))
                            if heapy and not has_store:           # the value reads attributes / items / calls: a write into some object in between may change it
                                has_store = any((isinstance(n, (ast.Attribute, ast.Subscript)) and isinstance(n.ctx, (ast.Store, ast.Del))) or
                                                (isinstance(n, ast.Call) and isinstance(n.func, ast.Attribute) and n.func.attr in alpha.MUTATORS) for n in ast.walk(r))
                            if has_load and (dirty or (has_store and not isinstance(r, (ast.Assign, ast.AugAssign, ast.AnnAssign)))):
                                rebound = True
                                break
                            dirty = dirty or has_store
                        in_loop = isinstance(owner, (ast.For, ast.While)) and field == "body"
                        if rebound or (dirty and not in_loop and False):
                            continue
                        sub = _SubstAll(t, st.value, reads)
                        trial = [sub.visit(copy.deepcopy(r)) for r in rest]
                        if sub.blocked or sub.n != loads_rest:
                            continue
                        body[i:] = trial
                        removed.append("%s:%s" % (key, t))
                        changed = True
                        break
                    if changed:
                        break
                if changed:
                    break
        ast.fix_missing_locations(fn)
    return removed


# ---------------------------------------------------------------------------------------------------------------------
# one-armed conditional assignment
# ---------------------------------------------------------------------------------------------------------------------
def _if_key(st):
    t = st.test
    while isinstance(t, ast.UnaryOp) and isinstance(t.op, ast.Not):
        t = t.operand
    return "%s|%s" % (st.body[0].targets[0].id, ast.dump(t))


def _one_armed(st):
    return isinstance(st, ast.If) and len(st.body) == 1 and not st.orelse and isinstance(st.body[0], ast.Assign) and len(st.body[0].targets) == 1 and isinstance(st.body[0].targets[0], ast.Name)


def ifs_table_of(tree):
    return sorted({_if_key(n) for n in ast.walk(tree) if _one_armed(n)})


def nested_params_of(mod, tree):
    funcs, classes = index_functions(mod, tree)
    return {q: [p.arg for p in f.args.args] for q, f in funcs.items() if "." in q and q.rsplit(".", 1)[0] in funcs and q.rsplit(".", 1)[0] not in classes}


def load_ifs():
    if not os.path.exists(IFS_TABLE):
        return {}
    return {k: set(v) for k, v in json.load(open(IFS_TABLE)).get("ifs", {}).items()}


def merge_one_armed(tree, recorded, expected):
    """`if c: x = E` (not recorded; x bound before: a parameter or an earlier assignment in the same function) -> `x = E if c else x`"""
    n = 0
    for key, fn in alpha.scopes(tree):
        if not isinstance(fn, (ast.FunctionDef, ast.AsyncFunctionDef)):
            continue
        params = set(alpha.params_of(fn))
        for owner in [fn] + [x for x in alpha.own_nodes(fn) if not isinstance(x, alpha.SCOPES)]:
            for field in ("body", "orelse", "finalbody"):
                body = getattr(owner, field, None)
                if not (isinstance(body, list) and body and all(isinstance(s, ast.stmt) for s in body)):
                    continue
                for k, st in enumerate(body):
                    if _one_armed(st) and _if_key(st) not in recorded:
                        x = st.body[0].targets[0].id
                        before = x in params or any(isinstance(p, ast.Assign) and any(isinstance(t, ast.Name) and t.id == x for t in p.targets) for p in body[:k])
                        if not before:
                            continue
                        new = ast.Assign(targets=[ast.Name(id=x, ctx=ast.Store())], value=ast.IfExp(test=st.test, body=st.body[0].value, orelse=ast.Name(id=x, ctx=ast.Load())))
                        if isinstance(st.test, ast.UnaryOp) and isinstance(st.test.op, ast.Not) and isinstance(st.test.operand, ast.Name) and st.test.operand.id == x:
                            new.value = ast.BoolOp(op=ast.Or(), values=[ast.Name(id=x, ctx=ast.Load()), st.body[0].value])           # if not x: x = E   is   x = x or E
                        ast.copy_location(new, st)
                        ast.fix_missing_locations(new)
                        body[k] = new
                        n += 1
    return n


# ---------------------------------------------------------------------------------------------------------------------
# decision split from action:  if c1: f = True  elif c2: f = False  else: raise ... ;  if f: A  else: B
# ---------------------------------------------------------------------------------------------------------------------
def fuse_flag_dispatch(tree, expected):
    """an if/elif chain whose arms only set one NEW boolean local (or leave), followed at once by `if flag: A else: B` (the only read of the flag), is the
    chain with A / B in the arms.  Returns how many were fused."""
    n = 0
    for key, fn in alpha.scopes(tree):
        exp = expected.get(key)
        if exp is None or not isinstance(fn, (ast.FunctionDef, ast.AsyncFunctionDef)):
            continue
        for owner in [fn] + [x for x in alpha.own_nodes(fn) if not isinstance(x, alpha.SCOPES)]:
            for field in ("body", "orelse", "finalbody"):
                body = getattr(owner, field, None)
                if not (isinstance(body, list) and len(body) >= 2 and all(isinstance(s, ast.stmt) for s in body)):
                    continue
                k = 0
                while k + 1 < len(body):
                    st, nxt = body[k], body[k + 1]
                    k += 1
                    if not (isinstance(st, ast.If) and isinstance(nxt, ast.If) and nxt.orelse):
                        continue
                    t, neg = nxt.test, False
                    while isinstance(t, ast.UnaryOp) and isinstance(t.op, ast.Not):
                        t, neg = t.operand, not neg
                    if not (isinstance(t, ast.Name) and t.id not in exp):
                        continue
                    flag = t.id
                    if sum(1 for x in ast.walk(fn) if isinstance(x, ast.Name) and x.id == flag and isinstance(x.ctx, ast.Load)) != 1:
                        continue
                    arms, cur, ok = [], st, True
                    while True:
                        arms.append(cur)
                        if len(cur.orelse) == 1 and isinstance(cur.orelse[0], ast.If):
                            cur = cur.orelse[0]
                        else:
                            break
                    bodies = [(a, "body") for a in arms] + [(arms[-1], "orelse")]
                    plan = []
                    for a, f in bodies:
                        b = getattr(a, f)
                        if len(b) == 1 and isinstance(b[0], ast.Assign) and len(b[0].targets) == 1 and isinstance(b[0].targets[0], ast.Name) and b[0].targets[0].id == flag \
                                and isinstance(b[0].value, ast.Constant) and isinstance(b[0].value.value, bool):
                            plan.append((a, f, b[0].value.value != neg))
                        elif b and isinstance(b[-1], (ast.Raise, ast.Return)) and not any(isinstance(x, ast.Name) and x.id == flag for s in b for x in ast.walk(s)):
                            plan.append((a, f, None))
                        else:
                            ok = False
                            break
                    if not ok or not any(p[2] is not None for p in plan):
                        continue
                    for a, f, val in plan:
                        if val is not None:
                            setattr(a, f, copy.deepcopy(nxt.body if val else nxt.orelse))
                    del body[k]
                    n += 1
        ast.fix_missing_locations(fn)
    return n


def unstar_literals(tree):
    """f(*(a, b)) is f(a, b): a starred tuple / list display in a call is its elements"""
    n = 0
    for c in ast.walk(tree):
        if isinstance(c, ast.Call) and any(isinstance(a, ast.Starred) and isinstance(a.value, (ast.Tuple, ast.List)) and not any(isinstance(e, ast.Starred) for e in a.value.elts) for a in c.args):
            args = []
            for a in c.args:
                if isinstance(a, ast.Starred) and isinstance(a.value, (ast.Tuple, ast.List)) and not any(isinstance(e, ast.Starred) for e in a.value.elts):
                    args += a.value.elts
                    n += 1
                else:
                    args.append(a)
            c.args = args
    return n


def _neg_final_guards(tree):
    for node in ast.walk(tree):
        for field in ("body", "orelse", "finalbody"):
            body = getattr(node, field, None)
            if not (isinstance(body, list) and len(body) >= 2 and all(isinstance(s, ast.stmt) for s in body)):
                continue
            g, last = body[-2], body[-1]
            if isinstance(g, ast.If) and not g.orelse and len(g.body) == 1 and isinstance(g.body[0], ast.Return) and isinstance(last, ast.Return) \
                    and isinstance(g.test, ast.UnaryOp) and isinstance(g.test.op, ast.Not):
                yield body, g, last


def neg_guards_of(tree):
    """the functions that have a negated final guard (by qualified name: a change inside the test must not make the guard look new)"""
    funcs, _ = index_functions("", tree)
    return sorted(q for q, f in funcs.items() if any(True for _ in _neg_final_guards(f)))


def load_neg_guards():
    if not os.path.exists(IFS_TABLE):
        return {}
    return {k: set(v) for k, v in json.load(open(IFS_TABLE)).get("neg_guards", {}).items()}


def swap_negated_final_guard(tree, recorded):
    """`if not c: return A` directly followed by `return B` as the last statement of the block is `if c: return B` ; `return A` (only where the
    confirmed tree did not already have that negated guard)"""
    n = 0
    funcs, _ = index_functions("", tree)
    for q, f in funcs.items():
        if q in recorded:
            continue
        for body, g, last in list(_neg_final_guards(f)):
            g.test = g.test.operand
            g.body[0], body[-1] = last, g.body[0]
            n += 1
    return n


def _unused_swap(tree):
    n = 0
    for node in ast.walk(tree):
        for field in ("body", "orelse", "finalbody"):
            body = getattr(node, field, None)
            if not (isinstance(body, list) and len(body) >= 2 and all(isinstance(s, ast.stmt) for s in body)):
                continue
            g, last = body[-2], body[-1]
            if isinstance(g, ast.If) and not g.orelse and len(g.body) == 1 and isinstance(g.body[0], ast.Return) and isinstance(last, ast.Return) \
                    and isinstance(g.test, ast.UnaryOp) and isinstance(g.test.op, ast.Not):
                g.test = g.test.operand
                g.body[0], body[-1] = last, g.body[0]
                n += 1
    return n


# ---------------------------------------------------------------------------------------------------------------------
# x if x else y  is  x or y ;  a parameter re-bound once from itself and read once is the expression at the read
# ---------------------------------------------------------------------------------------------------------------------
def ifexp_to_or(tree):
    n = 0

    class T(ast.NodeTransformer):
        def visit_IfExp(self, e):
            nonlocal n
            self.generic_visit(e)
            if isinstance(e.test, (ast.Name, ast.Attribute)) and ast.dump(e.test) == ast.dump(e.body):
                n += 1
                return ast.copy_location(ast.BoolOp(op=ast.Or(), values=[e.body, e.orelse]), e)
            return e
    T().visit(tree)
    ast.fix_missing_locations(tree)
    return n


def param_rebinds_of(mod, tree):
    funcs, _ = index_functions(mod, tree)
    out = []
    for q, f in funcs.items():
        params = {a.arg for a in f.args.args + f.args.kwonlyargs}
        for st in ast.walk(f):
            if isinstance(st, ast.Assign) and len(st.targets) == 1 and isinstance(st.targets[0], ast.Name) and st.targets[0].id in params:
                out.append("%s|%s" % (q, st.targets[0].id))
    return sorted(set(out))


def load_param_rebinds():
    if not os.path.exists(IFS_TABLE):
        return {}
    return {k: set(v) for k, v in json.load(open(IFS_TABLE)).get("param_rebinds", {}).items()}


def inline_param_rebinds(mod, tree, recorded):
    """`p = E(p)` (p a parameter that the confirmed tree never re-bound; top level of the function; E without mutating calls), p read exactly once afterwards
    and nowhere else, and nothing E reads re-bound in between: the read is E."""
    done = []
    funcs, _ = index_functions(mod, tree)
    for q, f in funcs.items():
        params = {a.arg for a in f.args.args + f.args.kwonlyargs}
        for i, st in enumerate(list(f.body)):
            if not (isinstance(st, ast.Assign) and len(st.targets) == 1 and isinstance(st.targets[0], ast.Name) and st.targets[0].id in params):
                continue
            p = st.targets[0].id
            if "%s|%s" % (q, p) in recorded or not alpha._pure_looking(st.value):
                continue
            stores = sum(1 for x in ast.walk(f) if isinstance(x, ast.Name) and x.id == p and isinstance(x.ctx, ast.Store))
            loads_before = sum(1 for s in f.body[:i] for x in ast.walk(s) if isinstance(x, ast.Name) and x.id == p and isinstance(x.ctx, ast.Load))
            rest = f.body[i + 1:]
            loads_after = sum(1 for s in rest for x in ast.walk(s) if isinstance(x, ast.Name) and x.id == p and isinstance(x.ctx, ast.Load))
            reads = {x.id for x in ast.walk(st.value) if isinstance(x, ast.Name)} - {p}
            rebound = any(isinstance(x, ast.Name) and x.id in reads and isinstance(x.ctx, ast.Store) for s in rest for x in ast.walk(s))
            if stores != 1 or loads_before or loads_after != 1 or rebound:
                continue
            sub = _SubstAll(p, st.value, reads)
            trial = [sub.visit(copy.deepcopy(s)) for s in rest]
            if sub.blocked or sub.n != 1:
                continue
            f.body[i:] = trial
            done.append("%s.%s:%s" % (mod, q, p))
            break
        ast.fix_missing_locations(f)
    return done


# ---------------------------------------------------------------------------------------------------------------------
# tail merged:  for ...: if c: A  else: B ;  S      is      for ...: if c: A ; S ; continue ;;  B ; S
# ---------------------------------------------------------------------------------------------------------------------
def _loop_ifelse(tree):
    for loop in ast.walk(tree):
        if isinstance(loop, (ast.For, ast.While)):
            for k, st in enumerate(loop.body):
                if isinstance(st, ast.If) and st.orelse and not (len(st.orelse) == 1 and isinstance(st.orelse[0], ast.If)) and k + 1 < len(loop.body):
                    yield loop, k, st


def loop_ifelse_of(tree):
    return sorted({ast.dump(st.test) for _, _, st in _loop_ifelse(tree)})


def load_loop_ifelse():
    if not os.path.exists(IFS_TABLE):
        return {}
    return {k: set(v) for k, v in json.load(open(IFS_TABLE)).get("loop_ifelse", {}).items()}


def split_merged_tail(tree, recorded):
    n = 0
    for loop, k, st in list(_loop_ifelse(tree)):
        t = st.test
        while isinstance(t, ast.UnaryOp) and isinstance(t.op, ast.Not):
            t = t.operand
        if ast.dump(st.test) in recorded or ast.dump(t) in recorded:
            continue
        tail = loop.body[k + 1:]
        if len(tail) > 2 or any(isinstance(x, (ast.Break, ast.Continue, ast.Return, ast.Yield)) for s in tail for x in ast.walk(s)):
            continue
        if any(isinstance(s, (ast.Break, ast.Continue, ast.Return, ast.Raise)) for s in st.body[-1:] + st.orelse[-1:]):
            continue
        st.body = st.body + copy.deepcopy(tail) + [ast.copy_location(ast.Continue(), st)]
        loop.body[k + 1:k + 1] = st.orelse
        st.orelse = []
        n += 1
    ast.fix_missing_locations(tree)
    return n


# ---------------------------------------------------------------------------------------------------------------------
# both branches leave:  if c: A(leaves) ; B(leaves, to the end of the function)   is   if not c: B ; A      (restored to the recorded polarity)
# ---------------------------------------------------------------------------------------------------------------------
_NEG = {ast.Is: ast.IsNot, ast.IsNot: ast.Is, ast.Eq: ast.NotEq, ast.NotEq: ast.Eq, ast.Lt: ast.GtE, ast.GtE: ast.Lt, ast.Gt: ast.LtE, ast.LtE: ast.Gt, ast.In: ast.NotIn, ast.NotIn: ast.In}


def negate(t):
    if isinstance(t, ast.UnaryOp) and isinstance(t.op, ast.Not):
        return t.operand
    if isinstance(t, ast.Compare) and len(t.ops) == 1 and type(t.ops[0]) in _NEG:
        return ast.Compare(left=t.left, ops=[_NEG[type(t.ops[0])]()], comparators=t.comparators)
    return ast.UnaryOp(op=ast.Not(), operand=t)


def if_tests_of(tree):
    return sorted({ast.dump(n.test) for n in ast.walk(tree) if isinstance(n, ast.If)})


def load_if_tests():
    if not os.path.exists(IFS_TABLE):
        return {}
    return {k: set(v) for k, v in json.load(open(IFS_TABLE)).get("if_tests", {}).items()}


def _leaves(body):
    return bool(body) and isinstance(body[-1], (ast.Return, ast.Raise))


def restore_guard_polarity(tree, recorded):
    n = 0
    for fn in ast.walk(tree):
        if not isinstance(fn, (ast.FunctionDef, ast.AsyncFunctionDef)):
            continue
        body = fn.body
        for k, st in enumerate(body):
            if isinstance(st, ast.If) and not st.orelse and _leaves(st.body) and _leaves(body[k + 1:]):
                for neg in (negate(st.test), ast.UnaryOp(op=ast.Not(), operand=st.test)):         # a != b / not a == b: either spelling may be the recorded one
                    if ast.dump(st.test) not in recorded and ast.dump(neg) in recorded:
                        rest = body[k + 1:]
                        body[k + 1:] = st.body
                        st.body, st.test = rest, neg
                        n += 1
                        break
                break
        ast.fix_missing_locations(fn)
    return n


# ---------------------------------------------------------------------------------------------------------------------
# *[f(x) for x in xs]  is  *map(f, xs)     (only where the confirmed tree did not have that comprehension)
# ---------------------------------------------------------------------------------------------------------------------
def _star_comps(tree):
    for c in ast.walk(tree):
        if isinstance(c, ast.Call):
            for a in c.args:
                if isinstance(a, ast.Starred) and isinstance(a.value, (ast.ListComp, ast.GeneratorExp)):
                    yield a


def star_comps_of(tree):
    return sorted({ast.dump(a.value) for a in _star_comps(tree)})


def load_star_comps():
    if not os.path.exists(IFS_TABLE):
        return {}
    return {k: set(v) for k, v in json.load(open(IFS_TABLE)).get("star_comps", {}).items()}


def star_comp_to_map(tree, recorded):
    n = 0
    for a in list(_star_comps(tree)):
        comp = a.value
        if ast.dump(comp) in recorded or len(comp.generators) != 1:
            continue
        g = comp.generators[0]
        e = comp.elt
        if g.ifs or g.is_async or not isinstance(g.target, ast.Name) or not (isinstance(e, ast.Call) and isinstance(e.func, (ast.Name, ast.Attribute)) and not e.keywords
                                                                             and len(e.args) == 1 and isinstance(e.args[0], ast.Name) and e.args[0].id == g.target.id):
            continue
        if any(isinstance(x, ast.Name) and x.id == g.target.id for x in ast.walk(e.func)):
            continue
        a.value = ast.copy_location(ast.Call(func=ast.Name(id="map", ctx=ast.Load()), args=[e.func, g.iter], keywords=[]), comp)
        n += 1
    ast.fix_missing_locations(tree)
    return n



def beta_reduce(tree):
    """(lambda p, q: E)(a, b) is E with p, q replaced (plain positional parameters, each argument a name / attribute / constant or the parameter read at most once)"""
    n = 0

    class T(ast.NodeTransformer):
        def visit_Call(self, c):
            nonlocal n
            self.generic_visit(c)
            f = c.func
            if isinstance(f, ast.Lambda) and not c.keywords and not any(isinstance(a, ast.Starred) for a in c.args):
                a = f.args
                if a.vararg or a.kwarg or a.kwonlyargs or a.posonlyargs or a.defaults or len(a.args) != len(c.args):
                    return c
                params = [x.arg for x in a.args]
                for p_, v in zip(params, c.args):
                    uses = sum(1 for x in ast.walk(f.body) if isinstance(x, ast.Name) and x.id == p_)
                    if uses > 1 and not isinstance(v, (ast.Name, ast.Attribute, ast.Constant)):
                        return c
                if any(isinstance(x, (ast.Lambda, ast.ListComp, ast.GeneratorExp, ast.SetComp, ast.DictComp)) for x in ast.walk(f.body)):
                    inner_bound = {y.arg for x in ast.walk(f.body) if isinstance(x, ast.Lambda) for y in x.args.args}
                    if inner_bound & set(params):
                        return c
                n += 1
                return ast.copy_location(_ParamSubst(dict(zip(params, c.args))).visit(copy.deepcopy(f.body)), c)
            return c
    for i, st in enumerate(tree.body):
        tree.body[i] = T().visit(st)
    ast.fix_missing_locations(tree)
    return n


# ---------------------------------------------------------------------------------------------------------------------
# extracted procedures: a NEW function with a straight-line body (at most one `return`, the last statement), called as  T = f(...) / f(...) / return f(...)
# ---------------------------------------------------------------------------------------------------------------------
def inline_new_procedures(modules, exits):
    done = []
    cands, recorded_names = {}, set()
    for mod, tree in modules.items():
        rec = exits.get(mod)
        funcs, classes = index_functions(mod, tree)
        for q, f in funcs.items():
            bare = q.rsplit(".", 1)[-1]
            if rec is not None and q not in rec:
                body = _body_wo_doc(f)
                if not body or (f.decorator_list and not _is_static(f)):
                    continue
                rets = [x for s in body for x in ast.walk(s) if isinstance(x, ast.Return)]
                if len(rets) > 1 or (rets and rets[0] is not body[-1]) or any(isinstance(x, (ast.Yield, ast.YieldFrom, ast.FunctionDef, ast.Lambda, ast.Global, ast.Nonlocal)) for s in body for x in ast.walk(s)):
                    continue
                if len(body) == 1 and rets:
                    continue            # single-return helpers are inlined as expressions
                parent = q.rsplit(".", 1)[0] if "." in q else None
                kind = "method" if parent in classes else "nested" if parent else "module"
                cands.setdefault(bare, []).append((mod, q, f, kind))
            else:
                recorded_names.add(bare)
    for bare, lst in sorted(cands.items()):
        if len(lst) != 1 or bare in recorded_names or bare.startswith("__"):
            continue
        mod, q, f, kind = lst[0]
        if any((isinstance(n, ast.Name) and n.id == bare) or (kind == "method" and isinstance(n, ast.Attribute) and n.attr == bare) for n in ast.walk(f)):
            continue
        body = _body_wo_doc(f)
        ret = body[-1].value if isinstance(body[-1], ast.Return) else None
        stmts = body[:-1] if isinstance(body[-1], ast.Return) else body
        params = [a.arg for a in f.args.args]
        stored = {x.id for s in stmts for x in ast.walk(s) if isinstance(x, ast.Name) and isinstance(x.ctx, ast.Store)}
        locals_ = stored - set(params)
        replaced, failed = 0, 0

        def is_call(e):
            if not isinstance(e, ast.Call):
                return False
            if isinstance(e.func, ast.Name):
                return e.func.id == bare and kind in ("module", "nested")
            return isinstance(e.func, ast.Attribute) and e.func.attr == bare and kind != "nested"

        for m2, t2 in modules.items():
            if kind == "nested" and m2 != mod:
                continue
            funcs2, _ = index_functions(m2, t2)
            for q2, caller in funcs2.items():
                if caller is f:
                    continue
                inside_f = {id(x) for x in ast.walk(f)}
                caller_names = {x.id for x in ast.walk(caller) if isinstance(x, ast.Name) and id(x) not in inside_f} | {a.arg for a in caller.args.args}
                for owner in [caller] + [n for n in alpha.own_nodes(caller) if not isinstance(n, alpha.SCOPES)]:
                    for field in ("body", "orelse", "finalbody"):
                        blk = getattr(owner, field, None)
                        if not (isinstance(blk, list) and blk and all(isinstance(s, ast.stmt) for s in blk)):
                            continue
                        k = 0
                        while k < len(blk):
                            st = blk[k]
                            k += 1
                            if isinstance(st, ast.Assign) and len(st.targets) == 1 and is_call(st.value):
                                call, mode = st.value, "assign"
                            elif isinstance(st, ast.Expr) and is_call(st.value):
                                call, mode = st.value, "expr"
                            elif isinstance(st, ast.Return) and st.value is not None and is_call(st.value):
                                call, mode = st.value, "return"
                            else:
                                continue
                            recv = None
                            if kind == "method" and not _is_static(f) and isinstance(call.func, ast.Attribute) and not (isinstance(call.func.value, ast.Name) and call.func.value.id[:1].isupper()):
                                recv = call.func.value
                            m = _bind(f, call, recv)
                            tgt = st.targets[0] if mode == "assign" else None
                            tname = tgt.id if isinstance(tgt, ast.Name) else None
                            clash = (locals_ & caller_names) - ({tname} if tname else set())
                            if m is None or clash or (mode == "assign" and ret is None):
                                failed += 1
                                continue
                            pre, mapping, ok = [], {}, True
                            for p_ in params:
                                v = m[p_]
                                loads = sum(1 for s in stmts + ([body[-1]] if ret is not None else []) for x in ast.walk(s) if isinstance(x, ast.Name) and x.id == p_ and isinstance(x.ctx, ast.Load))
                                if p_ in stored:
                                    if isinstance(v, ast.Name) and v.id == p_:
                                        continue
                                    ok = False
                                    break
                                if isinstance(v, (ast.Name, ast.Attribute, ast.Constant)) or loads <= 1:
                                    mapping[p_] = v
                                else:
                                    ok = False
                                    break
                            if not ok:
                                failed += 1
                                continue
                            sub = _ParamSubst(mapping)
                            new = [sub.visit(copy.deepcopy(s)) for s in stmts]
                            if ret is not None:
                                r = sub.visit(copy.deepcopy(ret))
                                if mode == "assign":
                                    if not (isinstance(r, ast.Name) and r.id == tname):
                                        new.append(ast.Assign(targets=[tgt], value=r))
                                elif mode == "return":
                                    new.append(ast.Return(value=r))
                                else:
                                    new.append(ast.Expr(value=r))
                            elif mode == "return":
                                new.append(ast.Return(value=None))
                            for s in new:
                                ast.copy_location(s, st)
                                ast.fix_missing_locations(s)
                            blk[k - 1:k] = new
                            k += len(new) - 1
                            replaced += 1
        left = sum(1 for t2 in modules.values() for n in ast.walk(t2) if (isinstance(n, ast.Name) and n.id == bare and isinstance(n.ctx, ast.Load)) or (kind == "method" and isinstance(n, ast.Attribute) and n.attr == bare))
        if replaced and not failed and not left:
            _remove_def(modules[mod], f)
            done.append("%s.%s (%d call%s, statements)" % (mod, q, replaced, "" if replaced == 1 else "s"))
        elif replaced:
            done.append("%s.%s (%d calls, statements; definition kept)" % (mod, q, replaced))
    return done


# ---------------------------------------------------------------------------------------------------------------------
# X.tensor(a, b) is X @ a @ b ; X.then(a, b) is X >> a >> b      (discopy defines @ / >> as these methods; only calls the confirmed tree did not have)
# ---------------------------------------------------------------------------------------------------------------------
_FOLD = {"tensor": ast.MatMult, "then": ast.RShift}


def _fold_calls(tree):
    for c in ast.walk(tree):
        if isinstance(c, ast.Call) and isinstance(c.func, ast.Attribute) and c.func.attr in _FOLD and c.args and not c.keywords and not any(isinstance(a, ast.Starred) for a in c.args):
            yield c


def fold_calls_of(tree):
    """'qualified function|method' for every function that contains such a call (keyed by function: a renamed local must not make the call look new)"""
    funcs, _ = index_functions("", tree)
    out = set()
    for q, f in funcs.items():
        for c in _fold_calls(f):
            out.add("%s|%s" % (q, c.func.attr))
    for c in _fold_calls(ast.Module(body=[st for st in tree.body if not isinstance(st, (ast.FunctionDef, ast.ClassDef))], type_ignores=[])):
        out.add("<module>|%s" % c.func.attr)
    return sorted(out)


def load_fold_calls():
    if not os.path.exists(IFS_TABLE):
        return {}
    return {k: set(v) for k, v in json.load(open(IFS_TABLE)).get("fold_calls", {}).items()}


def fold_calls_to_operators(tree, recorded):
    n = 0
    funcs, _ = index_functions("", tree)
    owner = {}
    for q, f in sorted(funcs.items(), key=lambda kv: len(kv[0])):           # innermost function wins
        for x in ast.walk(f):
            owner[id(x)] = q

    class T(ast.NodeTransformer):
        def visit_Call(self, c):
            nonlocal n
            q = owner.get(id(c), "<module>")
            self.generic_visit(c)
            if isinstance(c.func, ast.Attribute) and c.func.attr in _FOLD and c.args and not c.keywords and not any(isinstance(a, ast.Starred) for a in c.args) \
                    and "%s|%s" % (q, c.func.attr) not in recorded \
                    and not (isinstance(c.func.value, ast.Call) and isinstance(c.func.value.func, ast.Name) and c.func.value.func.id == "super"):
                r = c.func.value
                for a in c.args:
                    r = ast.BinOp(left=r, op=_FOLD[c.func.attr](), right=a)
                n += 1
                return ast.copy_location(r, c)
            return c
    for i, st in enumerate(tree.body):
        tree.body[i] = T().visit(st)
    ast.fix_missing_locations(tree)
    return n


# ---------------------------------------------------------------------------------------------------------------------
# single exit:  if c: r = A  elif d: r = B  else: r = C ;  return r      is      if c: return A  elif d: return B  else: return C     (r a NEW local)
# ---------------------------------------------------------------------------------------------------------------------
def sink_final_return(tree, expected):
    n = 0
    for key, fn in alpha.scopes(tree):
        exp = expected.get(key)
        if exp is None or not isinstance(fn, (ast.FunctionDef, ast.AsyncFunctionDef)) or len(fn.body) < 2:
            continue
        chain, last = fn.body[-2], fn.body[-1]
        if not (isinstance(chain, ast.If) and chain.orelse and isinstance(last, ast.Return) and isinstance(last.value, ast.Name) and last.value.id not in exp):
            continue
        r = last.value.id
        arms, cur = [], chain
        while True:
            arms.append(cur.body)
            if len(cur.orelse) == 1 and isinstance(cur.orelse[0], ast.If):
                cur = cur.orelse[0]
            else:
                arms.append(cur.orelse)
                break
        def ends_with_assign(b):
            return b and isinstance(b[-1], ast.Assign) and len(b[-1].targets) == 1 and isinstance(b[-1].targets[0], ast.Name) and b[-1].targets[0].id == r
        if not all(ends_with_assign(b) or (b and isinstance(b[-1], (ast.Raise, ast.Return))) for b in arms) or not any(ends_with_assign(b) for b in arms):
            continue
        stores = sum(1 for x in ast.walk(fn) if isinstance(x, ast.Name) and x.id == r and isinstance(x.ctx, ast.Store))
        loads = sum(1 for x in ast.walk(fn) if isinstance(x, ast.Name) and x.id == r and isinstance(x.ctx, ast.Load))
        if stores != sum(1 for b in arms if ends_with_assign(b)) or loads != 1:
            continue
        for b in arms:
            if ends_with_assign(b):
                b[-1] = ast.copy_location(ast.Return(value=b[-1].value), b[-1])
        del fn.body[-1]
        if all(b and isinstance(b[-1], (ast.Raise, ast.Return)) for b in arms):           # every arm leaves: the chain is a sequence of guards and the last arm the rest
            flat, cur = [], chain
            while True:
                nxt = cur.orelse
                cur.orelse = []
                flat.append(cur)
                if len(nxt) == 1 and isinstance(nxt[0], ast.If):
                    cur = nxt[0]
                else:
                    flat += nxt
                    break
            fn.body[-1:] = flat
        ast.fix_missing_locations(fn)
        n += 1
    return n
