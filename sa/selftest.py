"""Checker validation (DESIGN §6): single-edit variants of /repo on scratch copies outside /repo and /verif.

    python -m sa.selftest [C05 ...] [--suite] [-j 16]

Each corpus module sa/mutants/cNN.py defines MUTANTS = [(name, relative file, old text, new text, expect)], expect in
{'violation', 'silent'}.  A variant is applied to a scratch copy of the discopy package, the property's check is run on it
(--repo <scratch>), and the exit code is compared with the expectation.  With --suite the pinned test-suite is also run on
the variant (it must still pass for a 'violation' variant to count as a realistic breakage)."""
import argparse
import ast
import importlib
import json
import os
import shutil
import subprocess
import sys
import tempfile
from concurrent.futures import ProcessPoolExecutor

VERIF = os.path.dirname(os.path.dirname(os.path.abspath(__file__)))
REPO = os.environ.get("VERIF_REPO", "/repo")


def run_variant(args):
    prop, name, rel, old, new, expect, suite = args
    tmp = tempfile.mkdtemp(prefix="sa_mut_")
    try:
        if suite:
            shutil.copytree(REPO, tmp, dirs_exist_ok=True, ignore=shutil.ignore_patterns(".git", "__pycache__", "docs", "*.egg-info"))
        else:
            shutil.copytree(os.path.join(REPO, "discopy"), os.path.join(tmp, "discopy"), ignore=shutil.ignore_patterns("__pycache__"))
        p = os.path.join(tmp, rel)
        src = open(p).read()
        if src.count(old) < 1:
            return (prop, name, expect, "STALE", "old text not found in %s" % rel, None)
        src2 = src.replace(old, new, 1)
        try:
            ast.parse(src2)
        except SyntaxError as e:
            return (prop, name, expect, "STALE", "variant does not parse: %s" % e, None)
        open(p, "w").write(src2)
        r = subprocess.run([sys.executable, "-m", "sa.check", prop, "--repo", tmp, "--out", os.path.join(tmp, "_out")],
                           cwd=VERIF, capture_output=True, text=True, timeout=600)
        lines = [l for l in r.stdout.splitlines() if l.startswith(("VIOLATION", "ANALYSIS-ERROR", "KNOWN-FINDING"))]
        detail = [l.strip() for l in r.stdout.splitlines() if l.startswith("  R") or l.startswith("ANALYSIS-ERROR")][:3]
        got = {0: "silent", 1: "violation", 2: "analysis-error"}.get(r.returncode, "rc%d" % r.returncode)
        tests = None
        if suite:
            t = subprocess.run(["/venv/bin/python", os.path.join(VERIF, "tools", "suite.py"), tmp], capture_output=True, text=True, timeout=1800)
            tests = t.stdout.strip().splitlines()[-1] if t.stdout.strip() else "suite: no output " + t.stderr[-200:]
        return (prop, name, expect, got, " | ".join(detail)[:300], tests)
    finally:
        shutil.rmtree(tmp, ignore_errors=True)


def main():
    ap = argparse.ArgumentParser()
    ap.add_argument("props", nargs="*")
    ap.add_argument("--suite", action="store_true")
    ap.add_argument("-j", type=int, default=16)
    ap.add_argument("-k", default=None, help="substring filter on variant names")
    a = ap.parse_args()
    props = [p.upper() for p in a.props] or sorted(f[:-3].upper() for f in os.listdir(os.path.join(VERIF, "sa", "mutants"))
                                                   if f.startswith("c") and f.endswith(".py"))
    jobs = []
    for p in props:
        mod = importlib.import_module("sa.mutants.%s" % p.lower())
        for name, rel, old, new, expect in mod.MUTANTS:
            if a.k and a.k not in name:
                continue
            jobs.append((p, name, rel, old, new, expect, a.suite))
    bad = 0
    results = []
    with ProcessPoolExecutor(a.j) as ex:
        for prop, name, expect, got, detail, tests in ex.map(run_variant, jobs):
            ok = got == expect
            bad += not ok
            results.append({"property": prop, "variant": name, "expect": expect, "got": got, "detail": detail, "suite": tests})
            print("%s %-4s %-58s expect=%-9s got=%-14s %s%s" % ("ok  " if ok else "FAIL", prop, name[:58], expect, got,
                                                               ("[%s] " % tests) if tests else "", detail[:150]))
    os.makedirs(os.path.join(VERIF, "selftest"), exist_ok=True)
    for p in props:
        json.dump([r for r in results if r["property"] == p], open(os.path.join(VERIF, "selftest", p + ".json"), "w"), indent=1)
    print("%d variants, %d unexpected" % (len(jobs), bad))
    return 1 if bad else 0


if __name__ == "__main__":
    sys.exit(main())
