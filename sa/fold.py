"""Constant folding of small side-effect-free expressions over a finite domain (whitelisted node kinds only).

Used to decide guards such as `(key.step or 1) != 1` or `key.step == -1` for each value of a small enumerated domain.
Nothing from /repo is executed: the expression is interpreted node by node here."""
import ast
import operator


class Stub:
    def __init__(self, **kw):
        self.__dict__.update(kw)

    def __eq__(self, o):
        return isinstance(o, Stub) and self.__dict__ == o.__dict__

    def __hash__(self):
        return hash(tuple(sorted(self.__dict__)))


class CannotFold(Exception):
    pass


CMP = {ast.Eq: operator.eq, ast.NotEq: operator.ne, ast.Lt: operator.lt, ast.LtE: operator.le, ast.Gt: operator.gt,
       ast.GtE: operator.ge, ast.Is: operator.is_, ast.IsNot: operator.is_not, ast.In: lambda a, b: a in b,
       ast.NotIn: lambda a, b: a not in b}
BIN = {ast.LShift: operator.lshift, ast.RShift: operator.rshift, ast.BitAnd: operator.and_, ast.BitOr: operator.or_, ast.BitXor: operator.xor, ast.Add: operator.add, ast.Sub: operator.sub, ast.Mult: operator.mul, ast.Div: operator.truediv,
       ast.FloorDiv: operator.floordiv, ast.Mod: operator.mod, ast.Pow: operator.pow}


def fold(n, env):
    if isinstance(n, ast.Constant):
        return n.value
    if isinstance(n, ast.Name):
        if n.id in env:
            return env[n.id]
        raise CannotFold(n.id)
    if isinstance(n, ast.Attribute):
        v = fold(n.value, env)
        if isinstance(v, str) and n.attr in ("format", "join", "zfill", "rjust"):
            return getattr(v, n.attr)
        if isinstance(v, (tuple, list)) and n.attr in ("count", "index"):
            return getattr(v, n.attr)
        if isinstance(v, Stub) and n.attr in v.__dict__:
            return v.__dict__[n.attr]
        if isinstance(v, slice) and n.attr in ("start", "stop", "step"):
            return getattr(v, n.attr)
        raise CannotFold(ast.unparse(n))
    if isinstance(n, ast.BoolOp):
        v = None
        for e in n.values:
            v = fold(e, env)
            if isinstance(n.op, ast.And) and not v:
                return v
            if isinstance(n.op, ast.Or) and v:
                return v
        return v
    if isinstance(n, ast.UnaryOp):
        v = fold(n.operand, env)
        if isinstance(n.op, ast.Not):
            return not v
        if isinstance(n.op, ast.USub):
            return -v
        if isinstance(n.op, ast.UAdd):
            return +v
        raise CannotFold(ast.unparse(n))
    if isinstance(n, ast.Compare):
        vals = [fold(n.left, env)] + [fold(c, env) for c in n.comparators]
        for op, a, b in zip(n.ops, vals, vals[1:]):
            if type(op) not in CMP:
                raise CannotFold(ast.unparse(n))
            if isinstance(a, Stub) and isinstance(b, slice):
                a = slice(a.start, a.stop, a.step)
            if isinstance(b, Stub) and isinstance(a, slice):
                b = slice(b.start, b.stop, b.step)
            if not CMP[type(op)](a, b):
                return False
        return True
    if isinstance(n, ast.BinOp) and type(n.op) in BIN:
        return BIN[type(n.op)](fold(n.left, env), fold(n.right, env))
    if isinstance(n, ast.IfExp):
        return fold(n.body if fold(n.test, env) else n.orelse, env)
    if isinstance(n, ast.Tuple):
        return tuple(fold(e, env) for e in n.elts)
    if isinstance(n, ast.List):
        return [fold(e, env) for e in n.elts]
    if isinstance(n, ast.Call):
        f = fold(n.func, env)
        if callable(f) and all(k.arg for k in n.keywords):
            return f(*[fold(a, env) for a in n.args], **{k.arg: fold(k.value, env) for k in n.keywords})
        raise CannotFold(ast.unparse(n))
    if isinstance(n, ast.Subscript) and not isinstance(n.slice, ast.Slice):
        v, k = fold(n.value, env), fold(n.slice, env)
        if isinstance(v, Stub) or isinstance(k, Stub):
            raise CannotFold(ast.unparse(n))
        return v[k]
    if isinstance(n, ast.Subscript):
        sl = n.slice
        v = fold(n.value, env)
        if isinstance(v, (tuple, list, str)):
            return v[slice(*(None if x is None else fold(x, env) for x in (sl.lower, sl.upper, sl.step)))]
        raise CannotFold(ast.unparse(n))
    if isinstance(n, (ast.GeneratorExp, ast.ListComp)):
        def rec(gens, env):
            if not gens:
                yield fold(n.elt, env)
                return
            g = gens[0]
            if g.is_async:
                raise CannotFold("async comprehension")
            for x in fold(g.iter, env):
                e2 = dict(env)
                bind(g.target, x, e2)
                if all(fold(c, e2) for c in g.ifs):
                    yield from rec(gens[1:], e2)
        return list(rec(n.generators, env))
    raise CannotFold(type(n).__name__)


def bind(target, value, env):
    if isinstance(target, ast.Name):
        env[target.id] = value
    elif isinstance(target, (ast.Tuple, ast.List)) and not any(isinstance(e, ast.Starred) for e in target.elts):
        value = list(value)
        if len(value) != len(target.elts):
            raise ValueError("unpacking")
        for t, v in zip(target.elts, value):
            bind(t, v, env)
    else:
        raise CannotFold(ast.unparse(target))
