"""C09 — evaluating a diagram computes its compositional meaning (R09.1–R09.4; engines A, B′, C, D)."""
import ast
from ..lin import Lin, Facts
from ..words import Seq, Seg, Atom, Unlocatable
from ..beval import Evaluator, Obj, Box, Closure, Unsupported, Undecided
from ..diag import Hom, W
from ..layout import Arr, Ev09, block_map
from ..core import AnalysisError
from .. import shape, dispatch

EXPLANATION = (
    "tensor.Functor.__call__ is analysed from source. The contraction loop is evaluated abstractly on arrays typed by their axis "
    "layout: starting from the identity on F(dom) with layout [F(dom) | F(dom)'], one generic box step (row = L·dom_k·R) contracts "
    "exactly the block of the row carrying F(dom_k) with the box's domain axes and moves the appended codomain axes back into "
    "place, one generic swap step exchanges the two adjacent blocks; in both the invariant 'array layout = [F(dom) | F(scan)]' is "
    "preserved and the final value is Tensor(F(dom), F(cod)) — this is the layer-by-layer composite of C09 for every diagram. The "
    "isinstance chain is checked for order/totality and for the structural images (cups, caps, sums with zero unit, bubbles, objects "
    "ignoring winding, daggered boxes via the dagger of the image). Flag-dagger discipline: tensor boxes take their dagger by "
    "toggling a flag and keeping the data, so every reader of `.array` on a box must be dominated by an is_dagger test (or be the "
    "`ar` mapping of a functor, whose __call__ performs that test). Spider arrays are the all-equal-index deltas.")

TEN, MON, RIG, CAT = "discopy.tensor", "discopy.monoidal", "discopy.rigid", "discopy.cat"


def ret_expr(body):
    for st in body:
        if isinstance(st, ast.Return):
            return st.value
    return None


# ------------------------------------------------------------------------------------------------ flag-dagger discipline
def flag_dagger_classes(m):
    """box classes whose dagger (as resolved along the MRO) is cat.Box.dagger: a flag toggle that keeps the payload"""
    catbox = m.cls(CAT + ".Box")
    out = []
    for k in m.subclasses(catbox):
        r = m.lookup(k, "dagger")
        if r and r[0] is catbox:
            out.append(k)
    return out


def parents_of(fn):
    par = {}
    for n in ast.walk(fn):
        for ch in ast.iter_child_nodes(n):
            par[ch] = n
    return par


def dagger_guarded(fn, node, recv, par=None):
    """is `node` only evaluated when recv's dagger flag is known to be unset (or has been handled)?"""
    par = par or parents_of(fn)
    tests_true, tests_false = ("%s.is_dagger" % recv, "%s._dagger" % recv), ("not %s.is_dagger" % recv, "not %s._dagger" % recv)
    cur = node
    while cur in par:
        p = par[cur]
        if isinstance(p, ast.IfExp):
            t = ast.unparse(p.test)
            if (cur is p.orelse and t in tests_true) or (cur is p.body and t in tests_false):
                return True
        if isinstance(p, ast.If):
            t = ast.unparse(p.test)
            in_body = any(cur is s for s in p.body)
            in_else = any(cur is s for s in p.orelse)
            if (in_else and t in tests_true) or (in_body and t in tests_false):
                return True
        # an earlier sibling `if recv.is_dagger: return/raise/continue` in the same block
        for field in ("body", "orelse"):
            blk = getattr(p, field, None)
            if isinstance(blk, list) and any(cur is s for s in blk):
                for s in blk:
                    if s is cur:
                        break
                    if isinstance(s, ast.If) and ast.unparse(s.test) in tests_true and isinstance(s.body[-1], (ast.Return, ast.Raise, ast.Continue)):
                        return True
        cur = p
    return False


def array_readers(m, mod):
    """(function qualname, FunctionDef, Attribute node, receiver text) for every `.array` load in module mod"""
    from .c01 import enumerate_fns, own_nodes
    out = []
    for q, fn in enumerate_fns(m.modules[mod]):
        called = {id(c.func) for c in ast.walk(fn) if isinstance(c, ast.Call)}      # numpy.array(...) is a function, not a box's array
        for n in own_nodes(fn):
            if isinstance(n, ast.Attribute) and n.attr == "array" and isinstance(n.ctx, ast.Load) and id(n) not in called:
                out.append((q, fn, n, ast.unparse(n.value)))
        for lam in [x for x in own_nodes(fn) if isinstance(x, ast.Lambda)]:
            for n in ast.walk(lam.body):
                if isinstance(n, ast.Attribute) and n.attr == "array" and isinstance(n.ctx, ast.Load) and id(n) not in called:
                    out.append((q + ".<lambda>", fn, n, ast.unparse(n.value)))
    return out


def classify_reader(m, mod, q, fn, node, recv, flag_classes):
    """returns (verdict, reason): verdict in ok / violation / unknown"""
    par = parents_of(fn)
    cls_name = q.split(".")[0]
    k = m.classes.get(mod + "." + cls_name)
    first = fn.args.args[0].arg if fn.args.args else None
    # (a) receiver is self / an isinstance-checked peer inside a class whose dagger is not a flag toggle
    if isinstance(node.value, ast.Name):
        nm = node.value.id
        if k is not None and k in flag_classes and fn.name in ("__eq__", "__hash__") and ".<lambda>" not in q:
            return "ok", "equality / hash of the raw payload inside the flag-daggered class itself"
        if k is not None and nm == first and not isinstance(fn, ast.Lambda) and ".<lambda>" not in q:
            if k not in flag_classes:
                return "ok", "receiver is self of %s, whose dagger rebuilds the payload" % k.q
            if fn.name in ("array", "__eq__", "__hash__", "__repr__", "__str__"):
                return "ok", "structural use inside the flag-daggered class itself (definition / equality of the raw payload)"
            if dagger_guarded(fn, node, nm, par):
                return "ok", "dominated by an is_dagger test"
            return "violation", "self.array read in %s.%s without an is_dagger test (class takes its dagger by toggling a flag)" % (k.q, fn.name)
        # isinstance narrowing in the same function: `if not isinstance(nm, K'): raise/return`
        for st in ast.walk(fn):
            if isinstance(st, ast.If) and isinstance(st.body[-1], (ast.Raise, ast.Return)):
                t = st.test
                if isinstance(t, ast.UnaryOp) and isinstance(t.op, ast.Not) and isinstance(t.operand, ast.Call) and ast.unparse(t.operand.func) == "isinstance" \
                        and ast.unparse(t.operand.args[0]) == nm:
                    kk = m.resolve_class(mod, ast.unparse(t.operand.args[1]))
                    if kk is not None and not any(kk in m.mro(f) for f in flag_classes):
                        return "ok", "receiver narrowed to %s (no flag-daggered subclass)" % kk.q
        # lambda parameter of an `ar=` mapping handed to a Functor: the functor's __call__ tests is_dagger before the lookup
        p = par.get(node)
        while p is not None and not isinstance(p, ast.Lambda):
            p = par.get(p)
        if isinstance(p, ast.Lambda) and nm in [a.arg for a in p.args.args]:
            holder = par.get(p)
            if isinstance(holder, ast.keyword) and holder.arg == "ar":
                return "ok", "the `ar` mapping of a functor (its __call__ handles the dagger flag before the lookup)"
            if isinstance(holder, ast.Call) and p in holder.args and ast.unparse(holder.func).endswith("Functor"):
                return "ok", "the `ar` mapping of a functor"
        if dagger_guarded(fn, node, nm, par):
            return "ok", "dominated by an is_dagger test on %s" % nm
        # where does the name come from?
        for st in ast.walk(fn):
            if isinstance(st, ast.For):
                names = [x.id for x in ast.walk(st.target) if isinstance(x, ast.Name)]
                if nm in names and ("boxes" in ast.unparse(st.iter) or "layers" in ast.unparse(st.iter)):
                    return "violation", "`%s` ranges over the boxes of a diagram (may carry the dagger flag) and its .array is read without an is_dagger test" % nm
        return "unknown", "receiver %s" % nm
    # (b) receiver is a call: functor application / Tensor constructor / Tensor factory -> a Tensor
    if isinstance(node.value, ast.Call):
        f = ast.unparse(node.value.func)
        if f in ("self", first) or f.startswith("Tensor") or f.endswith(".dagger") or f.endswith("eval") or "Functor" in f:
            return "ok", "receiver is the result of %s(...) — an evaluated Tensor" % f
        return "unknown", "receiver is a call of %s" % f
    if isinstance(node.value, ast.Attribute):
        return "unknown", "receiver %s" % ast.unparse(node.value)
    return "unknown", "receiver %s" % ast.unparse(node.value)


def check_flag_discipline(ctx, mod, rule, skip_unknown_in=()):
    m = ctx.model
    flags = flag_dagger_classes(m)
    n = 0
    for q, fn, node, recv in array_readers(m, mod):
        verdict, reason = classify_reader(m, mod, q, fn, node, recv, flags)
        cname = "%s.%s:%s.array" % (mod, q, recv)
        if verdict == "unknown":
            raise AnalysisError("%s: cannot classify the reader %s at line %d (%s)" % (rule, cname, node.lineno, reason))
        ctx.ob(rule, cname, verdict == "ok", found=reason, required="readers of a box's array see the daggered array when the dagger flag is set",
               mod=mod, node=node, sig="flag-dagger")
        n += 1
    return n, flags


# ------------------------------------------------------------------------------------------------ the functor
def check_functor(ctx):
    m = ctx.model
    q = TEN + ".Functor.__call__"
    fn = m.func(q)
    ctx.analysed(q)
    self_, p = fn.args.args[0].arg, fn.args.args[1].arg
    N = {self_: "F", p: "d"}
    br = dispatch.chain(m, TEN, fn, p)
    sh = dispatch.shadowed(m, br)
    ctx.ob("R09.2", q + ":no-shadowing", not sh, found=["%s after %s" % (d.q, s.q) for _, d, _, s in sh], required="Bubble, Sum, Ty, Cup, Cap before Box; Box before Diagram",
           mod=TEN, node=fn, sig="shadow")
    names = [nm for b in br for nm in b.names]
    for a, b_ in (("Bubble", "monoidal.Box"), ("monoidal.Sum", "monoidal.Box"), ("Cup", "monoidal.Box"), ("Cap", "monoidal.Box")):
        ctx.ob("R09.2", "%s:%s<%s" % (q, a, b_), a in names and b_ in names and names.index(a) < names.index(b_), found=names, required="%s before %s" % (a, b_),
               mod=TEN, node=fn, sig="order-%s" % a)
    tot = [s for s in fn.body if isinstance(s, ast.If) and isinstance(s.body[-1], ast.Raise) and "TypeError" in ast.unparse(s.body[-1])
           and ast.unparse(s.test) == "not isinstance(%s, monoidal.Diagram)" % p]
    ctx.ob("R09.2", q + ":total", bool(tot), found=[ast.unparse(s.test) for s in fn.body if isinstance(s, ast.If)][-2:], required="non-diagrams raise TypeError",
           mod=TEN, node=fn, sig="total")

    def branch(cname):
        k = m.resolve_class(TEN, cname)
        b = [x for x in br if k is not None and k in x.classes]
        return b[0] if b else None
    for cname, spec in (("Cup", "Tensor.cups(F(d.dom[:1]), F(d.dom[1:]))"), ("Cap", "Tensor.caps(F(d.cod[:1]), F(d.cod[1:]))"),
                        ("Bubble", "F(d.inside).map(d.func)")):
        b = branch(cname)
        shape.match(ctx, "R09.2", q + ":" + cname, ret_expr(b.body) if b else None, spec, N, body=b.body if b else None, mod=TEN, node=b.node if b else fn, sig=cname.lower())
    b = branch("monoidal.Sum")
    shape.match(ctx, "R09.2", q + ":Sum", ret_expr(b.body) if b else None, ["sum(map(F, d), Tensor.zeros(F(d.dom), F(d.cod)))", "sum(map(F, d.terms), Tensor.zeros(F(d.dom), F(d.cod)))"],
                N, body=b.body if b else None, mod=TEN, node=b.node if b else fn, sig="sum", required="term-wise, starting from the zero tensor of the image type")
    b = branch("monoidal.Box")
    ctx.need(b is not None, "tensor.Functor.__call__ has no box branch")
    excl = "not isinstance(%s, monoidal.Swap)" % p in ast.unparse(b.node.test)
    ctx.ob("R09.2", q + ":Box:excludes-swap", excl, found=ast.unparse(b.node.test), required="swaps are handled by the contraction loop, not looked up", mod=TEN, node=b.node, sig="box-excl-swap")
    dag = [s for s in b.body if isinstance(s, ast.If) and ast.unparse(s.test) in (p + ".is_dagger", p + "._dagger")]
    shape.match(ctx, "R09.3", q + ":Box:dagger", ret_expr(dag[0].body) if dag else None, ["F(d.dagger()).dagger()", "F(d[::-1]).dagger()", "F(d[::-1])[::-1]"], N, mod=TEN,
                node=b.node, sig="box-dagger", required="if box.is_dagger: return F(box.dagger()).dagger()  — before the lookup in `ar`")
    look = ret_expr([s for s in b.body if isinstance(s, ast.Return)])
    shape.match(ctx, "R09.2", q + ":Box:lookup", look, "Tensor(F(d.dom), F(d.cod), F.ar[d])", N, mod=TEN, node=b.node, sig="box-lookup")
    if dag and look is not None:
        ctx.ob("R09.3", q + ":Box:dagger-first", dag[0].lineno < look.lineno, found="dagger test at line %d, lookup at line %d" % (dag[0].lineno, look.lineno),
               required="the dagger flag is handled before self.ar[box] is read", mod=TEN, node=b.node, sig="dagger-first")
    # objects ignore winding
    tb = branch("monoidal.Ty")
    ctx.need(tb is not None, "tensor.Functor.__call__ has no type branch")
    o2d = next((s for s in tb.body if isinstance(s, ast.FunctionDef)), None)
    okw = o2d is not None and any(isinstance(s, ast.If) and "z != 0" in ast.unparse(s.test) and "type(%s)(%s.name)" % ((o2d.args.args[0].arg,) * 2) in ast.unparse(s.body[0])
                                  for s in o2d.body)
    ctx.ob("R09.2", q + ":Ty:ignores-winding", okw, found=[ast.unparse(s)[:70] for s in (o2d.body if o2d else [])][:2], required="adjoint objects get the dimension of the base object",
           mod=TEN, node=tb.node, sig="ty-winding")
    if o2d is not None:
        ov = o2d.args.args[0].arg
        shape.match_stmts(ctx, "R09.2", q + ":Ty:image-of-an-object", o2d.body,
                          ["if isinstance(obj, rigid.Ob) and obj.z != 0:\n    obj = type(obj)(obj.name)", "result = F.ob[type(d)(obj)]", "if isinstance(result, int):\n    result = Dim(result)",
                           "if not isinstance(result, Dim):\n    result = Dim.upgrade(result)", "return result"], {ov: "obj", p: "d", self_: "F"}, mod=TEN, node=o2d, sig="ty-object", exact=True,
                          required="the object (winding forgotten) is looked up as a one-object type of the diagram's type class; an int is a dimension; another type is upgraded to a Dim — the RESULT, when it is not one already")
    shape.match(ctx, "R09.2", q + ":Ty:in-order", ret_expr(tb.body), ["Dim(1).tensor(*map(obj_to_dim, d.objects))", "Dim(1).tensor(*map(obj_to_dim, d))"],
                {p: "d", (o2d.name if o2d else "obj_to_dim"): "obj_to_dim"}, mod=TEN, node=tb.node, sig="ty-order")

    # ---- R09.1 loop invariant
    loop = next((s for s in fn.body if isinstance(s, ast.For)), None)
    ctx.need(loop is not None, "no contraction loop in tensor.Functor.__call__")
    k = fn.body.index(loop)
    helper = [s for s in fn.body[:k] if isinstance(s, ast.FunctionDef)]
    pre = [s for s in fn.body[:k] if isinstance(s, ast.Assign)]
    post = fn.body[k + 1:]
    ctx.ob("R09.1", q + ":iterates", ast.unparse(loop.iter) == "zip(%s.boxes, %s.offsets)" % (p, p), found=ast.unparse(loop.iter), required="zip(d.boxes, d.offsets)", mod=TEN,
           node=loop, sig="iterates")
    DOM, COD, L, R, d, c, a, b_ = (Atom(x) for x in "DOM COD L R d c a b".split())

    def setup():
        F = Hom()
        ev = Ev09(Facts(), q, F)
        functor = Obj("Functor")
        diagram = Obj("Diagram", dom=W(DOM), cod=W(COD), boxes=Seq.atom(Atom("boxes")), offsets=Seq.atom(Atom("offsets")))
        env = {self_: functor, p: diagram, "monoidal.Swap": Obj("cls", name="Swap")}
        for h in helper:
            def mk(h):
                def call(*args):
                    e2 = dict(env)
                    e2.update(zip([x.arg for x in h.args.args], args))
                    r = ev.run(h.body, e2)
                    return r[1]
                return Closure(call)
            env[h.name] = mk(h)
        ev.classes["monoidal.Swap"] = Obj("cls", name="Swap")
        ev.builtins["isinstance"] = lambda v, cl: cl.f["name"] in v.f.get("isa", ())
        return F, ev, env

    def fail(what, found, req):
        ctx.ob("R09.1", q + ":" + what, False, found=found, required=req, mod=TEN, node=loop, sig=what)
    try:
        F, ev, env = setup()
        ev.run(pre, env)
        scan_v = [v for v, x in env.items() if isinstance(x, Seq) and x == W(DOM)]
        arr_v = [v for v, x in env.items() if isinstance(x, Arr)]
        ctx.need(len(scan_v) == 1 and len(arr_v) == 1, "cannot identify the scan/array variables of tensor.Functor.__call__ (%s, %s)" % (scan_v, arr_v))
        scan, arr = scan_v[0], arr_v[0]
        ok0 = env[arr].axes.same(F(W(DOM)) + ev.prime(F(W(DOM))), ev.facts)
        ctx.ob("R09.1", q + ":init", ok0, found=env[arr], required="identity on F(dom): layout [F(dom) | F(dom)']", mod=TEN, node=loop, sig="init")
        swap_if = next((st for st in loop.body if isinstance(st, ast.If) and "Swap" in ast.unparse(st.test)), None)
        body_swap = [s for s in swap_if.body if not isinstance(s, ast.Continue)] if swap_if else None
        body_box = [s for s in loop.body if s is not swap_if]
        ctx.ob("R09.1", q + ":swap-step-exists", swap_if is not None and isinstance(swap_if.body[-1], ast.Continue), found=ast.unparse(swap_if.test) if swap_if else None,
               required="swap boxes are handled in the loop (and skip the contraction)", mod=TEN, node=loop, sig="swap-branch")
        # generic box step
        F, ev, env = setup()
        ev.run(pre, env)
        IN = F(W(DOM))
        env[scan], env[arr] = W(L, d, R), Arr(IN + F(W(L, d, R)))
        ev.bind(loop.target, (Box("box_k", W(d), W(c), isa=("Box",)), W(L).length), env)
        try:
            ev.run(body_box, env)
            okb = True
            if env[scan] != W(L, c, R):
                fail("box-step:scan", env[scan], W(L, c, R)); okb = False
            want = IN + F(W(L, c, R))
            if not env[arr].axes.same(want, ev.facts):
                fail("box-step:layout", env[arr].axes, want); okb = False
            if okb:
                ctx.ob("R09.1", q + ":box-step", True, found="[F(dom) | F(L) F(dom_k) F(R)] -> [F(dom) | F(L) F(cod_k) F(R)]", required="invariant preserved", mod=TEN, node=loop)
        except Unlocatable as e:
            fail("box-step:axes", str(e), "the contracted axes are the block of the row carrying F(box.dom); the new axes land in its place")
        # generic swap step
        if body_swap is not None:
            F, ev, env = setup()
            ev.run(pre, env)
            IN = F(W(DOM))
            env[scan], env[arr] = W(L, a, b_, R), Arr(IN + F(W(L, a, b_, R)))
            sw = Obj("Box", dom=W(a, b_), cod=W(b_, a), left=W(a), right=W(b_), isa=("Box", "Swap"))
            ev.bind(loop.target, (sw, W(L).length), env)
            try:
                for st in body_swap:
                    if isinstance(st, ast.Assign) and isinstance(st.value, ast.ListComp):
                        srcname = ast.unparse(st.value.generators[0].iter)
                        s0, s1 = ev.as_range(env[srcname])
                        wa, wb = F(W(a)).length, F(W(b_)).length
                        ev.block_src = {"A": s0, "B": s0 + wa}
                        if not ev.facts.eq(s0, IN.length + F(W(L)).length):
                            raise Unlocatable("swap step starts at axis %r, spec |F dom| + |F scan[:off]|" % (s0,))
                        if not ev.facts.eq(s1 - s0, wa + wb):
                            raise Unlocatable("swap step moves %r axes, spec |F left| + |F right|" % (s1 - s0))
                        moved = block_map(ev, st.value, env, [("A", s0, wa), ("B", s0 + wa, wb)])
                        ev.bind(st.targets[0], ("blockmap", s0, moved), env)
                    else:
                        ev.run([st], env)
                oks = True
                if env[scan] != W(L, b_, a, R):
                    fail("swap-step:scan", env[scan], W(L, b_, a, R)); oks = False
                want = IN + F(W(L, b_, a, R))
                if not env[arr].axes.same(want, ev.facts):
                    fail("swap-step:layout", env[arr].axes, want); oks = False
                if oks:
                    ctx.ob("R09.1", q + ":swap-step", True, found="[.. F(a) F(b) ..] -> [.. F(b) F(a) ..]", required="invariant preserved", mod=TEN, node=loop)
            except Unlocatable as e:
                fail("swap-step:axes", str(e), "the two adjacent blocks of widths |F left|, |F right| are exchanged")
        # exit
        F, ev, env = setup()
        ev.run(pre, env)
        env[scan], env[arr] = W(COD), Arr(F(W(DOM)) + F(W(COD)))
        r = ev.run(post, env)
        t = r[1] if r else None
        okx = t is not None and t.f["dom"] == F(W(DOM)) and t.f["cod"] == F(W(COD)) and t.f["array"].axes.same(F(W(DOM)) + F(W(COD)), ev.facts)
        ctx.ob("R09.1", q + ":exit", okx, found=t, required="Tensor(F(dom), F(cod), array)", mod=TEN, node=fn, sig="exit")
    except (Unsupported, Undecided) as e:
        raise AnalysisError("tensor.Functor.__call__ outside the recognised idioms: %s" % e)


def check_eval_and_spider(ctx):
    m = ctx.model
    q = TEN + ".Diagram.eval"
    fn = m.func(q)
    ctx.analysed(q, TEN + ".Sum.eval", TEN + ".Spider.__init__")
    none_branch = next((s for s in fn.body if isinstance(s, ast.If) and ast.unparse(s.test) == "contractor is None"), None)
    shape.match(ctx, "R09.2", q + ":identity-on-arrays", ret_expr(none_branch.body) if none_branch else None, "Functor(ob=lambda x: x, ar=lambda f: f.array)(self)", {},
                mod=TEN, node=fn, sig="eval", required="eval is the identity-on-arrays tensor functor")
    sf = m.func(TEN + ".Sum.eval")
    shape.match(ctx, "R09.2", TEN + ".Sum.eval", ret_expr(sf.body), "sum((term.eval(contractor=contractor) for term in self.terms))", {}, mod=TEN, node=sf, sig="sum-eval")
    ba = m.func(TEN + ".Box.array")
    ctx.analysed(TEN + ".Box.array")
    shape.match(ctx, "R09.2", TEN + ".Box.array", ret_expr(ba.body), ["Tensor.np.array(self.data).reshape(self.dom @ self.cod or (1,))", "Tensor.np.array(self.data).reshape(tuple(self.dom @ self.cod) or (1,))"], {},
                body=ba.body, mod=TEN, node=ba, sig="box-array", required="the data of a box as an array of shape dom @ cod (one entry for a scalar box)")
    sp = m.func(TEN + ".Spider.__init__")
    loop = next((s for s in sp.body if isinstance(s, ast.For)), None)
    ok = False
    if loop is not None and len(loop.body) == 1 and isinstance(loop.body[0], ast.Assign):
        st = loop.body[0]
        ok = ast.unparse(loop.iter) == "range(int(numpy.prod(dim)))" and ast.unparse(st) == "array[len(dom @ cod) * (%s,)] = 1" % loop.target.id
    zero = any(isinstance(s, ast.Assign) and ast.unparse(s.value) == "numpy.zeros(dom @ cod)" for s in sp.body)
    ctx.ob("R09.4", TEN + ".Spider.__init__:delta", ok and zero, found=ast.unparse(loop)[:120] if loop else None,
           required="zeros(dom @ cod) with exactly the all-equal index entries set to 1", mod=TEN, node=sp, sig="spider-delta")
    tm = m.func(TEN + ".Tensor.map")
    ctx.analysed(TEN + ".Tensor.map")
    shape.match(ctx, "R09.2", TEN + ".Tensor.map", ret_expr(tm.body), ["Tensor(self.dom, self.cod, list(map(func, self.array.flatten())))", "Tensor(self.dom, self.cod, [func(x) for x in self.array.flatten()])"],
                {tm.args.args[1].arg: "func"}, mod=TEN, node=tm, sig="tensor-map", required="a new tensor of the same type whose entries are the function's values as they are (a bubble is its function applied entry by entry: no cast to the "
                "type of the old entries)")
    tz = m.func(TEN + ".Tensor.zeros")
    ctx.analysed(TEN + ".Tensor.zeros")
    shape.match(ctx, "R09.2", TEN + ".Tensor.zeros", ret_expr(tz.body), "Tensor(dom, cod, Tensor.np.zeros(dom @ cod))", dict(zip([x.arg for x in tz.args.args], ("dom", "cod"))), mod=TEN, node=tz, sig="zeros",
                required="the zero tensor of that type (the unit the images of a sum are added to): one axis per wire of dom then of cod")
    ds = m.func(TEN + ".Diagram.spiders")
    ctx.analysed(TEN + ".Diagram.spiders")
    a_ = [x.arg for x in ds.args.args]
    shape.match_stmts(ctx, "R09.4", TEN + ".Diagram.spiders", [s for s in ds.body if not (isinstance(s, ast.Expr) and isinstance(s.value, ast.Constant))],
                      ["dim = dim if isinstance(dim, Dim) else Dim(dim)", "if not dim:\n    return Id(dim)", "if len(dim) == 1:\n    return Spider(n_legs_in, n_legs_out, dim)", "raise NotImplementedError"],
                      dict(zip(a_, ("n_legs_in", "n_legs_out", "dim"))), mod=TEN, node=ds, sig="spiders", exact=True,
                      required="no wire: the identity; one wire: the spider box with these legs; several wires are refused")
    typ = shape.values_of(sp.body, ["dom", "cod"])
    ctx.need(typ is not None, "Spider.__init__ does not bind dom, cod")
    shape.match(ctx, "R09.4", TEN + ".Spider.__init__:type", typ, "(dim ** n_legs_in, dim ** n_legs_out)", {}, mod=TEN, node=sp, sig="spider-type")


def check_bubble_types(ctx):
    """R09.7: a bubble is typed like its inside unless another type is given, in every layer (cat, monoidal, tensor); its tensor is the function applied to the inside's"""
    m = ctx.model
    CAT, MON = "discopy.cat", "discopy.monoidal"
    fn = m.func(CAT + ".Bubble.__init__")
    ctx.analysed(CAT + ".Bubble.__init__", MON + ".Bubble.__init__", TEN + ".Bubble.__init__", CAT + ".Arrow.bubble")
    a = [x.arg for x in fn.args.args]
    d = dict(zip(a[len(a) - len(fn.args.defaults):], fn.args.defaults))
    ok = a[1:] == ["inside", "dom", "cod"] and all(isinstance(d.get(k), ast.Constant) and d[k].value is None for k in ("dom", "cod"))
    ctx.ob("R09.7", CAT + ".Bubble.__init__:signature", ok, found=ast.unparse(fn.args), required="(inside, dom=None, cod=None)", mod=CAT, node=fn, sig="bubble-signature")
    shape.match_stmts(ctx, "R09.7", CAT + ".Bubble.__init__:type", fn.body, ["dom = inside.dom if dom is None else dom", "cod = inside.cod if cod is None else cod", "self._inside = inside", "Box.__init__(self, 'Bubble', dom, cod)"],
                      mod=CAT, node=fn, sig="bubble-type", required="the type of the inside by default, the given one otherwise; the inside kept")
    ins = m.func(CAT + ".Bubble.inside")
    shape.match(ctx, "R09.7", CAT + ".Bubble.inside", ret_expr(ins.body), "self._inside", {}, mod=CAT, node=ins, sig="bubble-inside")
    fn = m.func(MON + ".Bubble.__init__")
    a = [x.arg for x in fn.args.args]
    d = dict(zip(a[len(a) - len(fn.args.defaults):], fn.args.defaults))
    ok = a[1:4] == ["inside", "dom", "cod"] and all(isinstance(d.get(k), ast.Constant) and d[k].value is None for k in ("dom", "cod"))
    ctx.ob("R09.7", MON + ".Bubble.__init__:signature", ok, found=ast.unparse(fn.args), required="(inside, dom=None, cod=None, **params)", mod=MON, node=fn, sig="bubble-signature-monoidal")
    shape.match_stmts(ctx, "R09.7", MON + ".Bubble.__init__:type", fn.body, ["cat.Bubble.__init__(self, inside, dom, cod)", "Box.__init__(self, self._name, self.dom, self.cod, data=self.data)"], mod=MON, node=fn,
                      sig="bubble-type-monoidal", required="typed by cat.Bubble, then a monoidal box of that type")
    fn = m.func(TEN + ".Bubble.__init__")
    shape.match_stmts(ctx, "R09.7", TEN + ".Bubble.__init__", fn.body, ["self.func = func", "super().__init__(inside, **params)"], mod=TEN, node=fn, sig="bubble-tensor", required="the function kept, the type left to monoidal.Bubble")
    fn = m.func(CAT + ".Arrow.bubble")
    shape.match(ctx, "R09.7", CAT + ".Arrow.bubble", ret_expr(fn.body), "self.bubble_factory(self, **params)", {}, mod=CAT, node=fn, sig="arrow-bubble", required="the bubble around this very diagram, options passed on")
    for mod, cls in ((CAT, "Arrow"), (MON, "Diagram"), ("discopy.rigid", "Diagram"), (TEN, "Diagram")):
        c = m.cls("%s.%s" % (mod, cls))
        late = c.late.get("bubble_factory")
        ctx.ob("R09.7", "%s.%s.bubble_factory" % (mod, cls), late is not None and late[1] == "Bubble" and late[0] == mod, found=late, required="the Bubble class of the same module", mod=mod, node=c.node,
               sig="bubble-factory-" + mod, trivial=True) if late is not None or mod != "discopy.rigid" else None


def check_to_tn(ctx):
    """R09.6: evaluation through a contractor: the network built by to_tn has the wiring of the diagram and the result is typed like the diagram"""
    m = ctx.model
    q = TEN + ".Diagram.eval"
    fn = m.func(q)
    rest = [s for s in fn.body if not (isinstance(s, ast.If) and ast.unparse(s.test) == "contractor is None") and not (isinstance(s, ast.Expr) and isinstance(s.value, ast.Constant))]
    shape.match(ctx, "R09.6", q + ":contractor", ret_expr(rest), "Tensor(self.dom, self.cod, contractor(*self.to_tn()).tensor)", {}, body=rest, mod=TEN, node=fn, sig="contractor",
                required="the contracted network as a tensor with the domain and codomain of the diagram")
    q = TEN + ".Diagram.to_tn"
    tn_ = m.func(q)
    ctx.analysed(q)
    body = [s for s in tn_.body if not isinstance(s, (ast.Import, ast.ImportFrom))]
    shape.match_stmts(ctx, "R09.6", q + ":inputs", [s for s in body if isinstance(s, ast.Assign)],
                      ["nodes = [tn.Node(Tensor.np.eye(dim), 'input_{}'.format(i)) for i, dim in enumerate(self.dom)]", "inputs = [n[0] for n in nodes]", "scan = [n[1] for n in nodes]"],
                      mod=TEN, node=tn_, sig="tn-inputs", required="one identity node per input wire: its first edge is the input, its second the open wire")
    loop = next((s for s in body if isinstance(s, ast.For)), None)
    ctx.need(loop is not None and isinstance(loop.target, ast.Tuple) and len(loop.target.elts) == 2, "to_tn has no loop over boxes and offsets")
    shape.match(ctx, "R09.6", q + ":loop", loop.iter, "zip(self.boxes, self.offsets)", {}, mod=TEN, node=loop, sig="tn-loop")
    N = {loop.target.elts[0].id: "box", loop.target.elts[1].id: "offset"}
    sw = next((s for s in loop.body if isinstance(s, ast.If)), None)
    ctx.need(sw is not None, "to_tn: no swap branch")
    shape.match(ctx, "R09.6", q + ":swap-test", sw.test, "isinstance(box, Swap)", N, mod=TEN, node=sw, sig="tn-swap-test")
    shape.match_stmts(ctx, "R09.6", q + ":swap", sw.body, ["scan[offset], scan[offset + 1] = scan[offset + 1], scan[offset]", "continue"], N, mod=TEN, node=sw, sig="tn-swap", exact=True,
                      required="a swap exchanges the two open wires at its offset and adds no node")
    after = [s for s in loop.body if s is not sw]
    conn = next((s for s in after if isinstance(s, ast.For)), None)
    ctx.need(conn is not None, "to_tn: no loop connecting the inputs of the box")
    flat = [s for s in after if s is not conn]
    shape.match_stmts(ctx, "R09.6", q + ":box", flat,
                      ["array = box.eval().array if box.is_dagger else box.array", "node = tn.Node(array, str(box))", "edges = [node[len(box.dom) + i] for i, _ in enumerate(box.cod)]",
                       "scan = scan[:offset] + edges + scan[offset + len(box.dom):]", "nodes.append(node)"], N, mod=TEN, node=loop, sig="tn-box",
                      required="a node per box (array read after the dagger flag), its output edges spliced over its inputs in the open wires")
    iv = conn.target.elts[0].id if isinstance(conn.target, ast.Tuple) else conn.target.id if isinstance(conn.target, ast.Name) else None
    N2 = dict(N)
    N2[iv] = "i"
    shape.match(ctx, "R09.6", q + ":connect-range", conn.iter, ["enumerate(box.dom)", "range(len(box.dom))"], N, mod=TEN, node=conn, sig="tn-connect-range")
    shape.match_stmts(ctx, "R09.6", q + ":connect", conn.body, ["tn.connect(scan[offset + i], node[i])"], N2, mod=TEN, node=conn, sig="tn-connect", exact=True,
                      required="the i-th input edge of the node is connected to the open wire at offset + i")
    order = [s for s in after if isinstance(s, (ast.For, ast.Assign, ast.Expr))]
    names_in_order = [shape.head(s) if not isinstance(s, ast.For) else "connect" for s in order]
    pos = {h: k for k, h in enumerate(names_in_order)}
    okord = pos.get("=node", 99) < pos.get("connect", -1) < pos.get("=scan", -1)
    ctx.ob("R09.6", q + ":order", okord, found=names_in_order, required="the node is created, then connected to the open wires, and only then the open wires are replaced", mod=TEN, node=loop, sig="tn-order")
    shape.match(ctx, "R09.6", q + ":result", ret_expr(body), "(nodes, inputs + scan)", {}, mod=TEN, node=tn_, sig="tn-result", required="all nodes; dangling edges ordered inputs first, then the open wires left to right")


def check(ctx):
    ctx.rule("R09.1", "loop invariant of the contraction loop: array layout = [F(dom) | F(scan)]; box step and swap step preserve it; result is Tensor(F dom, F cod)")
    ctx.rule("R09.2", "dispatch order/totality and structural images (cups, caps, sums, bubbles, objects in order ignoring winding, lookup typed by the images)")
    ctx.rule("R09.3", "flag-dagger discipline: a box's array is read only after its dagger flag has been handled")
    ctx.rule("R09.4", "spider arrays are the all-equal-index deltas of type dim^n -> dim^m")
    ctx.attempt(check_functor, ctx)
    n, flags = check_flag_discipline(ctx, TEN, "R09.3")
    ctx.notes.append("flag-daggered classes: %s" % sorted(k.q for k in flags))
    ctx.attempt(check_eval_and_spider, ctx)
    ctx.rule("R09.7", "bubbles are typed like their inside unless told otherwise (cat, monoidal, tensor); .bubble() wraps the diagram itself with the module's own Bubble class")
    ctx.attempt(check_bubble_types, ctx)
    ctx.rule("R09.6", "evaluation through a contractor: to_tn builds one identity node per input, one node per box wired at its offset, swaps exchange open wires; the result is typed by the diagram")
    ctx.attempt(check_to_tn, ctx)
    ctx.rule("R09.5", "the operations the evaluation is built from (then, tensor, dagger, swap, cups, caps of Tensor) have the matrix layout they claim (C08)")
    ctx.depend("R09.5", "C08", "evaluation composes the images with Tensor.then / tensor / swap / cups / dagger: each must contract and order the axes as a matrix product / Kronecker product", mod="discopy.tensor")
    # the default function of a tensor bubble: logical negation as NUMBERS (booleans would add with `or` and contract with `and`)
    from ..fold import fold as ffold, CannotFold
    m = ctx.model
    bi = m.func(TEN + ".Bubble.__init__")
    a = bi.args
    d = dict(zip([x.arg for x in a.args][len(a.args) - len(a.defaults):], a.defaults)).get("func")
    ctx.need(isinstance(d, ast.Lambda) and len(d.args.args) == 1, "tensor.Bubble.__init__ has no lambda default for func")
    bad = []
    for x, want in ((0, 1), (1, 0), (2, 0), (0.0, 1), (0.5, 0)):
        try:
            got = ffold(d.body, {d.args.args[0].arg: x, "int": int, "float": float, "bool": bool, "abs": abs})
        except CannotFold as e:
            raise AnalysisError("tensor.Bubble default function cannot be folded: %s" % e)
        if got != want or isinstance(got, bool):
            bad.append("func(%r) = %r (%s), expected the number %d" % (x, got, type(got).__name__, want))
    ctx.ob("R09.2", TEN + ".Bubble.__init__:default-func", not bad, found=bad[:2] or ast.unparse(d), required="entry-wise negation with numeric values 0 / 1 (sums and contractions of bubble tensors are arithmetic)", mod=TEN, node=d,
           sig="bubble-default")
    ctx.floor("R09.1", 6)
    ctx.floor("R09.2", 14)
    ctx.floor("R09.3", 10)
    ctx.floor("R09.4", 2)
    ctx.not_decided += ["user arrays of the wrong size (numpy raises)", "floating-point values"]
