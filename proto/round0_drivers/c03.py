"""Prototype R03.2 (hash ⊆ eq) / R03.3 (eq ⊆ repr): attribute dependence of __eq__/__hash__/__repr__ per class."""
import ast, sys
from .model import Model
from .prov import init_prov, show


def reads(M, cls, mname, seen=None, depth=0):
    """set of underlying attributes (self._x / self.x not a property) read by cls.mname, through properties and self-methods"""
    seen = set() if seen is None else seen
    if (cls.q, mname) in seen or depth > 6:
        return set()
    seen.add((cls.q, mname))
    r = M.lookup(cls, mname)
    if not r or not isinstance(r[1], ast.FunctionDef):
        return set()
    owner, fn = r[0], r[1]
    out = set()
    for n in ast.walk(fn):
        if isinstance(n, ast.Attribute) and isinstance(n.value, ast.Name) and n.value.id == "self":
            out |= attr_reads(M, cls, n.attr, seen, depth)
        elif isinstance(n, ast.Call) and isinstance(n.func, ast.Name) and n.func.id in ("repr", "str", "hash", "len") \
                and n.args and isinstance(n.args[0], ast.Name) and n.args[0].id == "self":
            out |= reads(M, cls, "__%s__" % n.func.id, seen, depth + 1)
        elif isinstance(n, ast.Call) and isinstance(n.func, ast.Attribute) and isinstance(n.func.value, ast.Call) \
                and ast.unparse(n.func.value.func) == "super":
            nxt = M.lookup(cls, n.func.attr, after=owner)
            if nxt and isinstance(nxt[1], ast.FunctionDef):
                sub = reads_fn(M, cls, nxt[0], nxt[1], seen, depth + 1)
                out |= sub
        elif isinstance(n, ast.Call) and ast.unparse(n.func) == "getattr" and isinstance(n.args[0], ast.Name) and n.args[0].id == "self":
            # getattr(self, a) for a in [...]  -> attribute names from the literal list in the same function
            for lst in ast.walk(fn):
                if isinstance(lst, ast.List) and all(isinstance(e, ast.Constant) and isinstance(e.value, str) for e in lst.elts):
                    for e in lst.elts:
                        out |= attr_reads(M, cls, e.value, seen, depth)
    return out


def reads_fn(M, cls, owner, fn, seen, depth):
    out = set()
    for n in ast.walk(fn):
        if isinstance(n, ast.Attribute) and isinstance(n.value, ast.Name) and n.value.id == "self":
            out |= attr_reads(M, cls, n.attr, seen, depth)
        elif isinstance(n, ast.Call) and isinstance(n.func, ast.Name) and n.func.id in ("repr", "str") and n.args \
                and isinstance(n.args[0], ast.Name) and n.args[0].id == "self":
            out |= reads(M, cls, "__%s__" % n.func.id, seen, depth + 1)
    return out


def attr_reads(M, cls, attr, seen, depth):
    r = M.lookup(cls, attr)
    if r and isinstance(r[1], ast.FunctionDef):
        if r[2] == "property":
            return reads(M, cls, attr, seen, depth + 1) or {attr}
        return reads(M, cls, attr, seen, depth + 1)        # method call such as self.dagger()
    return {attr}


def derived_from(prov, attr):
    """underlying constructor parameters an attribute is computed from"""
    from .c14 import params_in
    return params_in(prov.get(attr, ()))


def check(out=print, modules=("discopy.cat", "discopy.monoidal", "discopy.rigid")):
    M = Model()
    from .c14 import params_in
    fails, n = [], 0
    for c in sorted(M.classes.values(), key=lambda c: c.q):
        if c.mod not in modules:
            continue
        if not any(M.lookup(c, m) for m in ("__eq__",)):
            continue
        own = {m for m in ("__eq__", "__hash__", "__repr__") if m in c.methods}
        if not own and not any(k.mod in modules and set(k.methods) & {"__eq__", "__hash__", "__repr__"} for k in M.mro(c)[1:2]):
            pass
        eq, hs, rp = (reads(M, c, m) for m in ("__eq__", "__hash__", "__repr__"))
        if not eq:
            continue
        n += 1
        try:
            prov = init_prov(M, c)
        except Exception as e:
            prov = {}
        # close under derivation: an attribute computed only from parameters that also feed eq-attributes is determined by eq
        eq_params = set().union(*[params_in(prov.get(a, ())) | ({a} if a not in prov else set()) for a in eq]) if eq else set()
        def determined(a):
            if a in eq:
                return True
            if a in prov:
                p = prov[a]
                ps = params_in(p)
                return p[0] == "const" or (ps and ps <= eq_params) or (not ps and p[0] in ("const", "raw", "op", "call"))
            return False
        extra_hash = sorted(a for a in hs if not determined(a))
        missing_repr = sorted(a for a in eq if a not in rp and not (a in prov and prov[a][0] == "const"))
        line = "%-28s eq=%s hash=%s repr=%s" % (c.q.replace("discopy.", ""), sorted(eq), sorted(hs), sorted(rp))
        out("  " + line)
        if extra_hash:
            fails.append("R03.2 %s: __hash__ depends on %s which __eq__ does not compare" % (c.q, extra_hash))
        if missing_repr:
            fails.append("R03.3 %s: __eq__ compares %s which __repr__ does not show" % (c.q, missing_repr))
    for f in fails:
        out("VIOLATION-CANDIDATE " + f)
    out("  %d classes analysed" % n)
    return 1 if fails else 0


if __name__ == "__main__":
    sys.exit(check())
