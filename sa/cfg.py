"""Engine F support: statement-level CFG with dominators for one function."""
import ast


class CFG:
    ENTRY, EXIT, RAISE = "entry", "exit", "raise"

    def __init__(self, fn):
        self.fn = fn
        self.succ = {self.ENTRY: set(), self.EXIT: set(), self.RAISE: set()}
        self.nodes = {}          # id -> ast stmt
        self.label = {}          # (id, target) -> 'T' / 'F' for branch edges
        ends = self._block(fn.body, [self.ENTRY], None, None)
        for e in ends:
            self._edge(e, self.EXIT)
        self._dominators()

    # -- construction ---------------------------------------------------------
    def _nid(self, st):
        k = id(st)
        self.nodes[k] = st
        self.succ.setdefault(k, set())
        return k

    def _edge(self, a, b, lab=None):
        self.succ.setdefault(a, set()).add(b)
        if lab:
            self.label[(a, b)] = lab

    def _block(self, body, preds, loop_head, loop_exit):
        """returns the list of nodes from which control falls out of the block"""
        for st in body:
            if not preds:
                break
            n = self._nid(st)
            for p in preds:
                lab = None
                if isinstance(p, tuple):
                    p, lab = p
                self._edge(p, n, lab)
            if isinstance(st, ast.If):
                t = self._block(st.body, [(n, "T")], loop_head, loop_exit)
                f = self._block(st.orelse, [(n, "F")], loop_head, loop_exit) if st.orelse else [(n, "F")]
                preds = t + f
            elif isinstance(st, (ast.For, ast.While)):
                exits = []
                body_end = self._block(st.body, [(n, "T")], n, exits)
                for e in body_end:
                    p, lab = e if isinstance(e, tuple) else (e, None)
                    self._edge(p, n, lab)
                infinite = isinstance(st, ast.While) and isinstance(st.test, ast.Constant) and st.test.value is True
                after = [] if infinite else [(n, "F")]
                if st.orelse:
                    after = self._block(st.orelse, after, loop_head, loop_exit)
                preds = after + exits
            elif isinstance(st, ast.Try):
                b = self._block(st.body, [n], loop_head, loop_exit)
                hs = []
                for h in st.handlers:
                    hs += self._block(h.body, [n], loop_head, loop_exit)     # coarse: handler reachable from try entry
                if st.orelse:
                    b = self._block(st.orelse, b, loop_head, loop_exit)
                preds = b + hs
                if st.finalbody:
                    preds = self._block(st.finalbody, preds, loop_head, loop_exit)
            elif isinstance(st, ast.Return):
                self._edge(n, self.EXIT); preds = []
            elif isinstance(st, ast.Raise):
                self._edge(n, self.RAISE); preds = []
            elif isinstance(st, ast.Continue):
                self._edge(n, loop_head); preds = []
            elif isinstance(st, ast.Break):
                loop_exit.append(n); preds = []
            else:
                preds = [n]
        return preds

    # -- dominators -------------------------------------------------------------
    def _dominators(self):
        nodes = list(self.succ)
        pred = {n: set() for n in nodes}
        for a, bs in self.succ.items():
            for b in bs:
                pred.setdefault(b, set()).add(a)
        dom = {n: set(nodes) for n in nodes}
        dom[self.ENTRY] = {self.ENTRY}
        changed = True
        while changed:
            changed = False
            for n in nodes:
                if n == self.ENTRY:
                    continue
                ps = [dom[p] for p in pred[n]]
                new = (set.intersection(*ps) if ps else set()) | {n}
                if new != dom[n]:
                    dom[n], changed = new, True
        self.dom, self.pred = dom, pred

    # -- queries ------------------------------------------------------------------
    def stmt_of(self, node):
        """the statement (CFG node) containing an arbitrary AST node"""
        for k, st in self.nodes.items():
            if isinstance(st, (ast.If, ast.For, ast.While, ast.Try)):
                heads = [st.test] if isinstance(st, (ast.If, ast.While)) else [st.iter, st.target] if isinstance(st, ast.For) else []
                if any(node is x for h in heads for x in ast.walk(h)):
                    return k
            elif any(node is x for x in ast.walk(st)):
                return k
        return None

    def dominates(self, a, b):
        return id(a) in self.dom.get(id(b), ()) if not isinstance(a, str) else a in self.dom.get(id(b), ())

    def raising_guards_before(self, node):
        """[(if-stmt, polarity)] : `if` statements dominating `node` one of whose branches cannot fall through to `node`
        polarity 'T' means: the test being true leads to raise/return, so the test is FALSE at `node`."""
        k = self.stmt_of(node)
        out = []
        for d in self.dom.get(k, ()):
            st = self.nodes.get(d)
            if isinstance(st, ast.If) and d != k:
                for lab, body in (("T", st.body), ("F", st.orelse)):
                    if body and self._never_reaches(body, k):
                        out.append((st, lab, self._how_ends(body)))
        return out

    def _never_reaches(self, body, target):
        seen, todo = set(), [id(body[0])]
        while todo:
            n = todo.pop()
            if n == target:
                return False
            if n in seen or n in (self.EXIT, self.RAISE):
                continue
            seen.add(n)
            todo += list(self.succ.get(n, ()))
        return True

    def _how_ends(self, body):
        last = body[-1]
        return "raise " + ast.unparse(last.exc) if isinstance(last, ast.Raise) and last.exc else type(last).__name__.lower()

    def yields(self):
        return [n for st in self.nodes.values() for n in ast.walk(st) if isinstance(n, (ast.Yield, ast.YieldFrom))]


if __name__ == "__main__":
    import sys
    sys.path.insert(0, "/tmp/spike")
    from sa.model import Model
    M = Model()
    fn = M.func("discopy.cat.Arrow.then")
    g = CFG(fn)
    ctor = next(n for n in ast.walk(fn) if isinstance(n, ast.Call) and ast.unparse(n.func) == "Arrow")
    for st, lab, how in g.raising_guards_before(ctor):
        print("guard before Arrow(..., _scan=False):  %s  is %s here (other branch ends in %s)" % (ast.unparse(st.test), "False" if lab == "T" else "True", how))
    fn = M.func("discopy.rewriting.interchange")
    g = CFG(fn)
    sub = next(n for n in ast.walk(fn) if isinstance(n, ast.Subscript) and ast.unparse(n) == "self.offsets[i]")
    print([(ast.unparse(st.test), lab, how) for st, lab, how in g.raising_guards_before(sub)])
